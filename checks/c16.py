"""C16 address parsing and option normalisation — specs/Addrs.tla evaluated by TLC into vector tables."""
import json, os
import vlib


def run(ctx):
    res = vlib.tlc(ctx, "Addrs", "Addrs.cfg", timeout=300, name="Addrs")
    p = os.path.join(res["dir"], "addrs.json")
    if not res["finished"] or not os.path.exists(p):
        raise vlib.MachineryError("Addrs.tla did not evaluate:\n" + "\n".join(res["out"].splitlines()[-30:]))
    d = json.load(open(p))
    ctx.notes.append("TLC generated %d address strings, %d capacity, %d chunk and %d loop-count vectors" % (len(d["addrs"]), len(d["caps"]), len(d["chunks"]), len(d["loops"])))
    for tags in (["verif"] + (["verif poll_opt gc_opt"] if ctx.thorough else [])):
        rep = vlib.go_harness(ctx, ".", "TestVerifAddrTables", name="addr-" + tags.replace(" ", "+"), tags=tags,
                              env={"VERIF_TABLES": p, "VERIF_MUTATIONS": 1000000 if ctx.thorough else 100000}, timeout=900)
        vlib.absorb(ctx, rep, "addr")
    ctx.exhaustive = False
    ctx.assumptions += ["the address grammar and the acceptable outcome classes are those of specs/Addrs.tla; where url.Parse pre-empts the named error any error is accepted (the statement requires failure)"]
    return vlib.finish(ctx, "exploration",
                       "cases: every string of the TLC-generated grammar product with its acceptable outcome classes, seeded byte-level mutations of those strings (totality), every capacity / chunk / loop-count vector; distinct = distinct strings and option vectors (mutations are counted as evaluations only)")
