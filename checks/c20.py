"""C20 power-of-two and index arithmetic — specs/Tables.tla evaluated by TLC into vector / interval tables,
checked against the real functions (exhaustive over the 32-bit range in the thorough tier)."""
import json, os
import vlib


def tables(ctx):
    res = vlib.tlc(ctx, "Tables", "Tables.cfg", timeout=600, name="Tables")
    p = os.path.join(res["dir"], "tables.json")
    if not res["finished"] or not os.path.exists(p):
        raise vlib.MachineryError("Tables.tla did not evaluate:\n" + "\n".join(res["out"].splitlines()[-30:]))
    return p


def run(ctx):
    p = tables(ctx)
    d = json.load(open(p))
    ctx.notes.append("TLC evaluated %d small vectors, %d symbolic vectors, %d intervals, %d GFD vectors; the ASSUME that the symbolic rules agree with the mathematical definitions for k in 4..29 held"
                     % (len(d["small"]), len(d["big"]), len(d["intervals"]), len(d["gfd"])))
    for pkg, test in (("pkg/math", "TestVerifMathTables"), ("pkg/pool/byteslice", "TestVerifIndexTable"), ("internal/gfd", "TestVerifGFDTable")):
        rep = vlib.go_harness(ctx, pkg, test, env={"VERIF_TABLES": p}, timeout=1500)
        vlib.absorb(ctx, rep, test)
    ctx.samples.append(d["small"][9])
    ctx.exhaustive = ctx.thorough
    ctx.assumptions += ["TLC 1.8.0 evaluates the definitions; for arguments above 2^30 the expected values come from the symbolic rules of Tables.tla (checked against the mathematical definitions below 2^30)"]
    return vlib.finish(ctx, "exploration",
                       "cases: every integer in -3..4100, 2^k+d for k in 4..62 and |d|<=2, every point (thorough: k<=31; quick: k<=22) or 200k seeded samples of each interval of the TLC interval table, GFD field-boundary products; distinct = distinct arguments / intervals")
