"""C06 graceful shutdown — shutdown requested from every documented source while connections are active, idle and
being accepted (TestVerifShutdown), validated by TrLife.tla; plus the general scenarios (which all end with a shutdown)."""
import vlib
from checks import system


def run(ctx):
    system.engine_design(ctx)
    for tags in (["verif"] + (["verif poll_opt gc_opt"] if ctx.thorough else [])):
        t = system.record(ctx, "shutdown-" + tags.replace(" ", "+"), test="TestVerifShutdown", tags=tags, rounds=3 if ctx.thorough else 1)
        system.validate(ctx, t, ["TrLife"], "shutdown sources x moments, " + tags)
        system.engine_traces(ctx, t, "shutdown " + tags)
    t = system.record(ctx, "sys")
    system.validate(ctx, t, ["TrLife"], "general scenarios")
    system.engine_traces(ctx, t, "general scenarios")
    # the request arriving exactly while a loop is finishing a batch of tasks (interleaving forced with the gates)
    for tags in (["verif"] + (["verif poll_opt"] if ctx.thorough else [])):
        t = system.record(ctx, "stoprace-" + tags.replace(" ", "+"), test="TestVerifStopRace", tags=tags, rounds=3 if ctx.thorough else 1)
        system.validate(ctx, t, ["TrLife"], "shutdown request while a loop finishes a batch, " + tags)
        system.engine_traces(ctx, t, "stoprace " + tags)
    if vlib.have_strace():
        # an accept error the loop does not survive (the descriptor table is full) ends the engine: that shutdown must be
        # as complete as a requested one
        t = system.record(ctx, "accept-fatal", test="TestVerifFaults", env={"VERIF_FAULT_SET": "fatal"})
        system.validate(ctx, t, ["TrLife", "TrFd"], "engine ended by a fatal accept error")
    # a connection arriving while the engine is stopping and the listener's loop is inside a callback
    t = system.record(ctx, "lateaccept", test="TestVerifLateAccept")
    system.validate(ctx, t, ["TrLife"], "late connection during shutdown")
    system.engine_traces(ctx, t, "lateaccept")
    # the poller's side of a Shutdown answer: a (low-priority) task that returns ErrEngineShutdown ends Polling whatever is
    # queued behind it -- every schedule of Poller.tla's graph for such a script on the real poller
    from checks import c03
    c03.replay(ctx, "Poller_replayS.cfg", 0)
    t = system.record(ctx, "client", test="TestVerifClient")
    system.validate(ctx, t, ["TrLife"], "client engines ended by Client.Stop")
    system.engine_traces(ctx, t, "client engines")
    ctx.assumptions += system.SYS_ASSUME + ["bounded time is judged as: Run returns within 20 s of the request on an otherwise idle machine"]
    return vlib.finish(ctx, "model_checking",
                       "one case = one engine life ended by a shutdown request from {Engine.Stop, Stop, OnTick, OnOpen, OnTraffic, an OnTraffic caused by Wake, an OnTraffic that closed its own connection (EventLoop.Close) before answering, OnClose, OnBoot} x {reactor, reuse-port} with idle / active / just-being-accepted connections; every event validated by TrLife.tla (Run returns nil, all opened connections closed before it returns, OnShutdown once, nothing after return, OnBoot shutdown starts nothing; the ticker's own rules -- one tick at a time, one goroutine, never before the returned delay -- are reported as non-conformances only); Engine.tla (acceptors, hand-off queues, shutdown sources, engine.stop, ticker) model-checked for safety and termination, and every recorded engine life validated against it (EngineTrace.tla)")
