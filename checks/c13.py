"""C13 the lock-free queue is a linearizable FIFO — specs/MSQueue.tla (atomic-step model, exhaustive + liveness),
gated schedules of the real queue replayed from the TLC state graph (channel C), histories validated by QueueLin.tla."""
import os
import vlib


def lin(ctx, tracefile, what, deque=True):
    r = vlib.validate_trace(ctx, "QueueLin", "QueueLin.cfg", tracefile, name="lin-" + what, timeout=1500, deque=False)
    if not r["accepted"]:
        ctx.violations.append({"kind": "violation", "sig": "queue/not-linearizable/" + what, "count": 1, "path": [],
                               "detail": "the recorded call/return history has no linearisation as a FIFO queue up to event %s: %s" % (r["prefix"], r.get("event"))})


def run(ctx):
    g = vlib.tlc_model_check(ctx, "MSQueue", "MSQueue_quick.cfg", dump="g", timeout=600)
    vlib.tlc_model_check(ctx, "MSQueue", "MSQueue_mid.cfg", timeout=900)
    if ctx.thorough:
        vlib.tlc_model_check(ctx, "MSQueue", "MSQueue_thorough.cfg", timeout=2400, heap="24g")
    t1 = os.path.join(ctx.scratch, "qcover.ndjson")
    rep = vlib.go_harness(ctx, "pkg/queue", "TestVerifQueueCover", name="cover",
                          env={"VERIF_GRAPH": g["dot"], "VERIF_TRACE": t1, "VERIF_MAX_EDGES": 0 if ctx.thorough else 4000}, timeout=1500)
    vlib.absorb(ctx, rep, "cover")
    lin(ctx, t1, "cover")
    t2 = os.path.join(ctx.scratch, "qrandom.ndjson")
    rep = vlib.go_harness(ctx, "pkg/queue", "TestVerifQueueRandom", name="random",
                          env={"VERIF_TRACE": t2, "VERIF_SCHEDULES": 3000 if ctx.thorough else 300}, timeout=1500)
    vlib.absorb(ctx, rep, "random")
    lin(ctx, t2, "random")
    t3 = os.path.join(ctx.scratch, "qstress.ndjson")
    rep = vlib.go_harness(ctx, "pkg/queue", "TestVerifQueueStress", name="stress",
                          env={"VERIF_TRACE": t3, "VERIF_WINDOWS": 2000 if ctx.thorough else 300}, timeout=900)
    vlib.absorb(ctx, rep, "stress")
    lin(ctx, t3, "stress")
    ctx.samples.append(open(t1).read().splitlines()[1:8])
    ctx.assumptions += ["TLC 1.8.0", "sync/atomic operations are sequentially consistent; nodes are never recycled (Go GC, no ABA)",
                        "under the gate scheduler exactly one goroutine runs between two gates, so the schedule is the interleaving"]
    return vlib.finish(ctx, "model_checking",
                       "exhaustive TLC (all interleavings of atomic steps for the bounded scripts, safety + termination under weak fairness); one replay case = one labelled edge of the MSQueue graph executed as a schedule of the real queue with the pointer state compared after every step; histories of every schedule, of seeded PCT schedules and of ungated stress windows validated by QueueLin.tla")
