"""C11 linkedlist.Buffer — specs/LList.tla, transition-cover replay on the real object."""
import vlib


def run(ctx):
    small = vlib.tlc_model_check(ctx, "MCLList", "LList_mid.cfg" if ctx.thorough else "LList_small.cfg", dump="g", timeout=900)
    real = vlib.tlc_model_check(ctx, "MCLList", "LList_real5.cfg" if ctx.thorough else "LList_real.cfg", dump="g", timeout=1800)
    rep = vlib.go_harness(ctx, "pkg/buffer/linkedlist", "TestVerifLListCover", name="cover-small",
                          env={"VERIF_GRAPH": small["dot"], "VERIF_SCALE": 128}, timeout=900)
    vlib.absorb(ctx, rep, "cover-small")
    rep = vlib.go_harness(ctx, "pkg/buffer/linkedlist", "TestVerifLListCover", name="cover-real",
                          env={"VERIF_GRAPH": real["dot"], "VERIF_SCALE": 1}, timeout=2400)
    vlib.absorb(ctx, rep, "cover-real")
    ctx.assumptions += ["TLC 1.8.0", "scripted io.Reader/io.Writer alphabet (zero/one/full x nil/EOF/error)",
                        "scaled configuration: unit 128 bytes, <= 4 segments, <= 12 units; real configuration: byte sizes around 512 to depth 3 (quick) / 5 (thorough; scaled configuration then <= 5 segments, <= 16 units)"]
    return vlib.finish(ctx, "model_checking",
                       "one case = one labelled edge (segment structure, operation, arguments/script) of the TLC state graph of LList.tla replayed on a real linkedlist.Buffer; distinct = distinct (source state, label)")
