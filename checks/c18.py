"""C18 an I/O failure on one connection stays on that connection — system-call faults injected with strace into the
pinned event-loop thread (one fault per engine life) and real resets, validated by TrLife / TrIn / TrOut / TrFd."""
import re
import vlib
from checks import system


def drop_misplaced(ctx, trace):
    """strace counts every call of the chosen name on the loop's thread, so `write:when=k` can land on the poller's
    own eventfd (a wake-up write in Trigger, not a call made on behalf of a connection; EPIPE / ECONNRESET cannot
    occur there).  The harness logs where each fault landed (FaultHit, from strace's own output); engine lives whose
    fault hit the eventfd are outside the property's quantification and are not validated."""
    import json
    lives, cur = [], []
    with open(trace) as f:
        for line in f:
            if '"ev":"Reset"' in line and cur:
                lives.append(cur)
                cur = []
            cur.append(line)
    if cur:
        lives.append(cur)
    kept, dropped, redel, stalled = [], 0, 0, 0
    for lv in lives:
        hits = [json.loads(l) for l in lv if '"ev":"FaultHit"' in l]
        if any(h.get("eventfd") for h in hits):
            dropped += 1
            continue
        # the injector itself got in the way: the tracer kept the loop's thread stopped for seconds, or the harness's own
        # timers fired many seconds late (the process was not running): what such a life shows about bounded time says
        # nothing about gnet
        if any(('"ev":"TracerStall"' in l) or ('"ev":"HarnessStall"' in l) for l in lv):
            stalled += 1
            continue
        # an injected failure of EPOLL_CTL_DEL leaves the kernel's registration behind as long as a duplicate of the
        # descriptor is alive (the handler holds one for 25 ms): epoll goes on reporting the dead number and the loop
        # answers every such report with another EPOLL_CTL_DEL of that number.  These repeated deletions are the
        # framework's clean-up of the fault's consequence, not polling of a foreign descriptor: they are taken out
        stale = set()
        for h in hits:
            m = re.search(r"EPOLL_CTL_DEL, (\d+)", h.get("line", ""))
            if m:
                stale.add(int(m.group(1)))
        if stale:
            closed, out = set(), []
            for l in lv:
                if '"site":"el.close"' in l:
                    d = json.loads(l)
                    if d["fd"] in stale:
                        closed.add(d["fd"])
                elif '"site":"p.ctl.Delete"' in l:
                    d = json.loads(l)
                    if d["fd"] in closed and d.get("h", 0) == 0:
                        redel += 1
                        continue
                out.append(l)
            lv = out
        kept += lv
    if redel:
        ctx.notes.append("%d repeated EPOLL_CTL_DEL intents on the number of a connection whose own EPOLL_CTL_DEL had been failed by injection were taken out of the log" % redel)
    if dropped:
        ctx.notes.append("%d engine lives discarded: the injected fault landed on the poller's eventfd, not on a connection's system call" % dropped)
    if stalled:
        ctx.notes.append("%d engine lives discarded: the tracer kept the loop's thread stopped (or the whole process did not run) for seconds while the fault was armed" % stalled)
    if dropped or redel or stalled:
        out = trace + ".kept"
        with open(out, "w") as f:
            f.writelines(kept)
        return out
    return trace


def run(ctx):
    t = system.record(ctx, "faults", test="TestVerifFaults", timeout=2400)
    rep = ctx.harness_runs[-1]
    armed = (rep.get("extra") or {}).get("faults_armed", 0)
    if not armed:
        raise vlib.MachineryError("no fault could be injected (strace could not attach to the loop thread)")
    ctx.notes.append("%d faults injected" % armed)
    t = drop_misplaced(ctx, t)
    system.validate(ctx, t, ["TrLife", "TrFault", "TrIn", "TrOut", "TrFd"], "injected faults")
    t = system.record(ctx, "sys")
    system.validate(ctx, t, ["TrLife"], "real resets among bystanders")
    ctx.assumptions += system.SYS_ASSUME + ["strace -e inject fails exactly the k-th call of one system call on the loop's OS thread (WithLockOSThread)",
                                            "a fault that strace placed on a write to the poller's eventfd (identified from strace's own log) is outside the property: that engine life is discarded",
                                            "close(2), accept4 with fatal errnos and epoll_wait with errnos other than EINTR are not injected (fatal by design / injection would fake a leak)",
                                            "an injected EAGAIN on read is only used in level-triggered mode (the kernel would not report it with data pending)"]
    return vlib.finish(ctx, "fault_enumeration",
                       "one case = one engine life with one injected fault (site in {read, write, writev, epoll_ctl, epoll_wait, accept4} x errno x call index x {LT, ET}) while 4 bystander connections carry checked traffic, followed by a liveness probe connection; distinct = distinct (site, errno, index, mode); the recorded execution must satisfy TrLife (victim closed once with an error, write errors close the connection, engine keeps running), TrIn / TrOut (bystanders' streams intact) and TrFd (descriptor released)")
