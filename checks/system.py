"""System-level conformance (channel B): real engines driven by scripted peers / handlers, recorded through the
handler, the peers and the verif hooks, validated by the trace specifications Tr*.tla."""
import os
import vlib

SPEC_PROPS = {
    "TrIn": "C01", "TrOut": "C02", "TrLife": "C04", "TrFd": "C07",
}


def record(ctx, name, test="TestVerifSys", rounds=None, tags="verif", env=None, timeout=900):
    t = os.path.join(ctx.scratch, "%s.ndjson" % name)
    e = {"VERIF_TRACE": t, "VERIF_ROUNDS": rounds if rounds is not None else (4 if ctx.thorough else 1),
         "VERIF_SYS_SCRATCH": ctx.sub("sock." + name)}
    if env:
        e.update(env)
    rep = vlib.go_harness(ctx, ".", test, name=name, tags=tags, env=e, timeout=timeout, netns=True)
    vlib.absorb(ctx, rep, name)
    return t


def validate(ctx, trace, specs, what):
    """Run the given trace specifications over one recorded trace; property-check failures become violations."""
    if any(v["sig"].endswith("/crash") for v in ctx.violations):
        ctx.notes.append("the harness process crashed inside the code under test: its (incomplete) trace was not validated")
        return
    truncated, line = False, ""
    with open(trace) as f:
        for line in f:
            pass
        truncated = '"Truncated"' in line
    if not line:
        raise vlib.MachineryError("the harness recorded an empty trace (%s)" % what)
    for spec in specs:
        r = vlib.validate_trace(ctx, spec, spec + ".cfg", trace, name="%s-%s" % (spec, what), timeout=1500, heap="12g", linear=True)
        if r["viols"]:
            seen = set()
            for v in r["viols"]:
                if v["inv"] in seen:
                    continue
                seen.add(v["inv"])
                ctx.violations.append({"kind": "violation", "sig": "%s/%s" % (spec, v["inv"]), "count": 1, "path": [],
                                       "detail": "%s: check %s fails at event %d of the recorded execution (%s): %s" % (spec, v["inv"], v["at"], what, v["info"])})
        elif not r["accepted"]:
            raise vlib.MachineryError("%s did not consume the recorded trace (%s) beyond event %s: %s" % (spec, what, r["prefix"], r.get("event")))
    if truncated and not ctx.violations:
        raise vlib.MachineryError("the recorded trace was truncated (event flood) and its prefix shows no violation: cannot decide")
    with open(trace) as f:
        head = [next(f).strip() for _ in range(6)]
    if len(ctx.samples) < 4:
        ctx.samples.append(head)


def design(ctx, what):
    """Exhaustive TLC runs of the connection model Conn.tla (one connection on its loop, abstract kernel and peer,
    adversarial handler and user goroutines) in the three I/O modes; safety always, liveness too."""
    suffix = "" if ctx.thorough else "_quick"
    for m in ("LT", "ET", "ETchunk"):
        vlib.tlc_model_check(ctx, "Conn", "Conn_%s%s.cfg" % (m, suffix), timeout=2400, heap="20g")
    for m in (("LT", "ET", "ETchunk") if ctx.thorough else ("ETchunk",)):
        vlib.tlc_model_check(ctx, "Conn", "Conn_%s_live.cfg" % m, timeout=1800)


SYS_ASSUME = ["TLC 1.8.0", "events are ordered by one sequence number taken under the recorder's lock; senders log before the operation that publishes, receivers when they act",
              "peers are real sockets on loopback / unix sockets; the kernel's segmentation is whatever happened (lock-step peers fix it in LT mode)",
              "connection identity: the *conn object (kept alive by the recorder); peer identity: its own socket address"]


def addr_part(ctx):
    t = record(ctx, "sys-addr")
    validate(ctx, t, ["TrLife"], "address stability under churn")


def async_part(ctx):
    t = record(ctx, "sys-async")
    validate(ctx, t, ["TrLife"], "asynchronous requests exactly once")
