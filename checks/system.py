"""System-level conformance (channel B): real engines driven by scripted peers / handlers, recorded through the
handler, the peers and the verif hooks, validated by the trace specifications Tr*.tla."""
import os
import vlib

SPEC_PROPS = {
    "TrIn": "C01", "TrOut": "C02", "TrArm": "C02", "TrLife": "C04", "TrFd": "C07", "TrLB": "C15",
}


# rules of the trace specifications that describe documented behaviour no listed property states (the ticker's
# timing and seriality): a failure is reported as a NONCONFORMANCE line (informational), never as a violation
BEYOND_PROPERTIES = {"TicksOneAtATime", "TickerOneGoroutine", "TickNotBeforeDelay", "TickerRanAndEnded", "TickerKeepsTicking"}


def record(ctx, name, test="TestVerifSys", rounds=None, tags="verif", env=None, timeout=900):
    t = os.path.join(ctx.scratch, "%s.ndjson" % name)
    e = {"VERIF_TRACE": t, "VERIF_ROUNDS": rounds if rounds is not None else (4 if ctx.thorough else 1),
         "VERIF_SYS_SCRATCH": ctx.sub("sock." + name)}
    if env:
        e.update(env)
    rep = vlib.go_harness(ctx, ".", test, name=name, tags=tags, env=e, timeout=timeout, netns=True)
    vlib.absorb(ctx, rep, name)
    return t


def validate(ctx, trace, specs, what):
    """Run the given trace specifications over one recorded trace; property-check failures become violations."""
    if any(v["sig"].endswith("/crash") for v in ctx.violations):
        ctx.notes.append("the harness process crashed inside the code under test: its (incomplete) trace was not validated")
        return
    truncated, line = False, ""
    with open(trace) as f:
        for line in f:
            pass
        truncated = '"Truncated"' in line
    if not line:
        raise vlib.MachineryError("the harness recorded an empty trace (%s)" % what)
    for spec in specs:
        r = vlib.validate_trace(ctx, spec, spec + ".cfg", trace, name="%s-%s" % (spec, what), timeout=1500, heap="12g", linear=True)
        if r["viols"]:
            seen = set()
            for v in r["viols"]:
                if v["inv"] in seen:
                    continue
                seen.add(v["inv"])
                kept = keep_life(ctx, trace, v["at"], "%s.%s" % (spec, v["inv"]))
                if v["inv"] in BEYOND_PROPERTIES:
                    ctx.nonconf.append({"kind": "nonconformance", "sig": "%s/%s" % (spec, v["inv"]), "count": 1, "path": [kept],
                                        "detail": "%s: rule %s (documented behaviour outside the listed properties) fails at event %d of the recorded execution (%s): %s" % (spec, v["inv"], v["at"], what, v["info"])})
                    continue
                ctx.violations.append({"kind": "violation", "sig": "%s/%s" % (spec, v["inv"]), "count": 1, "path": [kept],
                                       "detail": "%s: check %s fails at event %d of the recorded execution (%s): %s" % (spec, v["inv"], v["at"], what, v["info"])})
        elif not r["accepted"]:
            raise vlib.MachineryError("%s did not consume the recorded trace (%s) beyond event %s: %s" % (spec, what, r["prefix"], r.get("event")))
    if truncated and not ctx.violations:
        raise vlib.MachineryError("the recorded trace was truncated (event flood) and its prefix shows no violation: cannot decide")
    with open(trace) as f:
        head = [next(f).strip() for _ in range(6)]
    if len(ctx.samples) < 4:
        ctx.samples.append(head)


def keep_life(ctx, trace, at, tag):
    """Keep the engine life that contains event number `at` of a recorded log (from its Reset to the next one, at
    most 60000 lines) under replays/<property>/ so that a reported failure can be studied and re-validated."""
    keep = os.path.join(vlib.VERIF, "replays", ctx.prop)
    os.makedirs(keep, exist_ok=True)
    dst = os.path.join(keep, "life.%s.seed%d.ndjson" % (tag.replace("/", "_"), ctx.seed))
    cur, hit = [], False
    with open(trace) as f:
        for i, line in enumerate(f, 1):
            if '"ev":"Reset"' in line:
                if hit:
                    break
                cur = []
            cur.append(line)
            if i == at:
                hit = True
    with open(dst, "w") as f:
        f.writelines(cur[:60000])
    return dst


def design(ctx, what):
    """Exhaustive TLC runs of the connection model Conn.tla (one connection on its loop, abstract kernel and peer,
    adversarial handler and user goroutines) in the three I/O modes; safety always, liveness too."""
    suffix = "" if ctx.thorough else "_quick"
    for m in ("LT", "ET", "ETchunk"):
        vlib.tlc_model_check(ctx, "Conn", "Conn_%s%s.cfg" % (m, suffix), timeout=2400, heap="20g")
    for m in (("LT", "ET", "ETchunk") if ctx.thorough else ("ETchunk",)):
        vlib.tlc_model_check(ctx, "Conn", "Conn_%s_live.cfg" % m, timeout=1800)


SYS_ASSUME = ["TLC 1.8.0", "events are ordered by one sequence number taken under the recorder's lock; senders log before the operation that publishes, receivers when they act",
              "peers are real sockets on loopback / unix sockets; the kernel's segmentation is whatever happened (lock-step peers fix it in LT mode)",
              "connection identity: the *conn object (kept alive by the recorder); peer identity: its own socket address"]


def addr_part(ctx):
    t = record(ctx, "sys-addr")
    validate(ctx, t, ["TrLife"], "address stability under churn")


def async_part(ctx):
    t = record(ctx, "sys-async")
    validate(ctx, t, ["TrLife", "TrOut"], "asynchronous requests exactly once, asynchronous writes in issue order")
    t = record(ctx, "client-async", test="TestVerifClient")
    validate(ctx, t, ["TrLife"], "a client's Dial / Enroll requests carried out exactly once")


# --------------------------------------------------------------------------- Engine.tla: design model + trace binding

ENGINE_INVS = "TypeOK OnShutdownOnce AllOpenedClosedBeforeReturn NothingRunsAfterReturn BootShutdownStartsNothing MainLast InShutdownMeansDone LeakOnlyBehindExit QueuedIsInQueue UnansweredOnlyBehindExit"


def engine_design(ctx):
    """Exhaustive TLC runs of the engine model (acceptors, hand-off queues, shutdown sources, engine.stop, ticker,
    registrations), safety and liveness, in reactor and reuse-port mode; plus the two configurations in which the
    strict readings fail (KF-1 / KF-2): the model must reproduce those findings."""
    suffix = "" if ctx.thorough else "_quick"
    for m in ("reactor", "reuse"):
        vlib.tlc_model_check(ctx, "Engine", "Engine_%s%s.cfg" % (m, suffix), timeout=2400, heap="12g")
    # Round-Robin acceptor: three connections over two loops, assigned cyclically (RRBalanced)
    vlib.tlc_model_check(ctx, "Engine", "Engine_rr.cfg", timeout=600)
    for kf, inv in (("kf1", "NoLeak"), ("kf2", "RegsAnswered")):
        res = vlib.tlc(ctx, "Engine", "Engine_%s.cfg" % kf, timeout=300, workers=4)
        if res["violated"] != inv:
            raise vlib.MachineryError("Engine_%s.cfg: the model no longer reproduces the known finding (expected a counterexample to %s, got %s)" % (kf, inv, res["violated"]))
        ctx.notes.append("Engine.tla reproduces the known finding behind %s (shortest history: %d states)" % (inv, len(__import__("re").findall(r"^State \d+:", res["out"], __import__("re").M))))


def engine_project(trace):
    """Split a recorded log into engine lives and keep the engine-level events (renamed, nothing computed)."""
    import json
    lives, cur = [], None
    acts = {0: "none", 1: "close", 2: "shutdown", "None": "none", "Close": "close", "Shutdown": "shutdown"}
    with open(trace) as f:
        for line in f:
            d = json.loads(line)
            ev = d["ev"]
            if ev == "Reset":
                cur = None
                if "reuseport" in d:
                    cur = {"cfg": d["cfg"], "loops": d["loops"], "reuseport": d["reuseport"], "ticker": d["ticker"], "events": [], "seq0": d["seq"],
                           "client": bool(d.get("client")),
                           # (Round-Robin: the acceptor of a server engine hands its connections out cyclically)
                           "lb": "rr" if (" lb=0 " in (" " + d["cfg"] + " ") and not d.get("client") and not d["reuseport"]) else "any"}
                    lives.append(cur)
                continue
            if cur is None:
                continue
            e = None
            site = d.get("site")
            if ev == "Gate" and site == "acc.accepted":
                e = {"ev": "Accept", "h": d["h"], "idx": d["idx"]}
            elif ev == "Gate" and site == "loop.polling-returned":
                e = {"ev": "PollingReturned", "idx": d["idx"]}
            elif ev == "Gate" and site == "eng.triggered":
                e = {"ev": "Triggered", "idx": d["idx"]}
            elif ev == "Hook" and site == "el.registered":
                e = {"ev": "Registered", "h": d["h"], "idx": d["b"], "k": d["a"]}
            elif ev == "Sys" and site == "cli.dup" and d["err"] == "nil" and cur["client"]:
                e = {"ev": "Dup", "idx": d["fd"]}
            elif ev == "Sys" and site == "ln.close" and not cur["client"]:
                e = {"ev": "LnClose"}
            elif ev == "Hook" and site == "loop.closed":
                e = {"ev": "LoopClosed", "idx": d["a"]}
            elif ev == "Hook" and site == "eng.stop":
                e = {"ev": "Stop", "k": d["a"]}
            elif ev == "OpenEnd":
                # OnOpen returning Close is followed by the connection's own Close event: the model closes there
                a = acts[d["action"]]
                e = {"ev": "OpenEnd", "h": d["h"], "action": "none" if a == "close" else a}
            elif ev == "OpenUnknown":
                e = {"ev": "OpenEnd", "h": d["h"], "action": "none"}
            elif ev == "TrafficEnd" and acts[d["action"]] == "shutdown":
                e = {"ev": "TrafficShutdown", "h": d["h"]}
            elif ev == "Close":
                a = acts[d["action"]]
                e = {"ev": "Close", "h": d["h"], "action": "none" if a == "close" else a}
            elif ev == "CloseUnknown":
                e = {"ev": "Close", "h": d["h"], "action": "none"}
            elif ev == "StopReq" and d.get("src") in ("Stop", "Engine.Stop", "Client.Stop"):
                e = {"ev": "StopReq"}
            elif ev == "OnShutdown":
                e = {"ev": "OnShutdown"}
            elif ev == "TickEnd" and acts.get(d.get("action", 0)) == "shutdown":
                e = {"ev": "TickShutdown"}
            elif ev == "RunRet":
                e = {"ev": "RunRet"}
            elif ev == "Truncated":
                cur["truncated"] = True
            if e is not None:
                for k, v in (("h", 0), ("idx", 0), ("action", "none"), ("k", 0)):
                    e.setdefault(k, v)
                e["seq"] = d["seq"]
                cur["events"].append(e)
    # a duplicated socket's loop is only logged when its registration runs: attach it to the Dup event (joined by the
    # descriptor number, which stays open in between) so that TLC need not branch over the loops
    for lv in lives:
        evs = lv["events"]
        for i, e in enumerate(evs):
            if e["ev"] == "Dup":
                e["k"] = -1
                for f in evs[i + 1:]:
                    if f["ev"] == "Registered" and f["k"] == e["idx"]:
                        e["k"] = f["idx"]
                        break
                    if f["ev"] == "Dup" and f["idx"] == e["idx"]:
                        break
    return lives


def engine_traces(ctx, trace, what):
    """Validate every engine life of a recorded log against Engine.tla (EngineTrace.tla), one TLC run per life
    (the model's constants are the life's configuration).  A life the model cannot explain is reported as a
    non-conformance (mechanism level): the property verdicts on the same log come from TrLife / TrFd."""
    import json
    from concurrent.futures import ThreadPoolExecutor
    lives = [lv for lv in engine_project(trace) if lv["events"] and not lv.get("truncated")]
    jobs = []
    for k, lv in enumerate(lives):
        d = ctx.sub("englife.%s.%d" % (what.replace(" ", "_").replace("/", "_")[:30], k))
        tf = os.path.join(d, "life.ndjson")
        with open(tf, "w") as f:
            for e in lv["events"]:
                f.write(json.dumps(e) + "\n")
        nconn = sum(1 for e in lv["events"] if e["ev"] == ("OpenEnd" if lv["reuseport"] else "Accept"))
        nreg = 0
        if lv["client"]:
            nconn, nreg = 0, max(1, sum(1 for e in lv["events"] if e["ev"] == "Dup"))
        cfg = os.path.join(ctx.scratch, "EngineTrace_%s_%d.cfg" % (what.replace(" ", "_").replace("/", "_")[:30], k))
        with open(cfg, "w") as f:
            f.write("INIT TInit\nNEXT TNext\nCONSTANTS NLoops = %d MaxConns = %d MaxRegs = %d ReusePort = %s Ticker = %s ClientMode = %s LB = \"%s\"\n"
                    "  Sources = {\"stop\", \"open\", \"traffic\", \"close\", \"tick\", \"boot\"}\n"
                    "INVARIANTS OnShutdownOnce AllOpenedClosedBeforeReturn NothingRunsAfterReturn InShutdownMeansDone QueuedIsInQueue ListenersOutliveLoops\n"
                    "POSTCONDITION Accepted\nCHECK_DEADLOCK FALSE\n"
                    % (lv["loops"], nconn if lv["client"] else max(nconn, 1), nreg, "TRUE" if lv["reuseport"] else "FALSE", "TRUE" if lv["ticker"] else "FALSE",
                       "TRUE" if lv["client"] else "FALSE", lv.get("lb", "any")))
        jobs.append((k, lv, tf, cfg))

    def one(job):
        k, lv, tf, cfg = job
        try:
            return job, vlib.tlc_trace_file(ctx, "EngineTrace", cfg, tf, name="EngineTrace-%s-%d" % (what.replace(" ", "_")[:20], k), timeout=150)
        except vlib.MachineryError as e:
            if "timed out" in str(e):
                return job, {"skipped": True}
            raise

    with ThreadPoolExecutor(max_workers=8) as ex:
        results = list(ex.map(one, jobs))
    ok = 0
    for (k, lv, tf, cfg), r in results:
        n = len(lv["events"])
        if r.get("skipped"):
            ctx.notes.append("EngineTrace: the search for an explanation of engine life %d of %s (%d events) was cut off after 150 s: not judged" % (k, what, n))
            continue
        if r["accepted"]:
            ok += 1
            ctx.traces += 1
            ctx.trace_events += n
            ctx.states += r.get("distinct", 0)
            ctx.transitions += r.get("generated", 0)
        elif r.get("prefix") is not None or r.get("violated"):
            at = r.get("prefix")
            evd = lv["events"][at - 1] if at and at <= n else None
            keep = os.path.join(vlib.VERIF, "replays", ctx.prop)
            os.makedirs(keep, exist_ok=True)
            kept = os.path.join(keep, "englife.%s.%d.seed%d.ndjson" % (what.replace(" ", "_")[:20], k, ctx.seed))
            with open(kept, "w") as f:
                f.write(json.dumps({"ev": "Config", "cfg": lv["cfg"], "loops": lv["loops"], "reuseport": lv["reuseport"], "ticker": lv["ticker"]}) + "\n")
                f.write(open(tf).read())
            ctx.nonconf.append({"kind": "nonconformance", "sig": "EngineTrace/%s" % (evd["ev"] if evd else r.get("violated")), "count": 1, "path": [kept],
                                "detail": "Engine.tla cannot explain engine life %d (%s) of %s at its event %s (log seq %s): %s%s" % (
                                    k, lv["cfg"], what, at, evd and evd.get("seq"), json.dumps(evd), (" invariant " + r["violated"]) if r.get("violated") else "")})
        else:
            raise vlib.MachineryError("EngineTrace did not complete on life %d of %s:\n%s" % (k, what, "\n".join(r["out"].splitlines()[-30:])))
    ctx.log("EngineTrace %s: %d of %d engine lives explained by Engine.tla" % (what, ok, len(jobs)))
    return ok, len(jobs)
