"""C03 asynchronous requests run exactly once / no lost wake-up — specs/Poller.tla (exhaustive + liveness),
gated schedules of the real netpoll.Poller replayed from the TLC state graph (channel C), both epoll variants."""
import vlib

SCRIPTS = {"Poller_replayQ.cfg": '<<<<"H","H">>,<<"L">>>>', "Poller_replay2.cfg": '<<<<"H","L">>,<<"L","H">>>>',
           "Poller_replaySat.cfg": '<<<<"H","H">>,<<"L">>>>', "Poller_replayS.cfg": '<<<<"H","LS","L">>,<<"H">>>>'}


def replay(ctx, cfg, maxe, props=None):
    """Every labelled edge of the TLC graph of one Poller configuration executed as a gated schedule of the real poller."""
    g = vlib.tlc_model_check(ctx, "MCPoller", cfg, dump="g", timeout=900)
    for tags in ("verif", "verif poll_opt"):
        rep = vlib.go_harness(ctx, "pkg/netpoll", "TestVerifPollerCover", name="cover-%s-%s" % (cfg[7:-4], tags.replace(" ", "+")), tags=tags,
                              env={"VERIF_GRAPH": g["dot"], "VERIF_SCRIPT": SCRIPTS[cfg], "VERIF_THRESH": 1, "VERIF_MAX_EDGES": maxe,
                                   "VERIF_SAT": 1 if "Sat" in cfg else 0}, timeout=1500)
        vlib.absorb(ctx, rep, "cover")


def run(ctx):
    vlib.tlc_model_check(ctx, "MCPoller", "Poller_quick.cfg", timeout=600)
    vlib.tlc_model_check(ctx, "MCPoller", "Poller_mid.cfg", timeout=900)
    if ctx.thorough:
        vlib.tlc_model_check(ctx, "MCPoller", "Poller_thorough.cfg", timeout=2400, heap="24g")
    # the counter-only abstraction of the protocol: inductive invariant with Apalache (any number of queued tasks), whose
    # two conjuncts are also invariants of Poller.tla above (FlagMeansWake, ClearMeansSeen); TLC cross-check for q <= 4
    vlib.tlc_model_check(ctx, "Wakeup", "Wakeup.cfg", timeout=300)
    vlib.apalache_inductive(ctx, "Wakeup", cinit="CInit", init="Init", ind_init="IndInit", ind_inv="IndInv", goal="NoLostWakeup")
    vlib.tlaps_prove(ctx, "WakeupProof", deps=("Wakeup",))
    # (Sat: the eventfd's counter starts saturated, the first write fails with EAGAIN and is retried after a read;
    #  S: a low-priority task answers ErrEngineShutdown with another one queued behind it)
    graphs = [("Poller_replayQ.cfg", 0), ("Poller_replay2.cfg", 0 if ctx.thorough else 1500),
              ("Poller_replaySat.cfg", 0), ("Poller_replayS.cfg", 0)]
    for cfg, maxe in graphs:
        replay(ctx, cfg, maxe)
    # mechanism-level non-conformance means the guarantee obtained by model checking no longer transfers to this
    # tree: escalate with 20x more gated schedules of the real code, looking for a behavioural violation
    budget = (2000 if ctx.thorough else 150) * (20 if ctx.nonconf else 1)
    if ctx.nonconf:
        ctx.notes.append("non-conformance found by the graph replay: escalated to %d random schedules per variant" % budget)
    for tags in ("verif", "verif poll_opt"):
        rep = vlib.go_harness(ctx, "pkg/netpoll", "TestVerifPollerRandom", name="random-" + tags.replace(" ", "+"), tags=tags,
                              env={"VERIF_SCHEDULES": budget}, timeout=2400)
        vlib.absorb(ctx, rep, "random")
    # systematic schedules with a bounded number of context switches (independent of the model's step structure)
    for tags in ("verif", "verif poll_opt"):
        rep = vlib.go_harness(ctx, "pkg/netpoll", "TestVerifPollerPreempt", name="preempt-" + tags.replace(" ", "+"), tags=tags, timeout=1800)
        vlib.absorb(ctx, rep, "preempt")
    try:
        import checks.system as system
        system.async_part(ctx)
    except ImportError:
        ctx.notes.append("system-level part (AsyncWrite / Wake / Close / Execute / Register effects exactly once) not built yet")
    ctx.assumptions += ["TLC 1.8.0", "sequentially consistent atomics", "an edge-triggered eventfd raises one readiness edge per write (checked against the kernel with poll(2) at every step)",
                        "the queues are taken at the lagging-length abstraction proved of MSQueue.tla (C13)",
                        "the load of the second counter and the CAS in the loop's re-check are one step (no gate can be placed between them without rewriting the line)",
                        "kqueue pollers cannot be built here"]
    return vlib.finish(ctx, "model_checking",
                       "exhaustive TLC of the wake-up protocol (all interleavings of producers' Trigger steps with the loop's chores, safety + every accepted task eventually runs under weak fairness); one replay case = one labelled edge of the Poller graph executed as a schedule of the real Poller (both epoll variants) with flag, queues, counters, executed tasks and kernel readiness compared after every step, then run to quiescence and judged by the exactly-once / lost-wake-up state witness; plus seeded PCT schedules of larger scripts")
