"""C12 pooled memory is exclusively owned — specs/Pools.tla (ledger model), trace validation of real Get/Put histories."""
import os
import vlib


def reject(ctx, what, r):
    if r["violated"]:
        ctx.violations.append({"kind": "violation", "sig": "pools/%s/invariant/%s" % (what, r["violated"]), "count": 1,
                               "detail": "invariant %s of Pools.tla is false after event %s of the recorded trace" % (r["violated"], r["prefix"]),
                               "path": [l for l in r["out"].splitlines() if l.startswith(("/\\ ret", "State "))][-6:]})
    elif not r["accepted"]:
        ctx.violations.append({"kind": "violation", "sig": "pools/%s/rejected" % what, "count": 1,
                               "detail": "event %s of the recorded trace is not enabled in Pools.tla (memory handed out that is not a pooled region of the class, a non-empty or shared ring, or a damaged canary): %s" % (r["prefix"], r.get("event")),
                               "path": []})


def run(ctx):
    vlib.tlc_model_check(ctx, "Pools", "Pools_thorough.cfg" if ctx.thorough else "Pools_small.cfg", timeout=1200)
    t1 = os.path.join(ctx.scratch, "bytepool.ndjson")
    rep = vlib.go_harness(ctx, "pkg/pool/byteslice", "TestVerifBytePoolTrace", name="bytepool",
                          env={"VERIF_TRACE": t1, "VERIF_HISTORIES": 200 if ctx.thorough else 40}, timeout=600)
    vlib.absorb(ctx, rep, "bytepool")
    reject(ctx, "bytepool", vlib.validate_trace(ctx, "PoolsTrace", "PoolsTrace.cfg", t1, name="trace-bytepool"))
    t2 = os.path.join(ctx.scratch, "ringpool.ndjson")
    rep = vlib.go_harness(ctx, "pkg/pool/ringbuffer", "TestVerifRingPoolTrace", name="ringpool",
                          env={"VERIF_TRACE": t2, "VERIF_HISTORIES": 120 if ctx.thorough else 30}, timeout=600)
    vlib.absorb(ctx, rep, "ringpool")
    reject(ctx, "ringpool", vlib.validate_trace(ctx, "PoolsTrace", "PoolsTrace.cfg", t2, name="trace-ringpool"))
    # the consequence the property names: data held in a connection's buffers (and handed to the application within a
    # callback) is never overwritten through other buffers -- real engines, content checked at every reader operation
    # and again at the end of the callback (TrIn), outbound content at the peers (TrOut)
    from checks import system
    ts = system.record(ctx, "sys")
    system.validate(ctx, ts, ["TrIn", "TrOut"], "pooled memory under real connections")
    # ... and of strings cut out of pooled memory: the zone of a converted IPv6 address (a name or, when the index names no
    # interface, its decimal rendering) must stay what it was while later conversions and other pool users go on
    from checks import c17
    c17.part_a(ctx)
    ctx.samples.append(open(t1).read().splitlines()[1:6])
    ctx.assumptions += ["TLC 1.8.0", "the harness keeps every backing array alive so addresses identify arrays", "sizes up to 2^20 (class arithmetic up to 2^31 is C20's table)",
                        "log order: Get is logged after it returns, Put before it is called, so logged ownership intervals are subsets of the real ones"]
    return vlib.finish(ctx, "model_checking",
                       "exhaustive TLC run of the ledger model (all Get/Put/Drop interleavings within the bounds) plus trace validation: one case = one Get/Put event of a recorded history of the real pools (single- and multi-goroutine, across GCs); distinct = distinct operation kinds x histories")
