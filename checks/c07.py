"""C07 descriptor ownership — system traces validated by TrIn.tla (+ design model Conn.tla when present)."""
import vlib
from checks import system


def run(ctx):
    system.design(ctx, "fd")
    for tags in (["verif"] + (["verif poll_opt gc_opt"] if ctx.thorough else [])):
        t = system.record(ctx, "sys-" + tags.replace(" ", "+"), tags=tags)
        system.validate(ctx, t, ["TrFd"], "descriptor ledger, " + tags)
    t = system.record(ctx, "shutdown", test="TestVerifShutdown")
    system.validate(ctx, t, ["TrFd"], "descriptor ledger across shutdown races")
    if ctx.thorough:
        # the engine model reproduces KF-1 (a socket whose registration is queued behind the exit signal) and shows
        # that it is the only way an accepted socket is left open at return (LeakOnlyBehindExit)
        system.engine_design(ctx)
    system.engine_traces(ctx, t, "shutdown")
    # a connection arriving while the engine is stopping, the listener's loop busy and the listener duplicated by the user
    # ... and two connections reported by the same wait, the first one's callback closing the second (stale event)
    for tags in (["verif"] + (["verif poll_opt"] if ctx.thorough else [])):
        t = system.record(ctx, "lateaccept-" + tags.replace(" ", "+"), test="TestVerifLateAccept", tags=tags, rounds=3 if ctx.thorough else 1)
        system.validate(ctx, t, ["TrFd", "TrLife"], "late connection during shutdown with DupListener held; close from another connection's callback, " + tags)
    t = system.record(ctx, "rotate-fail", test="TestVerifRotateFail")
    system.validate(ctx, t, ["TrFd"], "Rotate failing on a later address")
    if vlib.have_strace():
        # engine start-up failing half way (epoll_create1 / eventfd2 failed by strace): everything created so far is closed
        t = system.record(ctx, "start-faults", test="TestVerifStartFaults")
        system.validate(ctx, t, ["TrFd"], "engine start-up failing half way")
        t = system.record(ctx, "register-faults", test="TestVerifRegisterFaults")
        system.validate(ctx, t, ["TrFd"], "Register / Enroll / Dial with a failing dup")
    t = system.record(ctx, "client", test="TestVerifClient")
    system.validate(ctx, t, ["TrFd"], "client engine (Dial / Enroll), descriptor ledger")
    ctx.assumptions += system.SYS_ASSUME
    return vlib.finish(ctx, "model_checking",
                       "one case = one engine life (6 configurations {LT, ET, ET+chunk} x {tcp, unix} per round, random loops / reuse-port / buffer sizes) with 6-11 scripted connections each, plus 6 client-engine lives (gnet.Client dialling / enrolling connections to listening peers): segmentations (1 byte, exactly the read buffer, bursts, data+FIN), consumption policies (Read/Next/Peek+Discard/Discard/WriteTo, lazy, peek-only); every event validated by TrFd.tla (use only owned descriptors, close owned once, fresh descriptors unowned, foreign descriptors untouched, nothing owned after Run returns)")
