"""C15 load balancing — specs/LB.tla exhaustive + trace validation of the real balancers' decisions."""
import os
import vlib


def run(ctx):
    vlib.tlc_model_check(ctx, "LB", "LB_small.cfg", timeout=600)
    for tags in (["verif"] + (["verif gc_opt"] if ctx.thorough else [])):
        t = os.path.join(ctx.scratch, "lb.%s.ndjson" % tags.replace(" ", "_"))
        rep = vlib.go_harness(ctx, ".", "TestVerifLBTrace", name="lb-" + tags.replace(" ", "+"), tags=tags,
                              env={"VERIF_TRACE": t, "VERIF_HISTORIES": 200 if ctx.thorough else 40}, timeout=600)
        vlib.absorb(ctx, rep, "lb")
        r = vlib.validate_trace(ctx, "LBTrace", "LBTrace.cfg", t, name="trace-lb-" + tags.replace(" ", "+"), timeout=900)
        if r["violated"]:
            ctx.violations.append({"kind": "violation", "sig": "lb/invariant/%s" % r["violated"], "count": 1, "path": [],
                                   "detail": "invariant %s of LB.tla fails on the recorded decisions after event %s" % (r["violated"], r["prefix"])})
        elif not r["accepted"]:
            ctx.violations.append({"kind": "violation", "sig": "lb/rejected", "count": 1, "path": [],
                                   "detail": "decision %s of the recorded trace is not allowed by LB.tla (round-robin out of turn, a loop that is not least loaded, or a different loop for an address seen before): %s" % (r["prefix"], r.get("event"))})
        ctx.samples.append(open(t).read().splitlines()[:4])
    # the other way into the balancer: Engine.Register on real engines (Source-Addr-Hash; one remote address, contexts carrying
    # a connection, an address, both, or a connection and some other address)
    t = os.path.join(ctx.scratch, "lb.register.ndjson")
    rep = vlib.go_harness(ctx, ".", "TestVerifRegisterLB", name="lb-register", env={"VERIF_TRACE": t}, timeout=300, netns=True)
    vlib.absorb(ctx, rep, "lb-register")
    r = vlib.validate_trace(ctx, "LBTrace", "LBTrace.cfg", t, name="trace-lb-register", timeout=300)
    if r["violated"] or not r["accepted"]:
        ctx.violations.append({"kind": "violation", "sig": "lb/register/rejected", "count": 1, "path": [],
                               "detail": "registration %s of the recorded trace is not allowed by LB.tla (a different loop for a remote address seen before): %s" % (r["prefix"], r.get("event"))})
    # the acceptor of real engines: reactor-mode lives balancing Round-Robin (half of them over several listeners) must hand
    # their connections out cyclically (TrLB.tla; Engine.tla with LB = "rr": RRBalanced), and every connection is opened on
    # the loop it was handed to
    from checks import system
    vlib.tlc_model_check(ctx, "Engine", "Engine_rr.cfg", timeout=600)
    t = system.record(ctx, "sys-rr", env={"VERIF_FORCE_LB": "rr"})
    system.validate(ctx, t, ["TrLB"], "acceptor decisions of Round-Robin engines")
    system.engine_traces(ctx, t, "round-robin engines")
    ctx.assumptions += ["the hash is treated as an unknown function: functional and in range is all that is required",
                        "least-connections is decided at quiescent points (counts do not change during a decision)",
                        "that callbacks run on the assigned loop is checked by the system-level traces (C05)"]
    return vlib.finish(ctx, "model_checking",
                       "TLC exhaustive on LB.tla (<= 3 loops, <= 6 accepts, all policies) and trace validation: one case = one decision of a real balancer in a seeded history (1..256 loops, mixed address kinds); distinct = distinct (policy, loops, step class)")
