"""C01 inbound stream integrity — system traces validated by TrIn.tla (+ design model Conn.tla when present)."""
import vlib
from checks import system


def run(ctx):
    system.design(ctx, "in")
    for tags in (["verif"] + (["verif poll_opt gc_opt"] if ctx.thorough else [])):
        t = system.record(ctx, "sys-" + tags.replace(" ", "+"), tags=tags)
        system.validate(ctx, t, ["TrIn", "TrLife"], "inbound streams, " + tags)
    t = system.record(ctx, "client", test="TestVerifClient")
    system.validate(ctx, t, ["TrIn"], "client engine (Dial / Enroll), inbound streams")
    ctx.assumptions += system.SYS_ASSUME
    return vlib.finish(ctx, "model_checking",
                       "one case = one engine life (6 configurations {LT, ET, ET+chunk} x {tcp, unix} per round, random loops / reuse-port / buffer sizes) with 6-11 scripted connections each, plus 6 client-engine lives (gnet.Client dialling / enrolling connections to listening peers): segmentations (1 byte, exactly the read buffer, bursts, data+FIN), consumption policies (Read/Next/Peek+Discard/Discard/WriteTo, lazy, peek-only); every event validated by TrIn.tla (prefix, content, accounting at every reader operation, everything offered before an EOF close)")
