"""C02 outbound stream integrity — system traces validated by TrIn.tla (+ design model Conn.tla when present)."""
import vlib
from checks import system


def run(ctx):
    system.design(ctx, "out")
    for tags in (["verif"] + (["verif poll_opt gc_opt"] if ctx.thorough else [])):
        t = system.record(ctx, "sys-" + tags.replace(" ", "+"), tags=tags)
        system.validate(ctx, t, ["TrOut", "TrArm", "TrLife"], "outbound streams, " + tags)
    t = system.record(ctx, "client", test="TestVerifClient")
    system.validate(ctx, t, ["TrOut", "TrArm"], "client engine (Dial / Enroll), outbound streams")
    ctx.assumptions += system.SYS_ASSUME
    return vlib.finish(ctx, "model_checking",
                       "one case = one engine life (6 configurations {LT, ET, ET+chunk} x {tcp, unix} per round, random loops / reuse-port / buffer sizes) with 6-11 scripted connections each, plus 6 client-engine lives (gnet.Client dialling / enrolling connections to listening peers): segmentations (1 byte, exactly the read buffer, bursts, data+FIN), consumption policies (Read/Next/Peek+Discard/Discard/WriteTo, lazy, peek-only); every event validated by TrOut.tla (per-writer order, content, only issued frames, OutboundBuffered accounting against the bytes handed to the kernel, completeness at drain, stranded-output witness) and TrArm.tla (level-triggered mode: a callback that returns with a backlog leaves the connection registered for write readiness)")
