"""C14 connection registry — specs/ConnMatrix.tla replayed on the real registry of both builds."""
import vlib


def run(ctx):
    res = vlib.tlc_model_check(ctx, "ConnMatrix", "ConnMatrix_thorough.cfg" if ctx.thorough else "ConnMatrix_small.cfg", dump="g", timeout=1200)
    for tags, name in (("verif gc_opt", "matrix"), ("verif", "map")):
        rep = vlib.go_harness(ctx, ".", "TestVerifRegistryCover", name="cover-" + name, tags=tags,
                              env={"VERIF_GRAPH": res["dot"]}, timeout=900)
        vlib.absorb(ctx, rep, "cover-" + name)
    # the same edges with the real matrix pre-filled so that they straddle the 65536-entry row boundary
    for prefill in (65534, 65536 + 3, 65536 + 65535):
        rep = vlib.go_harness(ctx, ".", "TestVerifRegistryCover", name="cover-matrix-prefill%d" % prefill, tags="verif gc_opt",
                              env={"VERIF_GRAPH": res["dot"], "VERIF_PREFILL": prefill,
                                   "VERIF_MAX_EDGES": 1200 if ctx.thorough else 400}, timeout=1200)
        vlib.absorb(ctx, rep, "prefill%d" % prefill)
    # the registry as the event loop uses it: registrations (also ones the poller refuses), closes, the shutdown pattern
    for tags, name in (("verif gc_opt", "matrix"), ("verif", "map")):
        rep = vlib.go_harness(ctx, ".", "TestVerifRegistryInLoop", name="inloop-" + name, tags=tags, timeout=300)
        vlib.absorb(ctx, rep, "inloop-" + name)
    ctx.assumptions += ["TLC 1.8.0", "model dimensions (2x3 / 3x3) stand for 256x65536; the real row boundary is reached by pre-filling",
                        "iteration either visits only or removes every visited entry (the two patterns the code base uses)"]
    return vlib.finish(ctx, "model_checking",
                       "one case = one labelled edge (table layout, operation) of the TLC state graph of ConnMatrix.tla replayed on the real registry (gc_opt matrix and default map); distinct = distinct (source state, label) per build / prefill variant")
