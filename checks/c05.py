"""C05 event-loop confinement and freedom from data races.
Confinement: invariants of TrLife.tla on recorded executions (all callbacks of a loop on one goroutine, a connection
never changes loops, asynchronous callbacks on the owning loop).  Race freedom cannot be decided by a model that only
sees hooked events; adjunct oracle: the same scenarios plus an API hammer compiled with the Go race detector, recorder off."""
import re
import vlib
from checks import system


def races(ctx, out, what):
    n = 0
    for m in re.finditer(r"WARNING: DATA RACE\n(.*?)\n==================", out, re.S):
        n += 1
        body = m.group(1)
        # the two accesses: "Read/Write at ... by goroutine N:" and "Previous read/write at ... by goroutine M:"
        tops = []
        for part in re.split(r"\n\n", body)[:2]:
            fm = re.search(r"\n\s+(\S+)\(\)\n\s+(\S+\.go):(\d+)", "\n" + part)
            if fm:
                tops.append((fm.group(1), fm.group(2), fm.group(3)))
        gnet = [t for t in tops if "/zz_verif_" not in t[1] and "/internal/vsup/" not in t[1] and "_test.go" not in t[1] and "/usr/lib/go" not in t[1]]
        if not gnet:
            raise vlib.MachineryError("the race detector reports a race inside the harness itself:\n" + body[:1500])
        sig = "race/" + "+".join(sorted({"%s:%s" % (t[1].split("/")[-1], t[0].split(".")[-1]) for t in gnet}))
        ctx.violations.append({"kind": "violation", "sig": sig, "count": 1, "path": [],
                               "detail": "data race reported by the Go race detector (%s): %s" % (what, " | ".join("%s %s:%s" % t for t in tops))})
    return n


def run(ctx):
    t = system.record(ctx, "sys")
    system.validate(ctx, t, ["TrLife"], "confinement")
    for tags in (["verif"] + (["verif poll_opt gc_opt"] if ctx.thorough else [])):
        rep = vlib.go_harness(ctx, ".", "TestVerifRace", name="race-" + tags.replace(" ", "+"), tags=tags, race=True, timeout=1800, netns=True,
                              allow_fail=True, env={"VERIF_TRACE": ctx.scratch + "/race.ndjson", "VERIF_ROUNDS": 3 if ctx.thorough else 1,
                                                    "VERIF_SYS_SCRATCH": ctx.sub("sock.race")})
        vlib.absorb(ctx, rep, "race")
        n = races(ctx, rep["stdout"], tags)
        ctx.notes.append("race detector run (%s): %d reports" % (tags, n))
        if n == 0 and "FAIL" in rep["stdout"].splitlines()[-1:]:
            raise vlib.MachineryError("race run failed without a race report:\n" + rep["stdout"][-1500:])
    # the registration entry points and the counters, from user goroutines and from callbacks of a starting engine
    for tags in (["verif", "verif gc_opt"]):
        rep = vlib.go_harness(ctx, ".", "TestVerifRaceRegister", name="race-register-" + tags.replace(" ", "+"), tags=tags, race=True, timeout=900, netns=True, allow_fail=True)
        vlib.absorb(ctx, rep, "race-register")
        n = races(ctx, rep["stdout"], "registration entry points, " + tags)
        ctx.notes.append("race detector run (registration entry points, %s): %d reports" % (tags, n))
        if n == 0 and "FAIL" in rep["stdout"].splitlines()[-1:]:
            raise vlib.MachineryError("race run failed without a race report:\n" + rep["stdout"][-1500:])
    # the pooled ring buffers are shared by all loops: the pool's self-calibration under the race detector
    rep = vlib.go_harness(ctx, "pkg/pool/ringbuffer", "TestVerifRingPoolRace", name="race-ringpool", race=True, timeout=900, allow_fail=True,
                          env={"VERIF_POOL_ROUNDS": 60000 if ctx.thorough else 30000})
    vlib.absorb(ctx, rep, "race-ringpool")
    n = races(ctx, rep["stdout"], "ring-buffer pool")
    ctx.notes.append("race detector run (ring-buffer pool): %d reports" % n)
    ctx.assumptions += system.SYS_ASSUME + ["race freedom: adjunct oracle (Go race detector on the schedules the harness provokes); the recorder is off in those runs because its lock would order all hooked goroutines",
                                            "Engine.Register with the RoundRobin balancer is documented as racy and is not exercised"]
    return vlib.finish(ctx, "model_checking",
                       "confinement: every callback event of the recorded executions validated by TrLife.tla (LoopConfinement, ConnNeverChangesLoop, CallbackOnOwningLoop); race freedom: the scenarios and an API hammer (SafeContext/SetSafeContext, Fd, Dup, socket options, CountConnections, Execute, Wake, Engine.Dup) under the race detector with a plain per-loop word written in every callback")
