"""C10 elastic.RingBuffer / elastic.Buffer — specs/Elastic.tla (composition of RingOps and ListOps)."""
import vlib


def run(ctx):
    small = vlib.tlc_model_check(ctx, "MCElastic", "Elastic_small.cfg" if ctx.thorough else "Elastic_quick.cfg", dump="g", timeout=1500)
    real = vlib.tlc_model_check(ctx, "MCElastic", "Elastic_real4.cfg" if ctx.thorough else "Elastic_real.cfg", dump="g", timeout=1800)
    rep = vlib.go_harness(ctx, "pkg/buffer/elastic", "TestVerifElasticCover", name="cover-small",
                          env={"VERIF_GRAPH": small["dot"], "VERIF_SCALE": 256}, timeout=1500)
    vlib.absorb(ctx, rep, "cover-small")
    rep = vlib.go_harness(ctx, "pkg/buffer/elastic", "TestVerifElasticCover", name="cover-real",
                          env={"VERIF_GRAPH": real["dot"], "VERIF_SCALE": 1}, timeout=900)
    vlib.absorb(ctx, rep, "cover-real")
    # the elastic ring buffer on its own (a connection's inbound leftovers live in one): the graph of Ring.tla, the model of the
    # ring it wraps, replayed on a real elastic.RingBuffer with the content-level oracle
    ring = vlib.tlc_model_check(ctx, "MCRing", "Ring_small.cfg" if ctx.thorough else "Ring_quick.cfg", dump="g", timeout=900)
    rep = vlib.go_harness(ctx, "pkg/buffer/elastic", "TestVerifElasticRingCover", name="ring-cover",
                          env={"VERIF_GRAPH": ring["dot"], "VERIF_SCALE": 256}, timeout=900)
    vlib.absorb(ctx, rep, "ring-cover")
    ctx.assumptions += ["TLC 1.8.0", "scripted io.Reader/io.Writer alphabet", "the ring-buffer pool is primed so that lazy allocation returns the capacity chosen by the model (checked, mismatch = non-conformance)",
                        ]
    return vlib.finish(ctx, "model_checking",
                       "one case = one labelled edge (ring representation x list segments x static limit, operation, arguments/script, pool capacity) of the TLC state graph of Elastic.tla replayed on a real elastic.Buffer; distinct = distinct (source state, label)")
