"""C08 UDP datagram fidelity — recorded executions of a UDP engine validated by TrUdp.tla."""
import vlib
from checks import system


def run(ctx):
    for tags in (["verif", "verif poll_opt"] if ctx.thorough else ["verif"]):
        t = system.record(ctx, "udp-" + tags.replace(" ", "+"), test="TestVerifUDP", tags=tags, rounds=4 if ctx.thorough else 1)
        system.validate(ctx, t, ["TrUdp"], "datagrams, " + tags)
    if not ctx.thorough:
        t = system.record(ctx, "udp-poll_opt", test="TestVerifUDP", tags="verif poll_opt", rounds=1)
        system.validate(ctx, t, ["TrUdp"], "datagrams, poll_opt")
    ctx.assumptions += ["TLC 1.8.0", "loopback UDP does not drop while at most 4 datagrams per sender are in flight (at-least-once is only required at quiescence under this assumption; at-most-once always)",
                        "payloads up to the read-buffer size (64 KiB default); datagrams too short to carry the (sender, seq) header are identified by send order"]
    return vlib.finish(ctx, "model_checking",
                       "one case = one UDP engine life ({udp, udp4, udp6} x {127.0.0.1, ::1} x {1, 3 loops}, plus two lives with a 2 KiB / 4 KiB read buffer whose datagrams go up to exactly that size) with 2-4 senders, 8-19 datagrams each of sizes 0..65507, handler consuming none / part / all and answering with Write (also an empty one), and / or SendTo(another sender, also through the address object RemoteAddr handed out with its port rewritten); every event validated by TrUdp.tla (one event per datagram, intact boundaries, no carry-over, RemoteAddr = sender, each reply once, intact, at the right socket)")
