"""C19 control API state machine — specs/Control.tla, transition-cover replay on real engines; shutdown races by TrLife."""
import vlib
from checks import system


def run(ctx):
    g = vlib.tlc_model_check(ctx, "Control", "Control.cfg", dump="g", timeout=300)
    rep = vlib.go_harness(ctx, ".", "TestVerifControlCover", name="control-cover", env={"VERIF_GRAPH": g["dot"], "VERIF_SYS_SCRATCH": ctx.sub("sock")},
                          timeout=900, netns=True)
    vlib.absorb(ctx, rep, "control-cover")
    t = system.record(ctx, "shutdown", test="TestVerifShutdown")
    system.validate(ctx, t, ["TrLife"], "Stop and Register racing real shutdowns")
    if vlib.have_strace():
        # an engine that ended by itself (accept failing for good) must report the shutdown through its handle as well
        tf = system.record(ctx, "accept-fatal", test="TestVerifFaults", env={"VERIF_FAULT_SET": "fatal"})
        system.validate(ctx, tf, ["TrLife"], "engine ended by a fatal accept error")
        # the duplication of the descriptor inside Register / Enroll / Dial failing (fcntl EMFILE): still one result per call,
        # an error or a usable connection
        tr = system.record(ctx, "register-faults", test="TestVerifRegisterFaults")
        system.validate(ctx, tr, ["TrLife", "TrFd"], "Register / Enroll / Dial with a failing dup")
    # the engine model: inShutdown (what Stop polls) is only set after every loop has exited, every connection was
    # closed and the listeners are gone; the recorded shutdowns must be behaviours of that model
    system.engine_design(ctx)
    system.engine_traces(ctx, t, "shutdown")
    ctx.assumptions += ["TLC 1.8.0", "the interval at which Engine.Stop polls the terminal flag (package variable shutdownPollInterval) is shortened to 10 ms for the replay",
                        "calls racing a shutdown in progress may observe either side"]
    return vlib.finish(ctx, "model_checking",
                       "one case = one labelled edge of the TLC state graph of Control.tla (call sequences up to length 4 over never-started / running / stopping / stopped engines) replayed on a real engine; Stop(nil) is additionally required to come after every opened connection was closed (TrLife on recorded shutdowns)")
