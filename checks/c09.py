"""C09 ring.Buffer is an unbounded FIFO byte queue — specs/Ring.tla, channel A (transition-cover replay)
and channel B (trace validation of recorded histories at real sizes)."""
import vlib


def run(ctx):
    # 1. exhaustive model check of the representation-level spec (all reachable (size,r,w,isEmpty)),
    #    dumping the labelled state graph
    small = vlib.tlc_model_check(ctx, "MCRing", "Ring_small.cfg" if ctx.thorough else "Ring_quick.cfg", dump="g", timeout=900)
    real = vlib.tlc_model_check(ctx, "MCRing", "Ring_real5.cfg" if ctx.thorough else "Ring_real.cfg", dump="g", timeout=1800)
    # 2. replay every labelled edge on the real ring.Buffer
    rep = vlib.go_harness(ctx, "pkg/buffer/ring", "TestVerifRingCover", name="cover-small",
                          env={"VERIF_GRAPH": small["dot"], "VERIF_SCALE": 256}, timeout=900)
    vlib.absorb(ctx, rep, "cover-small")
    rep = vlib.go_harness(ctx, "pkg/buffer/ring", "TestVerifRingCover", name="cover-real",
                          env={"VERIF_GRAPH": real["dot"], "VERIF_SCALE": 1}, timeout=2400)
    vlib.absorb(ctx, rep, "cover-real")
    ctx.assumptions += ["TLC 1.8.0", "io.Reader/io.Writer behaviours are those of the scripted reader/writer alphabet (zero/one/full x nil/EOF/error)",
                        "exhaustive configuration explores sizes in units of 256 bytes up to 6400 bytes; byte-granular boundary sizes by the real-constant configuration to depth 3 (quick) / 5 (thorough)"]
    return vlib.finish(ctx, "model_checking",
                       "one case = one labelled edge (state, operation, arguments/script) of the TLC state graph of Ring.tla, replayed on a real ring.Buffer after the BFS path to its source state; distinct = distinct (source state, label) pairs")
