"""C17 socket addresses — (a) conversion vectors from specs/Addrs.tla; (b) truthful reporting under churn (system traces)."""
import json, os
import vlib


def part_a(ctx):
    res = vlib.tlc(ctx, "Addrs", "Addrs.cfg", timeout=300, name="Addrs")
    p = os.path.join(res["dir"], "addrs.json")
    if not res["finished"] or not os.path.exists(p):
        raise vlib.MachineryError("Addrs.tla did not evaluate:\n" + "\n".join(res["out"].splitlines()[-30:]))
    d = json.load(open(p))
    ctx.notes.append("TLC generated %d socket-address vectors" % len(d["socks"]))
    rep = vlib.go_harness(ctx, "pkg/socket", "TestVerifSockaddrTable", env={"VERIF_TABLES": p}, timeout=300, netns=True)
    vlib.absorb(ctx, rep, "sockaddr")


def run(ctx):
    part_a(ctx)
    try:
        import checks.system as system
        system.addr_part(ctx)
    except ImportError:
        ctx.notes.append("part (b) not built yet")
    ctx.exhaustive = False
    ctx.assumptions += ["zone names: the loopback interface's name; numeric zones: indices that name no interface on this host"]
    return vlib.finish(ctx, "exploration",
                       "cases: every conversion vector of specs/Addrs.tla (address family x ports x zones, invalid lengths, unsupported networks) round-tripped through the real conversion functions; distinct = distinct vectors")
