"""C04 callback life cycle — system traces validated by TrIn.tla (+ design model Conn.tla when present)."""
import vlib
from checks import system


def run(ctx):
    system.design(ctx, "life")
    for tags in (["verif"] + (["verif poll_opt gc_opt"] if ctx.thorough else [])):
        t = system.record(ctx, "sys-" + tags.replace(" ", "+"), tags=tags)
        system.validate(ctx, t, ["TrLife"], "life cycle, " + tags)
    # engine shutdown with connections open on every loop (all sources, among them an OnClose that answers Shutdown
    # from every connection of the final sweep): each of them is owed its one OnClose
    t = system.record(ctx, "shutdown", test="TestVerifShutdown")
    system.validate(ctx, t, ["TrLife"], "connections open at shutdown")
    if vlib.have_strace():
        # a loop that ends through its error exit (accept failing for good) owes its connections their OnClose too
        t = system.record(ctx, "accept-fatal", test="TestVerifFaults", env={"VERIF_FAULT_SET": "fatal"})
        system.validate(ctx, t, ["TrLife"], "engine ended by a fatal accept error")
    t = system.record(ctx, "client", test="TestVerifClient")
    system.validate(ctx, t, ["TrLife"], "client engine (Dial / Enroll), life cycle")
    ctx.assumptions += system.SYS_ASSUME
    return vlib.finish(ctx, "model_checking",
                       "one case = one engine life (6 configurations {LT, ET, ET+chunk} x {tcp, unix} per round, random loops / reuse-port / buffer sizes) with 6-11 scripted connections each, plus 6 client-engine lives (gnet.Client dialling / enrolling connections to listening peers): segmentations (1 byte, exactly the read buffer, bursts, data+FIN), consumption policies (Read/Next/Peek+Discard/Discard/WriteTo, lazy, peek-only); every event validated by TrLife.tla (open once, close once iff opened, nothing after close, nil error iff local close, async on closed connections, writes refused after EventLoop.Close inside the callback even when a foreign socket has taken the descriptor number, a close re-entered from OnClose is a no-op, count at quiescence, confinement)")
