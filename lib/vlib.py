"""Shared machinery of vcheck: scratch dirs, TLC runner, overlay go-test runner,
known-findings matcher, evidence writer, verdicts."""
import json, os, re, shutil, subprocess, sys, tempfile, time, glob, atexit, signal

VERIF = os.path.dirname(os.path.dirname(os.path.abspath(__file__)))
REPO = os.environ.get("VERIF_REPO", "/repo")
SPECS = os.path.join(VERIF, "specs")
HARNESS = os.path.join(VERIF, "harness")
JAR = "/opt/veriftools/tla/tla2tools.jar:/opt/veriftools/tla/CommunityModules-deps.jar"
GOENV = {"GOFLAGS": "-mod=mod", "GOPROXY": "off", "GOSUMDB": "off", "GOTOOLCHAIN": "local"}
MODULE = "github.com/panjf2000/gnet/v2"


class MachineryError(Exception):
    """Anything that is not a verdict about the code: exit 2."""


class Ctx:
    def __init__(self, prop, tier, seed):
        self.prop, self.tier, self.seed = prop, tier, seed
        self.t0 = time.time()
        self.scratch = tempfile.mkdtemp(prefix="verif.%s." % prop, dir="/var/tmp")
        atexit.register(self.cleanup)
        self.states = 0
        self.transitions = 0
        self.traces = 0
        self.trace_events = 0
        self.evaluations = 0
        self.distinct = 0
        self.samples = []
        self.violations = []      # (sig, detail, replaydata)
        self.known = []
        self.nonconf = []
        self.notes = []
        self.assumptions = []
        self.exhaustive = True
        self.tlc_runs = []
        self.harness_runs = []
        self.procs = []

    @property
    def thorough(self):
        return self.tier == "thorough"

    def cleanup(self):
        for p in self.procs:
            try:
                os.killpg(p.pid, signal.SIGKILL)
            except Exception:
                pass
        shutil.rmtree(self.scratch, ignore_errors=True)

    def sub(self, name):
        d = os.path.join(self.scratch, name)
        os.makedirs(d, exist_ok=True)
        return d

    def log(self, *a):
        print("[%s %6.1fs]" % (self.prop, time.time() - self.t0), *a, flush=True)


def run(ctx, cmd, timeout, env=None, cwd=None, outfile=None):
    """Run a command in its own process group under a hard timeout. Returns (rc, output)."""
    e = dict(os.environ)
    if env:
        e.update(env)
    out = outfile or os.path.join(ctx.scratch, "cmd.%d.out" % len(os.listdir(ctx.scratch)))
    with open(out, "wb") as f:
        p = subprocess.Popen(cmd, stdout=f, stderr=subprocess.STDOUT, env=e, cwd=cwd, start_new_session=True)
        ctx.procs.append(p)
        try:
            rc = p.wait(timeout=timeout)
        except subprocess.TimeoutExpired:
            try:
                os.killpg(p.pid, signal.SIGKILL)
            except Exception:
                pass
            p.wait()
            rc = -9
        ctx.procs.remove(p)
    with open(out, "r", errors="replace") as f:
        return rc, f.read()


# --------------------------------------------------------------------------- TLC

def tlc(ctx, module, cfg, *, workers=16, dump=None, timeout=600, simulate=None, depth=None,
        deque=False, extra_files=(), heap="12g", coverage=False, name=None, seed=None):
    """Run TLC on specs/<module>.tla with specs/<cfg>. Returns dict(ok, states, distinct, out, dot, violated)."""
    name = name or cfg.replace(".cfg", "")
    d = ctx.sub("tlc." + name)
    for f in glob.glob(os.path.join(SPECS, "*.tla")):
        shutil.copy(f, d)
    shutil.copy(cfg if os.path.isabs(cfg) else os.path.join(SPECS, cfg), d)
    cfg = os.path.basename(cfg)
    for f in extra_files:
        if isinstance(f, tuple):
            shutil.copy(f[0], os.path.join(d, f[1]))
        else:
            shutil.copy(f, d)
    cmd = ["java", "-XX:+UseParallelGC", "-Xmx" + heap, "-Xss64m"]
    if deque:
        cmd.append("-Dtlc2.tool.queue.IStateQueue=StateDeque")
    cmd += ["-cp", JAR, "tlc2.TLC", "-workers", str(workers), "-metadir", os.path.join(d, "md"),
            "-config", cfg, "-noGenerateSpecTE"]
    if coverage:
        cmd += ["-coverage", "1"]
    dot = None
    if dump:
        dot = os.path.join(d, dump + ".dot")
        cmd += ["-dump", "dot,actionlabels", os.path.join(d, dump)]
    if simulate:
        cmd += ["-simulate", simulate]
        if depth:
            cmd += ["-depth", str(depth)]
        if seed is not None:
            cmd += ["-seed", str(seed)]
    cmd.append(module + ".tla")
    t0 = time.time()
    rc, out = run(ctx, cmd, timeout, cwd=d, outfile=os.path.join(d, "tlc.out"))
    res = {"rc": rc, "out": out, "dot": dot, "dir": d, "wall": time.time() - t0, "name": name}
    m = re.search(r"(\d[\d,]*) states generated, (\d[\d,]*) distinct states found, (\d[\d,]*) states left on queue", out)
    if m:
        res["generated"] = int(m.group(1).replace(",", ""))
        res["distinct"] = int(m.group(2).replace(",", ""))
        res["left"] = int(m.group(3).replace(",", ""))
    res["violated"] = None
    mv = re.search(r"Error: Invariant (\S+) is violated", out) or re.search(r"Error: Action property (\S+) is violated", out)
    if mv:
        res["violated"] = mv.group(1)
    elif re.search(r"Temporal propert(y|ies) .*violated", out):
        mt = re.search(r"Temporal property (\S+) was violated", out)
        res["violated"] = mt.group(1) if mt else "temporal"
    elif "Deadlock reached" in out:
        res["violated"] = "deadlock"
    res["finished"] = "Model checking completed. No error has been found" in out
    if rc == -9:
        res["timeout"] = True
    ctx.tlc_runs.append({k: res.get(k) for k in ("name", "generated", "distinct", "left", "violated", "finished", "wall")})
    return res


def tlc_model_check(ctx, module, cfg, **kw):
    """Exhaustive run that must finish with no error; adds to the state counts. A model-level
    counterexample or a crash is a machinery failure (the models are kept green; the real code
    is judged by replay / trace validation)."""
    res = tlc(ctx, module, cfg, **kw)
    if res.get("timeout"):
        raise MachineryError("TLC timed out on %s/%s" % (module, cfg))
    if res["violated"]:
        tail = "\n".join(res["out"].splitlines()[-60:])
        raise MachineryError("TLC reports %s violated in %s/%s (model-level counterexample, not a verdict on the code):\n%s"
                             % (res["violated"], module, cfg, tail))
    if not res["finished"] or "distinct" not in res:
        tail = "\n".join(res["out"].splitlines()[-40:])
        raise MachineryError("TLC did not complete on %s/%s:\n%s" % (module, cfg, tail))
    ctx.states += res["distinct"]
    ctx.transitions += res["generated"]
    if res["left"] != 0:
        ctx.exhaustive = False
    ctx.log("TLC %s: %d distinct states, %d generated, %.1fs" % (res["name"], res["distinct"], res["generated"], res["wall"]))
    return res


def _parse_viols(txt):
    out = []
    txt = " ".join(txt.split())
    for it in re.finditer(r'\[[^\[\]]*\]', txt):
        rec = it.group(0)
        mi = re.search(r'inv \|-> "([^"]+)"', rec)
        ma = re.search(r'at \|-> (\d+)', rec)
        mf = re.search(r'info \|-> (.*?)(?:, inv \|->|, at \|->|\s*\]$)', rec)
        if mi and ma:
            out.append({"inv": mi.group(1), "at": int(ma.group(1)), "info": mf.group(1).strip() if mf else ""})
    return out


def _linear_result(ctx, res, n):
    """Single-path trace specifications run in TLC's simulation mode; the last step prints TRACE_END with the failures."""
    out = res["out"]
    r = {"events": n, "accepted": False, "violated": None, "prefix": None, "out": out, "viols": []}
    if res.get("timeout"):
        raise MachineryError("trace validation timed out (%s, %d events)" % (res["name"], n))
    m = re.search(r'"TRACE_END",\s*(\d+),\s*(<<.*?>>)\s*>>\s*\n', out, re.S)
    errs = [e for e in re.findall(r"^Error: (.*)$", out, re.M) if not e.startswith("Postcondition Accepted")]
    if not m or errs:
        raise MachineryError("trace validation did not reach the end of the trace (%s):\n%s" % (res["name"], "\n".join(out.splitlines()[-40:])))
    r["viols"] = _parse_viols(m.group(2))
    if r["viols"]:
        r["violated"], r["prefix"] = r["viols"][0]["inv"], r["viols"][0]["at"]
    elif m.group(2).replace(" ", "") != "<<>>":
        # (records whose info holds bytes that break the record pattern: take the names and positions alone)
        names = re.findall(r'inv \|-> "([^"]+)"', m.group(2))
        ats = re.findall(r'at \|-> (\d+)', m.group(2))
        if names:
            r["viols"] = [{"inv": nm, "at": int(ats[i]) if i < len(ats) else 0, "info": " ".join(m.group(2).split())[:300]} for i, nm in enumerate(names)]
            r["violated"], r["prefix"] = r["viols"][0]["inv"], r["viols"][0]["at"]
        else:
            r["viols"] = [{"inv": "unparsed", "at": 0, "info": m.group(2)[:300]}]
            r["violated"] = "unparsed"
    else:
        r["accepted"] = True
        ctx.traces += 1
        ctx.trace_events += n
        ctx.states += n + 1
        ctx.transitions += n + 1
    ctx.log("trace %s: %d events, %s" % (res["name"], n, "accepted" if r["accepted"] else "FAILED CHECK %s at event %s" % (r["violated"], r["prefix"])))
    return r


def validate_trace(ctx, module, cfg, tracefile, *, timeout=600, name=None, deque=False, heap="8g", linear=False):
    """Channel B: check a recorded ndjson trace against a trace specification with TLC (-workers 1).
    Returns dict(accepted, violated, prefix, events). A trace that is not a behaviour of the spec, or on which a
    property invariant fails, is a verdict about the code; everything else is MachineryError."""
    with open(tracefile) as f:
        n = sum(1 for _ in f)
    if n == 0:
        raise MachineryError("empty trace " + tracefile)
    dst = os.path.join(ctx.scratch, "trace.ndjson")
    if os.path.abspath(tracefile) != dst:
        shutil.copy(tracefile, dst)
    res = tlc(ctx, module, cfg, workers=1, timeout=timeout, extra_files=[dst], name=name or cfg.replace(".cfg", ""), deque=deque, heap=heap,
              simulate="num=1" if linear else None, depth=(n + 10) if linear else None)
    out = res["out"]
    if linear:
        return _linear_result(ctx, res, n)
    r = {"events": n, "accepted": False, "violated": None, "prefix": None, "out": out}
    if res.get("timeout"):
        raise MachineryError("trace validation timed out (%s, %d events)" % (cfg, n))
    mv = re.search(r'"TRACE_VIOLATIONS",\s*(<<.*?>>)\s*>>\s*\n(?:Error|\d|Finished|The )', out, re.S)
    r["viols"] = []
    if mv:
        txt = " ".join(mv.group(1).split())
        for it in re.finditer(r'\[[^\[\]]*\]', txt):
            rec = it.group(0)
            mi = re.search(r'inv \|-> "([^"]+)"', rec)
            ma = re.search(r'at \|-> (\d+)', rec)
            mf = re.search(r'info \|-> (.*?)(?:, inv \|->|, at \|->|\s*\]$)', rec)
            if mi and ma:
                r["viols"].append({"inv": mi.group(1), "at": int(ma.group(1)), "info": mf.group(1).strip() if mf else ""})
        if not r["viols"]:
            r["viols"].append({"inv": "unparsed", "at": 0, "info": txt[:500]})
    m = re.search(r'"TRACE_REJECTED_AT",\s*(\d+),\s*(.*?)>>\s*\n', out, re.S)
    if res["violated"] and res["violated"] not in ("deadlock",):
        r["violated"] = res["violated"]
        ms = re.findall(r"^State (\d+):", out, re.M)
        r["prefix"] = int(ms[-1]) - 1 if ms else None
    elif mv:
        r["violated"] = r["viols"][0]["inv"]
        r["prefix"] = r["viols"][0]["at"]
    elif m:
        r["prefix"] = int(m.group(1))
        r["event"] = " ".join(m.group(2).split())[:400]
    elif res["finished"]:
        r["accepted"] = True
        ctx.traces += 1
        ctx.trace_events += n
        if "distinct" in res:
            ctx.states += res["distinct"]
            ctx.transitions += res["generated"]
    else:
        raise MachineryError("trace validation did not complete (%s):\n%s" % (cfg, "\n".join(out.splitlines()[-40:])))
    ctx.log("trace %s: %d events, %s" % (res["name"], n, "accepted" if r["accepted"] else ("INVARIANT %s" % r["violated"] if r["violated"] else "REJECTED at event %s" % r["prefix"])))
    return r


def apalache_inductive(ctx, module, *, cinit, init, ind_init, ind_inv, goal, timeout=300):
    """Inductive-invariant argument with Apalache (unbounded integers): Init => IndInv, IndInv /\ Next => IndInv',
    IndInv => goal.  Returns False (with a note) when Apalache is not installed; a refuted step is a machinery failure
    (the argument is about the model, the code is judged elsewhere)."""
    exe = shutil.which("apalache-mc")
    if not exe:
        ctx.notes.append("apalache-mc not found: the inductive argument for %s was skipped" % module)
        return False
    d = ctx.sub("apalache." + module)
    shutil.copy(os.path.join(SPECS, module + ".tla"), d)
    steps = [("base", init, ind_inv, 0), ("step", ind_init, ind_inv, 1), ("goal", ind_init, goal, 0)]
    for name, i, inv, length in steps:
        cmd = [exe, "check", "--cinit=" + cinit, "--init=" + i, "--inv=" + inv, "--length=%d" % length,
               "--out-dir=" + os.path.join(d, "out"), module + ".tla"]
        rc, out = run(ctx, cmd, timeout, cwd=d, outfile=os.path.join(d, "apalache.%s.out" % name))
        if rc != 0 or "EXITCODE: OK" not in out:
            raise MachineryError("Apalache: %s of the inductive argument for %s failed (%s => %s, length %d):\n%s"
                                 % (name, module, i, inv, length, "\n".join(out.splitlines()[-25:])))
    ctx.log("Apalache %s: Init => %s, %s /\\ Next => %s', %s => %s: all proved" % (module, ind_inv, ind_inv, ind_inv, ind_inv, goal))
    ctx.notes.append("Apalache: %s is an inductive invariant of %s.tla and implies %s (unbounded number of queued tasks, 3 producers)" % (ind_inv, module, goal))
    return True


def tlaps_prove(ctx, module, deps=(), timeout=600):
    """Check a TLAPS proof module (all obligations must be proved).  Skipped with a note when tlapm is not installed."""
    exe = shutil.which("tlapm")
    if not exe:
        ctx.notes.append("tlapm not found: the proof %s was not re-checked" % module)
        return False
    d = ctx.sub("tlaps." + module)
    for m in (module,) + tuple(deps):
        shutil.copy(os.path.join(SPECS, m + ".tla"), d)
    rc, out = run(ctx, [exe, "--threads", "16", module + ".tla"], timeout, cwd=d, outfile=os.path.join(d, "tlapm.out"))
    m = re.search(r"All (\d+) obligations proved", out)
    if rc != 0 or not m:
        raise MachineryError("tlapm did not prove %s:\n%s" % (module, "\n".join(out.splitlines()[-25:])))
    ctx.log("TLAPS %s: all %s obligations proved" % (module, m.group(1)))
    ctx.notes.append("TLAPS: %s, all %s proof obligations proved (arbitrary set of producers, unbounded queue)" % (module, m.group(1)))
    return True


def have_strace():
    """strace present and allowed to attach (ptrace) to a child of ours?"""
    global _STRACE
    try:
        return _STRACE
    except NameError:
        pass
    try:
        p = subprocess.Popen(["sleep", "2"])
        r = subprocess.run(["strace", "-p", str(p.pid), "-e", "trace=none", "-o", "/dev/null"], timeout=5, capture_output=True)
        _STRACE = r.returncode == 0 or b"attached" in r.stderr
        p.kill()
    except Exception:
        _STRACE = False
    return _STRACE


def tlc_trace_file(ctx, module, cfgpath, tracefile, *, name, timeout=600, heap="4g"):
    """Searching trace validation (breadth-first, -workers 1, high-water mark of the trace index in TLC register 1)
    with a generated configuration; safe to call from several threads."""
    res = tlc(ctx, module, cfgpath, workers=1, timeout=timeout, extra_files=[(tracefile, "trace.ndjson")], name=name, heap=heap)
    out = res["out"]
    r = {"accepted": False, "violated": None, "prefix": None, "out": out, "distinct": res.get("distinct", 0), "generated": res.get("generated", 0)}
    if res.get("timeout"):
        raise MachineryError("trace validation timed out (%s)" % name)
    m = re.search(r'"TRACE_REJECTED_AT",\s*(\d+),', out)
    if res["violated"] and res["violated"] != "deadlock":
        r["violated"] = res["violated"]
        ms = re.findall(r"^/\\ l = (\d+)", out, re.M)
        r["prefix"] = int(ms[-1]) if ms else None
    elif m:
        r["prefix"] = int(m.group(1))
    elif res["finished"]:
        r["accepted"] = True
    return r


# --------------------------------------------------------------------------- go harness

def overlay(ctx, pkgs, extra=None):
    """Build the -overlay file: vsup as <repo>/internal/vsup, harness/<pkg>/*.go as zz_verif_*_test.go in <repo>/<pkg>."""
    rep = {}
    for f in glob.glob(os.path.join(HARNESS, "vsup", "*.go")):
        rep[os.path.join(REPO, "internal", "vsup", os.path.basename(f))] = f
    for pkg in pkgs:
        src = os.path.join(HARNESS, pkg if pkg != "." else "root")
        for f in glob.glob(os.path.join(src, "*.go")):
            base = os.path.basename(f)
            rep[os.path.join(REPO, pkg, "zz_verif_" + base)] = f
    if extra:
        rep.update(extra)
    p = os.path.join(ctx.scratch, "overlay.%d.json" % len(glob.glob(os.path.join(ctx.scratch, "overlay.*"))))
    with open(p, "w") as f:
        json.dump({"Replace": rep}, f)
    return p


_NETNS = None


def have_netns():
    """Can we give the harness a private network namespace (no port collisions with anything else on the machine)?"""
    global _NETNS
    if _NETNS is None:
        try:
            _NETNS = subprocess.run(["unshare", "-n", "sh", "-c", "ip link set lo up"], capture_output=True, timeout=20).returncode == 0
        except Exception:
            _NETNS = False
    return _NETNS


def go_harness(ctx, pkg, test, *, env=None, tags="verif", timeout=600, race=False, name=None, extra_overlay=None,
               gotimeout=None, allow_fail=False, netns=False):
    """Run one harness test of package <pkg> (path relative to the repo root) against the current working tree.
    Returns the parsed report (dict). Build failures / crashes are MachineryError."""
    name = name or test
    if "poll_opt" in tags and pkg == "pkg/netpoll":
        # the repository's own example_test.go does not compile with poll_opt (Polling takes no argument there)
        extra_overlay = dict(extra_overlay or {})
        extra_overlay[os.path.join(REPO, "pkg/netpoll/example_test.go")] = os.path.join(HARNESS, "stubs", "netpoll_example_stub.go")
    ov = overlay(ctx, [pkg], extra_overlay)
    outp = os.path.join(ctx.scratch, "report.%s.json" % name)
    if os.path.exists(outp):
        os.remove(outp)
    e = dict(GOENV)
    e.update({"VERIF_OUT": outp, "VERIF_SEED": str(ctx.seed), "VERIF_TIER": ctx.tier, "VERIF_SCRATCH": ctx.scratch})
    if env:
        e.update({k: str(v) for k, v in env.items()})
    cmd = ["go", "test", "-vet=off", "-overlay", ov, "-tags", tags, "-run", "^" + test + "$", "-count=1",
           "-timeout", gotimeout or ("%ds" % max(60, timeout - 10))]
    if race:
        cmd.append("-race")
        if "poll_opt" in tags:
            # -race turns on checkptr, which stops the poll_opt build at once: it keeps a Go pointer in the (packed,
            # hence misaligned) data field of epoll_event.  That is not a data race; the race detector stays on
            cmd.append("-gcflags=all=-d=checkptr=0")
    cmd.append("./" + pkg if pkg != "." else ".")
    if netns and have_netns():
        import shlex
        # (two extra interfaces whose names begin with a digit: zone names are not only "lo" and "eth0")
        cmd = ["unshare", "-n", "sh", "-c", "ip link set lo up; ip -6 addr add fe80::1/64 dev lo nodad 2>/dev/null; ip link add 6to4 type veth peer name 4g-modem 2>/dev/null; exec " + " ".join(shlex.quote(c) for c in cmd)]
    t0 = time.time()
    rc, out = run(ctx, cmd, timeout, env=e, cwd=REPO)
    wall = time.time() - t0
    if not os.path.exists(outp) and rc not in (0, -9) and re.search(r"^(panic: |fatal error: |unexpected fault address)", out, re.M):
        # the test process died inside the code under test (harness panics are recovered and reported
        # through the report file, and never occur on the unchanged tree): real-code behaviour
        head = [l for l in out.splitlines() if l.strip()][:1]
        m = re.search(r"^(panic: .*|fatal error: .*|unexpected fault address.*)$", out, re.M)
        # where did it die? the first source line of the repository in the crashing goroutine's stack
        files = re.findall(r"^\t(%s/\S+\.go):(\d+)" % re.escape(REPO), out, re.M)
        gframes = ["%s:%s" % (os.path.relpath(f, REPO), ln) for f, ln in files[:6]]
        if not files or os.path.basename(files[0][0]).startswith("zz_verif_") or "/internal/vsup/" in files[0][0]:
            raise MachineryError("harness %s/%s crashed outside the code under test:\n%s" % (pkg, test, "\n".join(out.splitlines()[:60])))
        rep = {"name": name, "evaluations": 1, "distinct_nontrivial": 0, "samples": [], "extra": {},
               "findings": [{"kind": "violation", "sig": "%s/crash" % name, "count": 1,
                             "detail": "the test process crashed: %s (stack: %s)" % (m.group(1) if m else head, ", ".join(gframes[:4]) or "none"),
                             "path": []}], "wall": time.time() - t0, "stdout": out}
        ctx.harness_runs.append({"name": name, "pkg": pkg, "crashed": True})
        ctx.log("harness %s: CRASHED: %s" % (name, m.group(1) if m else head))
        return rep
    if not os.path.exists(outp):
        raise MachineryError("harness %s/%s produced no report (rc=%s):\n%s" % (pkg, test, rc, "\n".join(out.splitlines()[-60:])))
    if rc != 0 and not allow_fail:
        raise MachineryError("harness %s/%s failed (rc=%s):\n%s" % (pkg, test, rc, "\n".join(out.splitlines()[-60:])))
    with open(outp) as f:
        rep = json.load(f)
    rep["wall"] = wall
    rep["stdout"] = out
    ctx.harness_runs.append({"name": name, "pkg": pkg, "evaluations": rep.get("evaluations"),
                             "distinct": rep.get("distinct_nontrivial"), "wall": round(wall, 1), "extra": rep.get("extra")})
    ctx.log("harness %s: %s evaluations, %s distinct, %d findings, %.1fs" %
            (name, rep.get("evaluations"), rep.get("distinct_nontrivial"), len(rep.get("findings", [])), wall))
    return rep


def absorb(ctx, rep, source):
    """Fold a harness report into the context: counts, samples, findings."""
    ctx.evaluations += int(rep.get("evaluations", 0))
    ctx.distinct += int(rep.get("distinct_nontrivial", 0))
    for s in rep.get("samples") or []:
        if len(ctx.samples) < 8:
            ctx.samples.append(s)
    for f in rep.get("findings") or []:
        item = dict(f)
        item["source"] = source
        if f["kind"] == "violation":
            ctx.violations.append(item)
        else:
            ctx.nonconf.append(item)


# --------------------------------------------------------------------------- verdict

def load_known():
    p = os.path.join(VERIF, "known_findings.json")
    if not os.path.exists(p):
        return []
    with open(p) as f:
        return json.load(f).get("findings", [])


def finish(ctx, level, rule, explanation=None):
    """Classify violations against known findings, write evidence, print verdict lines, return exit code."""
    known = [k for k in load_known() if k.get("property") == ctx.prop and k.get("status") == "open"]
    real = []
    for v in ctx.violations:
        hit = None
        for k in known:
            if re.fullmatch(k["sig"], v["sig"]):
                hit = k
                break
        if hit:
            ctx.known.append((hit, v))
        else:
            real.append(v)
    seen = set()
    for k, v in ctx.known:
        if k["id"] in seen:
            continue
        seen.add(k["id"])
        print("KNOWN-FINDING: property=%s %s [%s]" % (ctx.prop, k["what"], k["id"]))
    for n in ctx.nonconf[:20]:
        print("NONCONFORMANCE property=%s sig=%s count=%s %s" % (ctx.prop, n["sig"], n.get("count"), n["detail"]))
        if n.get("path"):
            print("  path: " + " ; ".join(n["path"][-12:]))
    rc = 0
    replay_dir = os.path.join(VERIF, "replays", ctx.prop)
    for i, v in enumerate(real):
        os.makedirs(replay_dir, exist_ok=True)
        p = os.path.join(replay_dir, "%s.%d.%d.json" % (ctx.tier, ctx.seed, i))
        with open(p, "w") as f:
            json.dump({"property": ctx.prop, "tier": ctx.tier, "seed": ctx.seed, "finding": v,
                       "replay_cmd": "cd /verif && VERIF_SEED=%d ./vcheck run %s --tier %s" % (ctx.seed, ctx.prop, ctx.tier)}, f, indent=1)
        print("VIOLATION property=%s replay=%s" % (ctx.prop, p))
        print("  sig=%s count=%s: %s" % (v["sig"], v.get("count"), v["detail"]))
        if v.get("path"):
            print("  path: " + " ; ".join(v["path"][-12:]))
        rc = 1
    cov = {
        "states": ctx.states, "transitions": ctx.transitions,
        "traces_validated_against_impl": ctx.traces,
        "trace_events_validated": ctx.trace_events,
        "evaluations": max(ctx.evaluations, 0), "distinct_nontrivial": ctx.distinct,
        "rule": rule, "samples": ctx.samples or ["(no sample recorded)"],
        "exhaustive": bool(ctx.exhaustive and ctx.states > 0),
        "tlc_runs": ctx.tlc_runs, "harness_runs": ctx.harness_runs,
        "nonconformances": [{"sig": n["sig"], "count": n.get("count"), "detail": n["detail"]} for n in ctx.nonconf[:20]],
        "known_findings_hit": sorted(seen),
        "notes": ctx.notes,
    }
    if explanation:
        cov["explanation"] = explanation
    ev = {"property_id": ctx.prop, "tier": ctx.tier, "seed": ctx.seed, "level": level, "coverage": cov,
          "assumptions": ctx.assumptions, "wall_s": round(time.time() - ctx.t0, 1), "violations": len(real)}
    # (a run pointed at another checkout -- VERIF_REPO, used to try the checks on seeded changes -- says nothing about
    # /repo: its evidence goes elsewhere, as do its replay files)
    evdir = os.path.join(VERIF, "evidence") if REPO == "/repo" else os.path.join("/var/tmp", "verif-evidence-" + os.path.basename(REPO.rstrip("/")))
    os.makedirs(evdir, exist_ok=True)
    with open(os.path.join(evdir, ctx.prop + ".json"), "w") as f:
        json.dump(ev, f, indent=1, default=str)
    print("RESULT property=%s tier=%s seed=%d states=%d transitions=%d replayed=%d distinct=%d traces=%d violations=%d known=%d nonconf=%d wall=%.1fs"
          % (ctx.prop, ctx.tier, ctx.seed, ctx.states, ctx.transitions, ctx.evaluations, ctx.distinct, ctx.traces,
             len(real), len(seen), len(ctx.nonconf), time.time() - ctx.t0))
    return rc
