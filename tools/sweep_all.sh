#!/bin/sh
# run every quick check with several seeds on the unchanged tree; print one line per run
cd "$(dirname "$0")/.."
python3 tools/setup.py >/dev/null
for s in ${SEEDS:-2 3 4}; do
  for p in C01 C02 C03 C04 C05 C06 C07 C08 C09 C10 C11 C12 C13 C14 C15 C16 C17 C18 C19 C20; do
    t0=$(date +%s)
    VERIF_SEED=$s ./vcheck run $p --tier ${TIER:-quick} > /tmp/sweep_$p.$s.out 2>&1
    rc=$?
    echo "seed=$s $p rc=$rc $(( $(date +%s) - t0 ))s $(grep -E '^(VIOLATION|MACHINERY|KNOWN)' /tmp/sweep_$p.$s.out | head -2 | cut -c1-200 | tr '\n' ' ')"
    if [ $rc -ne 0 ]; then grep -E 'sig=|MACHINERY' /tmp/sweep_$p.$s.out | head -3 | cut -c1-300; fi
  done
done
