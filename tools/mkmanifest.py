#!/usr/bin/env python3
"""Regenerates MANIFEST.json from the table below (kept in one place so that it always validates)."""
import json, os
V = os.path.dirname(os.path.dirname(os.path.abspath(__file__)))
BASELINE = json.load(open("/root/.vp/BASELINE.json"))["cmd"] if os.path.exists("/root/.vp/BASELINE.json") else ""

CHECKS = {
 "C09": dict(cat="model_checking", ref="DESIGN.md §4 C09, §3",
   text="Ring.tla models ring.Buffer at representation level (size, r, w, isEmpty, cells); TLC checks the FIFO/accounting invariants in every reachable representation state and the labelled state graph is replayed edge by edge on the real ring.Buffer with a position-stamped FIFO oracle; a second configuration uses the real constants at byte granularity.",
   note="Trusted: TLC, the Go toolchain, the scripted io.Reader/io.Writer alphabet. Exhaustive for sizes in 256-byte units up to 6400 bytes; boundary byte sizes to depth 3; larger histories by trace validation.",
   tech="TLA+ spec + TLC exhaustive; transition-cover replay of the TLC state graph into the real object; trace validation"),
 "C10": dict(cat="model_checking", ref="DESIGN.md §4 C10, §3",
   text="Elastic.tla composes the ring algorithms (RingOps) and the list algorithms (ListOps) into elastic.RingBuffer/elastic.Buffer with lazy pooled allocation and the static-limit switch-over; TLC checks ring cell content, lazy-return and count invariants exhaustively; every labelled edge is replayed on a real elastic.Buffer against a stamped-byte FIFO oracle.",
   note="Trusted: TLC, Go toolchain, scripted reader/writer alphabet; the sync.Pool is primed so that lazy allocation is controlled (misses are counted and skipped). Writev with > 1024 segments is covered at connection level (C02).",
   tech="TLA+ spec + TLC exhaustive; transition-cover replay of the TLC state graph into the real object"),
 "C11": dict(cat="model_checking", ref="DESIGN.md §4 C11, §3",
   text="LList.tla models linkedlist.Buffer as the list of segment lengths over FIFO-normal-form content; TLC checks no-empty-node / count invariants over all operation sequences within the bounds; every labelled edge is replayed on a real linkedlist.Buffer, including the copy semantics of PushBack/PushFront (the harness scribbles over its slice after the call).",
   note="Trusted: TLC, Go toolchain, scripted reader/writer alphabet. Bounds: <= 4 segments, <= 12 units of 128 bytes, plus byte sizes around 512 to depth 3.",
   tech="TLA+ spec + TLC exhaustive; transition-cover replay of the TLC state graph into the real object"),
 "C12": dict(cat="model_checking", ref="DESIGN.md §4 C12, §3",
   text="Pools.tla is an ownership ledger of the byte-slice pool and the ring-buffer pool (arrays, handed-out slices, pooled regions per size class, sync.Pool free to drop or return anything); TLC checks no-alias / within-bounds invariants over all Get/Put/Drop interleavings; recorded histories of the real pools (single and multi goroutine, across GCs, tail re-slices, foreign and zero-capacity slices), with regions normalised to (array, offset, len, cap), are validated against the spec by TLC with every invariant evaluated at every event.",
   note="Trusted: TLC; the harness keeps all arrays alive so addresses identify arrays; sizes up to 2^20 (class arithmetic to 2^31 is covered by C20).",
   tech="TLA+ ledger spec + TLC exhaustive; trace validation of recorded pool histories (PoolsTrace.tla)"),
 "C14": dict(cat="model_checking", ref="DESIGN.md §4 C14, §3",
   text="ConnMatrix.tla transcribes addConn/delConn/getConn/iterate of the compacting registry (table, reverse index, per-connection position, next-slot pointer, per-row counts); TLC checks faithful-map, count, density and coherence invariants over all add/remove/lookup/iterate sequences; every labelled edge is replayed on the real registry of both builds (gc_opt matrix and default map), also with the real matrix pre-filled so that operations straddle the 65536-entry row boundary.",
   note="Trusted: TLC, Go toolchain. Model dimensions 2x3 (quick) / 3x3 (thorough) stand for 256x65536; observables (lookups of every descriptor, count, visited multiset) are compared, positions are not.",
   tech="TLA+ spec + TLC exhaustive; transition-cover replay of the TLC state graph into the real object (both build variants)"),
 "C15": dict(cat="model_checking", ref="DESIGN.md §4 C15, §3",
   text="LB.tla states the three policies (round-robin turn, least-connections arg-min, hash as an unknown but functional map into the registered loops); TLC checks range / fairness / functionality exhaustively for small engines; seeded histories of accepts and closes on the real balancers (1..256 loops, IPv4/IPv6-zone/Unix/empty addresses) are validated decision by decision against the spec by TLC.",
   note="Trusted: TLC. Least-connections is judged at quiescent points; which goroutine runs a connection's callbacks is C05's trace invariant.",
   tech="TLA+ spec + TLC exhaustive; trace validation of recorded balancer decisions (LBTrace.tla)"),
 "C16": dict(cat="exploration", ref="DESIGN.md §4 C16, §3",
   text="Addrs.tla is the executable definition of the listen-address grammar with the acceptable outcome classes per string and of the capacity / chunk / loop-count normalisation; TLC evaluates it into tables which are checked against parseProtoAddr, createListeners, NewClient, determineEventLoops and Run; seeded byte-level mutations of the generated strings check totality. No state machine is involved, hence exploration level.",
   note="Oracle defined in TLA+, evaluated by TLC; not model checking. Coverage-guided fuzzing is not used.",
   tech="TLA+-defined oracle tables evaluated by TLC, replayed in Go; seeded mutation for totality"),
 "C17": dict(cat="exploration", ref="DESIGN.md §4 C17",
   text="(a) conversion vectors (families x ports x zones, invalid lengths, unsupported networks) defined in Addrs.tla and evaluated by TLC are round-tripped through the real conversion functions; (b) the AddrStable invariant of the connection traces (peer's own view of its address vs RemoteAddr/LocalAddr at every callback under churn) is part of the system-level trace validation.",
   note="(a) is a TLA+-defined oracle, exploration level; zones: loopback interface name and numeric indices without interface.",
   tech="TLA+-defined oracle tables evaluated by TLC, replayed in Go; trace invariant for address stability"),
 "C20": dict(cat="exploration", ref="DESIGN.md §4 C20, §3",
   text="Tables.tla defines Ceil/Floor/Closest/IsPowerOfTwo, the size-class function and the GFD layout mathematically; TLC evaluates exact vectors (every n in -3..4100, 2^k+d for k<=62) and the interval table, with an ASSUME that the symbolic rules used above 2^30 agree with the mathematical definitions below; the Go harness checks every vector and sweeps every interval (all points up to 2^31 in the thorough tier, 2^22 plus 200k samples per larger interval in quick).",
   note="Pure functions: TLA+ serves as the executable definition, nothing is model-checked. ClosestPowerOfTwo domain 1..2^62.",
   tech="TLA+-defined oracle tables evaluated by TLC, replayed in Go; exhaustive 32-bit sweep against the interval table"),
 "C03": dict(cat="model_checking", ref="DESIGN.md §4 C03, §3",
   text="Poller.tla models Trigger / Polling at the granularity of the code segments between verif gates (threshold test, link, counter increment, CAS, eventfd write; epoll_wait, dequeue, counter decrement, run, store 0, re-check, self wake-up); TLC checks exec-at-most-once, no-lost-wake-up, high-priority FIFO and that every accepted task eventually runs, over all interleavings. Every labelled edge of the graph is executed as a schedule of the real Poller (both epoll variants) under a gate scheduler, with flag, queues, counters, executed tasks and the kernel's readiness of the epoll descriptor compared after every step; each schedule is then run to quiescence and judged by a state witness (loop parked before epoll_wait(-1), descriptor not ready, accepted task not run).",
   note="Trusted: TLC, sequentially consistent atomics, ET eventfd semantics (cross-checked with poll(2) at every step). kqueue pollers cannot be built here. System-level effects of AsyncWrite/Wake/Close/Execute are part of the connection traces.",
   tech="TLA+ spec + TLC exhaustive with liveness; TLC state graph replayed as controlled schedules of the real code (gate scheduler); systematic bounded-preemption schedules; state-witness oracle; Apalache inductive invariant and TLAPS proof for the counter abstraction (Wakeup.tla, WakeupProof.tla)"),
 "C13": dict(cat="model_checking", ref="DESIGN.md §4 C13, §3",
   text="MSQueue.tla models the Michael-Scott queue one action per atomic load / CAS / counter update with the abstract FIFO as ghost state and assertions at the linearisation points; TLC checks linearizability, no loss / duplication, per-producer FIFO, the length-lag lemma and termination under weak fairness over all interleavings. Every labelled edge of the graph is executed as a schedule of the real queue under the gate scheduler with head / tail / next pointers and the counter compared after every step; call/return histories of these schedules, of seeded PCT schedules and of ungated stress windows are validated by QueueLin.tla, where TLC searches for a linearisation.",
   note="Trusted: TLC, sequentially consistent atomics, no ABA (GC). Bounds: 2 enqueuers x 1 + 1 dequeuer x 2 replayed; 2x2 + 2x2 model-checked in the thorough tier.",
   tech="TLA+ spec + TLC exhaustive with liveness; TLC state graph replayed as controlled schedules of the real code; trace validation with linearisation search (QueueLin.tla)"),
 "C01": dict(cat="model_checking", ref="DESIGN.md §4 C01, §3",
   text="Conn.tla models one connection on its loop (read loop with leftovers, LT/ET/ET-chunk, RDHUP handling, adversarial handler) over an abstract kernel and peer; TLC checks prefix/accounting/everything-offered-before-EOF invariants exhaustively and that a sending peer is always served (liveness). Real engines -- servers (Run, Rotate with three listeners, zoned IPv6) and gnet.Client engines (Dial / DialContext / Enroll / EnrollContext) -- are driven by scripted peers (segmentations incl. 1 byte, exactly the read buffer, data+FIN, lock-step) and handlers (Read/Next/Peek+Discard/Discard/WriteTo, lazy, peek-only); every handler operation, peer action and read(2) result is recorded and validated by TLC against TrIn.tla (content, prefix, consumed+InboundBuffered=delivered at every operation, all offered before an EOF close).",
   note="Trusted: TLC, the kernel's socket semantics, the recorder's ordering discipline (single sequence under a lock, senders log before publishing). Segmentation inside one read(2) is the kernel's choice except for lock-step peers. BSD/Windows files cannot be built here.",
   tech="TLA+ spec + TLC exhaustive with liveness (Conn.tla); trace validation of recorded real-socket executions against TrIn.tla / TrLife.tla"),
 "C02": dict(cat="model_checking", ref="DESIGN.md §4 C02, §3",
   text="Conn.tla carries the outbound side with byte identities (accepted, buffered, in the kernel, received, dropped at close), short writes, EAGAIN, a stalling peer, ReadFrom+Flush, asynchronous writes; TLC checks exact order / no loss while open / LT-armed-iff-backlog and that accepted data drain while the peer reads. Recorded real executions (framed, position-stamped output; Write/Writev/ReadFrom+Flush/OnOpen reply/AsyncWrite(v), floods of >1024 queued requests, tiny socket buffers, slow and stalling peers) are validated against TrOut.tla: per-writer order, content, only-issued, OutboundBuffered = accepted - handed-to-kernel at every operation (write(2) results come from the verif hooks), completeness at drain, stranded-output state witness.",
   note="As C01. Output that does not fit at close is dropped by design (named deviation CloseBestEffortFlush), so completeness is only required of connections that stay open until drained.",
   tech="TLA+ spec + TLC exhaustive with liveness (Conn.tla); trace validation against TrOut.tla"),
 "C04": dict(cat="model_checking", ref="DESIGN.md §4 C04",
   text="Conn.tla checks open-once / close-once-iff-opened / nil-error-iff-local exhaustively over racing close causes (peer FIN, handler Close action, EventLoop.Close in a callback, asynchronous Close, close at OnOpen). Recorded executions with random histories of close causes, late requests through handles of closed connections while fresh connections reuse their descriptor numbers, farewell writes from OnClose, are validated against TrLife.tla (OpenOnce, TrafficOnlyWhileOpen, CloseOnceIffOpen, CloseErrNilIffLocal, AsyncOnClosedIsErrClosed, WakeCloseOnClosedAreNoops, NeverOnOtherConn, CountEqualsOpenAtQuiescence).",
   note="As C01. Client stream connections are driven; connected client UDP sockets are not.",
   tech="TLA+ spec + TLC exhaustive (Conn.tla); trace validation against TrLife.tla"),
 "C06": dict(cat="model_checking", ref="DESIGN.md §4 C06",
   text="Engine.tla models one engine (acceptors in reactor / reuse-port mode, hand-off of accepted sockets through the loops' task queues, every shutdown source, the six steps of engine.stop, the ticker goroutine, Engine.Register); TLC checks OnShutdown-once, all-opened-closed-before-return, nothing-runs-after-return, boot-shutdown-starts-nothing and that a requested shutdown terminates (weak fairness of loops, stop goroutine, ticker) over all interleavings, and every recorded engine life (server and gnet.Client) is validated against its actions by EngineTrace.tla. Real engines are shut down from every documented source (Engine.Stop, Stop, OnTick, OnOpen, OnTraffic, OnClose actions, OnBoot) in reactor and reuse-port mode while connections are idle, active and being accepted and a slow OnTick is in flight; the recorded executions are validated against TrLife.tla: Run returns nil, every opened connection closed before it returns, OnShutdown exactly once, nothing runs after the return, an OnBoot shutdown starts nothing; a Run that does not return is reported from the harness deadline.",
   note="Bounded time = 20 s deadline on recorded runs, termination under fairness in the model. A life that Engine.tla cannot explain is reported as a NONCONFORMANCE (mechanism level); the property verdict on the same log comes from TrLife.tla.",
   tech="TLA+ spec + TLC exhaustive with liveness (Engine.tla); trace validation of recorded shutdown races against TrLife.tla and against the actions of Engine.tla (EngineTrace.tla)"),
 "C07": dict(cat="model_checking", ref="DESIGN.md §4 C07",
   text="A descriptor ledger (TrFd.tla) is fed by verif hooks after every system call that creates, uses, polls or closes a descriptor, by canary goroutines that reuse just-closed numbers at once, by Dup'ed descriptors held beyond the connection's close, and by /proc/self/fd snapshots; TLC validates every recorded execution: fresh descriptors are unowned, use / poll only owned descriptors, close owned once, foreign and user descriptors untouched, nothing owned after Run / Rotate / Client.Stop returns (server engines, client engines dialling and enrolling connections, Rotate over several listeners including one whose later address cannot be bound: Unix-socket files removed). Conn.tla checks that no system call is made on a closed descriptor in the design; Engine.tla shows that a socket queued behind the exit signal is the only way an accepted socket stays open (KF-1).",
   note="Hooks run after the call; the ledger's `dying` set accounts for numbers the kernel reuses before the close is logged. Known finding KF-1 (pending registrations leak at shutdown) is reported as such.",
   tech="trace validation against TrFd.tla (TLA+ ledger specification checked by TLC); Conn.tla invariant NoFailedCheck"),
 "C19": dict(cat="model_checking", ref="DESIGN.md §4 C19",
   text="Control.tla is the state machine of the control API (never started / running / stopping / stopped x Validate, CountConnections, Dup, DupListener, Register variants, Execute, Enroll, Stop with live and expired contexts); TLC checks monotonicity and enumerates all call sequences up to length 4, each of which is replayed on a real engine with the result class compared; Stop(nil)-only-after-full-shutdown is also checked on the recorded shutdown races (TrLife.tla) and in Engine.tla (the flag Stop polls is only set after every loop has exited, every connection was closed and the listeners are gone), whose actions the recorded shutdowns are validated against (EngineTrace.tla).",
   note="Known finding KF-2 (Register during shutdown never yields a result; Engine.tla reproduces it) is reported as such. A runnable accepted by Execute while the engine is stopping may never run (neither C19 nor C03 promises otherwise). The poll interval of Engine.Stop is shortened through its package variable for the replay.",
   tech="TLA+ spec + TLC exhaustive; transition-cover replay of the TLC state graph on real engines; trace validation against TrLife.tla"),
 "C05": dict(cat="model_checking", ref="DESIGN.md §4 C05",
   text="Confinement is decided by TrLife.tla on recorded executions: every callback event carries the goroutine and the loop, and TLC checks that all callbacks of one loop run on one goroutine, that a connection never changes loops and that asynchronous callbacks run on the owning loop. Freedom from data races cannot be decided by a model that only sees hooked events: as an adjunct oracle the same scenarios plus an API hammer (SafeContext/SetSafeContext, Fd, Dup, socket options, CountConnections, Execute, Wake, Engine.Dup during start/stop) run under the Go race detector with the recorder off and a plain per-loop word written in every callback.",
   note="The race half is an adjunct (race detector on provoked schedules), named as such. Register with the RoundRobin balancer is documented as racy and not exercised.",
   tech="trace validation against TrLife.tla (TLA+ trace specification checked by TLC); adjunct: Go race detector"),
 "C08": dict(cat="model_checking", ref="DESIGN.md §4 C08",
   text="UDP engines ({udp, udp4, udp6} x IPv4/IPv6 loopback x {1, 3 loops} x {default, poll_opt}) receive datagrams of sizes 0..65507 from several senders with at most 4 in flight each; the handler consumes none / part / all and answers with Write and/or SendTo(another sender). The recorded execution is validated by TrUdp.tla: one OnTraffic per datagram (at most once always, exactly once at quiescence), payload and boundaries intact, InboundBuffered = payload length, no carry-over after partial consumption, RemoteAddr = sender, every reply exactly once, intact, at the socket it was addressed to.",
   note="Datagrams the kernel itself discarded on reception (the namespace's UDP InErrors counters, read around every life) were never received and are not demanded. Datagrams larger than the read buffer are outside the statement.",
   tech="trace validation against TrUdp.tla (TLA+ trace specification checked by TLC)"),
 "C18": dict(cat="fault_enumeration", ref="DESIGN.md §4 C18",
   text="One system-call fault per engine life is injected with strace into the event-loop thread (pinned with WithLockOSThread): {read, write, writev, epoll_ctl (call index raised until ADD, MOD and DEL have each been failed), epoll_wait, accept4} x errno x call index x {LT, ET}, while bystander connections carry checked traffic and a probe connection tests liveness afterwards. The recorded executions are validated by TrLife.tla (the failing connection is closed exactly once with an error, a write that reports an error has closed the connection, retryable errnos leave no trace, engine keeps running), TrFault.tla (a hard fault on an open connection's call owes it an OnClose with that error), TrIn/TrOut (bystanders' streams intact) and TrFd (descriptor released once).",
   note="Where each fault landed is read from strace's own log; a fault that landed on a write to the poller's eventfd is outside the property and that life is discarded. close(2), fatal accept errnos and non-EINTR epoll_wait errors are not injected (fatal by design / would fake leaks). Needs ptrace permission for strace; without it the check reports a machinery failure, not a verdict.",
   tech="strace fault enumeration on the real engine; trace validation against TrLife / TrFault / TrIn / TrOut / TrFd (TLA+ trace specifications checked by TLC)"),
}
NOT_YET = {}
for i in range(1, 21):
    pid = "C%02d" % i
    if pid not in CHECKS:
        NOT_YET[pid] = "check not built yet in this round (in progress; see DESIGN.md §8 build order)"

m = {
 "version": 1,
 "setup_cmd": "cd /verif && python3 tools/setup.py",
 "hooks": {"guard": "verif", "enable": "go test -tags verif -overlay <generated overlay.json> (vcheck builds every harness from /repo's working tree)",
           "baseline_off_cmd": BASELINE, "source_commits": [], "add_only": True},
 "engines": [{"name": "vcheck", "path": "/verif/vcheck", "serves_properties": sorted(CHECKS),
              "kind_free_text": "python driver: TLC model checking of specs/*.tla, transition-cover replay and trace validation against harnesses overlaid into /repo packages"}],
 "checks": [],
 "not_applicable": [{"property_id": k, "reason": v} for k, v in sorted(NOT_YET.items())],
 "notes": "exit 0 = held (KNOWN-FINDING / NONCONFORMANCE lines are informational), exit 1 = VIOLATION line printed, exit 2 = machinery failure",
}
hooks_file = os.path.join(V, "hooks_commits.txt")
if os.path.exists(hooks_file):
    m["hooks"]["source_commits"] = [l.split()[0] for l in open(hooks_file) if l.strip()]
for pid, c in sorted(CHECKS.items()):
    m["checks"].append({
      "property_id": pid, "quick_cmd": "./vcheck run %s --tier quick" % pid, "thorough_cmd": "./vcheck run %s --tier thorough" % pid,
      "evidence_file": "evidence/%s.json" % pid, "replay_cmd_template": "./vcheck replay {path}", "engine": "vcheck",
      "level_claimed": {"category": c["cat"], "text": c["text"], "design_ref": c["ref"]},
      "level_note": c["note"], "technique": c["tech"]})
json.dump(m, open(os.path.join(V, "MANIFEST.json"), "w"), indent=1)
print("MANIFEST.json:", len(m["checks"]), "checks,", len(m["not_applicable"]), "not_applicable")
