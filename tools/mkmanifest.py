#!/usr/bin/env python3
"""Regenerates MANIFEST.json from the table below (kept in one place so that it always validates)."""
import json, os
V = os.path.dirname(os.path.dirname(os.path.abspath(__file__)))
BASELINE = json.load(open("/root/.vp/BASELINE.json"))["cmd"] if os.path.exists("/root/.vp/BASELINE.json") else ""

CHECKS = {
 "C09": dict(cat="model_checking", ref="DESIGN.md §4 C09, §3.3",
   text="Ring.tla models ring.Buffer at representation level (size, r, w, isEmpty, cells); TLC checks the FIFO/accounting invariants in every reachable representation state and the labelled state graph is replayed edge by edge on the real ring.Buffer with a position-stamped FIFO oracle; a second configuration uses the real constants at byte granularity.",
   note="Trusted: TLC, the Go toolchain, the scripted io.Reader/io.Writer alphabet. Exhaustive for sizes in 256-byte units up to 6400 bytes; boundary byte sizes to depth 3; larger histories by trace validation.",
   tech="TLA+ spec + TLC exhaustive; transition-cover replay of the TLC state graph into the real object; trace validation"),
 "C10": dict(cat="model_checking", ref="DESIGN.md §4 C10, §3.3",
   text="Elastic.tla composes the ring algorithms (RingOps) and the list algorithms (ListOps) into elastic.RingBuffer/elastic.Buffer with lazy pooled allocation and the static-limit switch-over; TLC checks ring cell content, lazy-return and count invariants exhaustively; every labelled edge is replayed on a real elastic.Buffer against a stamped-byte FIFO oracle.",
   note="Trusted: TLC, Go toolchain, scripted reader/writer alphabet; the sync.Pool is primed so that lazy allocation is controlled (misses are counted and skipped). Writev with > 1024 segments is covered at connection level (C02).",
   tech="TLA+ spec + TLC exhaustive; transition-cover replay of the TLC state graph into the real object"),
 "C11": dict(cat="model_checking", ref="DESIGN.md §4 C11, §3.3",
   text="LList.tla models linkedlist.Buffer as the list of segment lengths over FIFO-normal-form content; TLC checks no-empty-node / count invariants over all operation sequences within the bounds; every labelled edge is replayed on a real linkedlist.Buffer, including the copy semantics of PushBack/PushFront (the harness scribbles over its slice after the call).",
   note="Trusted: TLC, Go toolchain, scripted reader/writer alphabet. Bounds: <= 4 segments, <= 12 units of 128 bytes, plus byte sizes around 512 to depth 3.",
   tech="TLA+ spec + TLC exhaustive; transition-cover replay of the TLC state graph into the real object"),
 "C12": dict(cat="model_checking", ref="DESIGN.md §4 C12, §3.7",
   text="Pools.tla is an ownership ledger of the byte-slice pool and the ring-buffer pool (arrays, handed-out slices, pooled regions per size class, sync.Pool free to drop or return anything); TLC checks no-alias / within-bounds invariants over all Get/Put/Drop interleavings; recorded histories of the real pools (single and multi goroutine, across GCs, tail re-slices, foreign and zero-capacity slices), with regions normalised to (array, offset, len, cap), are validated against the spec by TLC with every invariant evaluated at every event.",
   note="Trusted: TLC; the harness keeps all arrays alive so addresses identify arrays; sizes up to 2^20 (class arithmetic to 2^31 is covered by C20).",
   tech="TLA+ ledger spec + TLC exhaustive; trace validation of recorded pool histories (PoolsTrace.tla)"),
 "C14": dict(cat="model_checking", ref="DESIGN.md §4 C14, §3.6",
   text="ConnMatrix.tla transcribes addConn/delConn/getConn/iterate of the compacting registry (table, reverse index, per-connection position, next-slot pointer, per-row counts); TLC checks faithful-map, count, density and coherence invariants over all add/remove/lookup/iterate sequences; every labelled edge is replayed on the real registry of both builds (gc_opt matrix and default map), also with the real matrix pre-filled so that operations straddle the 65536-entry row boundary.",
   note="Trusted: TLC, Go toolchain. Model dimensions 2x3 (quick) / 3x3 (thorough) stand for 256x65536; observables (lookups of every descriptor, count, visited multiset) are compared, positions are not.",
   tech="TLA+ spec + TLC exhaustive; transition-cover replay of the TLC state graph into the real object (both build variants)"),
 "C15": dict(cat="model_checking", ref="DESIGN.md §4 C15, §3.5",
   text="LB.tla states the three policies (round-robin turn, least-connections arg-min, hash as an unknown but functional map into the registered loops); TLC checks range / fairness / functionality exhaustively for small engines; seeded histories of accepts and closes on the real balancers (1..256 loops, IPv4/IPv6-zone/Unix/empty addresses) are validated decision by decision against the spec by TLC.",
   note="Trusted: TLC. Least-connections is judged at quiescent points; which goroutine runs a connection's callbacks is C05's trace invariant.",
   tech="TLA+ spec + TLC exhaustive; trace validation of recorded balancer decisions (LBTrace.tla)"),
 "C16": dict(cat="exploration", ref="DESIGN.md §4 C16, §3.8",
   text="Addrs.tla is the executable definition of the listen-address grammar with the acceptable outcome classes per string and of the capacity / chunk / loop-count normalisation; TLC evaluates it into tables which are checked against parseProtoAddr, createListeners, NewClient, determineEventLoops and Run; seeded byte-level mutations of the generated strings check totality. No state machine is involved, hence exploration level.",
   note="Oracle defined in TLA+, evaluated by TLC; not model checking. Coverage-guided fuzzing is not used.",
   tech="TLA+-defined oracle tables evaluated by TLC, replayed in Go; seeded mutation for totality"),
 "C17": dict(cat="exploration", ref="DESIGN.md §4 C17",
   text="(a) conversion vectors (families x ports x zones, invalid lengths, unsupported networks) defined in Addrs.tla and evaluated by TLC are round-tripped through the real conversion functions; (b) the AddrStable invariant of the connection traces (peer's own view of its address vs RemoteAddr/LocalAddr at every callback under churn) is part of the system-level trace validation.",
   note="(a) is a TLA+-defined oracle, exploration level; zones: loopback interface name and numeric indices without interface.",
   tech="TLA+-defined oracle tables evaluated by TLC, replayed in Go; trace invariant for address stability"),
 "C20": dict(cat="exploration", ref="DESIGN.md §4 C20, §3.8",
   text="Tables.tla defines Ceil/Floor/Closest/IsPowerOfTwo, the size-class function and the GFD layout mathematically; TLC evaluates exact vectors (every n in -3..4100, 2^k+d for k<=62) and the interval table, with an ASSUME that the symbolic rules used above 2^30 agree with the mathematical definitions below; the Go harness checks every vector and sweeps every interval (all points up to 2^31 in the thorough tier, 2^22 plus 200k samples per larger interval in quick).",
   note="Pure functions: TLA+ serves as the executable definition, nothing is model-checked. ClosestPowerOfTwo domain 1..2^62.",
   tech="TLA+-defined oracle tables evaluated by TLC, replayed in Go; exhaustive 32-bit sweep against the interval table"),
 "C03": dict(cat="model_checking", ref="DESIGN.md §4 C03, §3.2",
   text="Poller.tla models Trigger / Polling at the granularity of the code segments between verif gates (threshold test, link, counter increment, CAS, eventfd write; epoll_wait, dequeue, counter decrement, run, store 0, re-check, self wake-up); TLC checks exec-at-most-once, no-lost-wake-up, high-priority FIFO and that every accepted task eventually runs, over all interleavings. Every labelled edge of the graph is executed as a schedule of the real Poller (both epoll variants) under a gate scheduler, with flag, queues, counters, executed tasks and the kernel's readiness of the epoll descriptor compared after every step; each schedule is then run to quiescence and judged by a state witness (loop parked before epoll_wait(-1), descriptor not ready, accepted task not run).",
   note="Trusted: TLC, sequentially consistent atomics, ET eventfd semantics (cross-checked with poll(2) at every step). kqueue pollers cannot be built here. System-level effects of AsyncWrite/Wake/Close/Execute are part of the connection traces.",
   tech="TLA+ spec + TLC exhaustive with liveness; TLC state graph replayed as controlled schedules of the real code (gate scheduler); state-witness oracle"),
 "C13": dict(cat="model_checking", ref="DESIGN.md §4 C13, §3.1",
   text="MSQueue.tla models the Michael-Scott queue one action per atomic load / CAS / counter update with the abstract FIFO as ghost state and assertions at the linearisation points; TLC checks linearizability, no loss / duplication, per-producer FIFO, the length-lag lemma and termination under weak fairness over all interleavings. Every labelled edge of the graph is executed as a schedule of the real queue under the gate scheduler with head / tail / next pointers and the counter compared after every step; call/return histories of these schedules, of seeded PCT schedules and of ungated stress windows are validated by QueueLin.tla, where TLC searches for a linearisation.",
   note="Trusted: TLC, sequentially consistent atomics, no ABA (GC). Bounds: 2 enqueuers x 1 + 1 dequeuer x 2 replayed; 2x2 + 2x2 model-checked in the thorough tier.",
   tech="TLA+ spec + TLC exhaustive with liveness; TLC state graph replayed as controlled schedules of the real code; trace validation with linearisation search (QueueLin.tla)"),
}
NOT_YET = {}
for i in range(1, 21):
    pid = "C%02d" % i
    if pid not in CHECKS:
        NOT_YET[pid] = "check not built yet in this round (in progress; see DESIGN.md §8 build order)"

m = {
 "version": 1,
 "setup_cmd": "cd /verif && python3 tools/setup.py",
 "hooks": {"guard": "verif", "enable": "go test -tags verif -overlay <generated overlay.json> (vcheck builds every harness from /repo's working tree)",
           "baseline_off_cmd": BASELINE, "source_commits": [], "add_only": True},
 "engines": [{"name": "vcheck", "path": "/verif/vcheck", "serves_properties": sorted(CHECKS),
              "kind_free_text": "python driver: TLC model checking of specs/*.tla, transition-cover replay and trace validation against harnesses overlaid into /repo packages"}],
 "checks": [],
 "not_applicable": [{"property_id": k, "reason": v} for k, v in sorted(NOT_YET.items())],
 "notes": "exit 0 = held (KNOWN-FINDING / NONCONFORMANCE lines are informational), exit 1 = VIOLATION line printed, exit 2 = machinery failure",
}
hooks_file = os.path.join(V, "hooks_commits.txt")
if os.path.exists(hooks_file):
    m["hooks"]["source_commits"] = [l.split()[0] for l in open(hooks_file) if l.strip()]
for pid, c in sorted(CHECKS.items()):
    m["checks"].append({
      "property_id": pid, "quick_cmd": "./vcheck run %s --tier quick" % pid, "thorough_cmd": "./vcheck run %s --tier thorough" % pid,
      "evidence_file": "evidence/%s.json" % pid, "replay_cmd_template": "./vcheck replay {path}", "engine": "vcheck",
      "level_claimed": {"category": c["cat"], "text": c["text"], "design_ref": c["ref"]},
      "level_note": c["note"], "technique": c["tech"]})
json.dump(m, open(os.path.join(V, "MANIFEST.json"), "w"), indent=1)
print("MANIFEST.json:", len(m["checks"]), "checks,", len(m["not_applicable"]), "not_applicable")
