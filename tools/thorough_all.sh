#!/bin/sh
# every thorough check once (seed 1), one line per check
cd "$(dirname "$0")/.."
for p in C01 C02 C03 C04 C05 C06 C07 C08 C09 C10 C11 C12 C13 C14 C15 C16 C17 C18 C19 C20; do
  t0=$(date +%s)
  out=$(VERIF_SEED=${VERIF_SEED:-1} timeout 10800 ./vcheck run $p --tier thorough 2>&1); rc=$?
  echo "thorough $p rc=$rc $(( $(date +%s) - t0 ))s $(echo "$out" | grep -E '^(VIOLATION|MACHINERY|KNOWN|NONCONF|  sig=)' | head -4 | cut -c1-200 | tr '\n' ' ')"
done
