#!/usr/bin/env python3
"""Print the table of seeded changes (DESIGN.md §7) from seeded/*/meta.json: what was changed, what it needs, which
check caught it (detection results recorded by tools/seedtest.py detect)."""
import json, glob, os, re, subprocess

NOTES = json.load(open(os.path.join(os.path.dirname(__file__), "seednotes.json")))


def short(s, n):
    s = " ".join(s.split())
    s = re.split(r"(?<=[a-z)\]`'\"])\. ", s)[0]
    return (s[:n - 1] + "…") if len(s) > n else s


rows = []
for d in sorted(x for x in glob.glob(os.path.join(os.path.dirname(__file__), "..", "seeded", "*")) if os.path.isdir(x)):
    sid = os.path.basename(d)
    m = json.load(open(os.path.join(d, "meta.json")))
    files = sorted(set(re.findall(r"^\+\+\+ b/(\S+)", open(os.path.join(d, "patch.diff")).read(), re.M)))
    det = m.get("detection", {})
    by = [k.split("/")[0] for k, v in det.items() if v.get("detected")]
    missed = [k.split("/")[0] for k, v in det.items() if not v.get("detected")]
    caught = ", ".join(sorted(set(by))) or "—"
    if m["property"] not in by and by:
        caught += " (not by %s's own check)" % m["property"]
    note = NOTES.get(sid, "")
    rows.append("| %s | %s | %s | %s | %s |" % (sid, ", ".join(os.path.basename(f) for f in files), short(m.get("summary", ""), 150).replace("|", "/"),
                                                 short(m.get("needs_to_manifest", ""), 120).replace("|", "/"), caught + ((" — " + note) if note else "")))
print("| id | file(s) | change | needs | caught by |")
print("|---|---|---|---|---|")
print("\n".join(rows))
