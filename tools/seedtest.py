#!/usr/bin/env python3
"""seedtest.py confirm <worktree> <mutdir>   : confirm a seeded change in its scratch worktree
       (patch applies, builds, demo fails with it and passes without it, touched packages' tests pass)
   seedtest.py detect <seeded-dir> [--tier quick] [props...] : apply seeded/<id>/patch.diff to /repo, run the
       checks of the given properties (default: the property in meta.json), undo; records the outcome in meta.json
   seedtest.py keep <mutdir> <id>            : copy a confirmed mutant into /verif/seeded/<id>/"""
import json, os, shutil, subprocess, sys, time

V = os.path.dirname(os.path.dirname(os.path.abspath(__file__)))
REPO = os.environ.get("VERIF_REPO", "/repo")
ENV = dict(os.environ, GOFLAGS="-mod=mod", GOPROXY="off", GOSUMDB="off", GOTOOLCHAIN="local")


def sh(cmd, cwd=None, timeout=1800):
    try:
        r = subprocess.run(cmd, shell=True, cwd=cwd, env=ENV, capture_output=True, text=True, timeout=timeout)
        return r.returncode, r.stdout + r.stderr
    except subprocess.TimeoutExpired as e:
        return -9, "TIMEOUT " + str(e)


def confirm(wt, mut):
    meta = json.load(open(os.path.join(mut, "meta.json")))
    res = {}
    sh("git checkout -- . && git clean -fdq -e _mut", wt)
    demo_dir = os.path.join(wt, meta["demo_pkg_dir"])
    demo_dst = os.path.join(demo_dir, "zz_demo_test.go")
    demos = [f for f in os.listdir(mut) if f.endswith("_test.go")]
    rc, out = sh("git apply --check %s/patch.diff" % mut, wt)
    res["applies"] = rc == 0
    if rc != 0:
        print(out); return res
    # clean tree: demo passes
    for f in demos:
        shutil.copy(os.path.join(mut, f), os.path.join(demo_dir, "zz_" + f))
    run = meta["demo_run"]
    rc, out = sh(run, wt, 400)
    res["demo_passes_clean"] = rc == 0
    res["demo_clean_tail"] = out[-400:]
    sh("git apply %s/patch.diff" % mut, wt)
    rc, out = sh("go build ./...", wt)
    res["builds"] = rc == 0
    rc, out = sh(run, wt, 400)
    res["demo_fails_mutant"] = rc != 0
    res["demo_mutant_tail"] = out[-600:]
    for f in demos:
        os.remove(os.path.join(demo_dir, "zz_" + f))
    # existing tests of the touched packages (non-root) / root subset in a private netns
    rc, files = sh("git diff --name-only", wt)
    pkgs = sorted({os.path.dirname(f) or "." for f in files.split()})
    ok = True
    ran = []
    for p in pkgs:
        if p == ".":
            cmd = "unshare -n sh -c 'ip link set lo up; timeout 1500 go test -count=1 -timeout 1400s -run \"TestServer|TestClient|TestEngineStop|TestShutdown|TestCloseConnection|TestWakeConn|TestTick|TestStopServer|TestCloseActionOnOpen|TestUDPShutdown\" .'"
            tags = ""
            if "conn_matrix.go" in files:
                cmd = cmd.replace("go test", "go test -tags gc_opt")
        else:
            cmd = "timeout 900 go test -count=1 ./%s/..." % p
        rc, out = sh(cmd, wt, 1700)
        ran.append({"cmd": cmd, "rc": rc, "tail": out[-300:]})
        ok = ok and rc == 0
    res["existing_tests_pass"] = ok
    res["existing_tests"] = ran
    sh("git checkout -- . && git clean -fdq -e _mut", wt)
    res["confirmed"] = all(res.get(k) for k in ("applies", "builds", "demo_passes_clean", "demo_fails_mutant", "existing_tests_pass"))
    json.dump(res, open(os.path.join(mut, "confirm.json"), "w"), indent=1)
    print(json.dumps({k: v for k, v in res.items() if not k.endswith("tail") and k != "existing_tests"}))
    return res


def keep(mut, sid):
    dst = os.path.join(V, "seeded", sid)
    os.makedirs(dst, exist_ok=True)
    for f in os.listdir(mut):
        shutil.copy(os.path.join(mut, f), dst)
    meta = json.load(open(os.path.join(dst, "meta.json")))
    if os.path.exists(os.path.join(dst, "confirm.json")):
        c = json.load(open(os.path.join(dst, "confirm.json")))
        meta["confirmed_by_me"] = {k: v for k, v in c.items() if not k.endswith("tail")}
        os.remove(os.path.join(dst, "confirm.json"))
    json.dump(meta, open(os.path.join(dst, "meta.json"), "w"), indent=1)
    print("kept", dst)


def detect(sdir, tier, props):
    meta = json.load(open(os.path.join(sdir, "meta.json")))
    props = props or [meta["property"]]
    rc, out = sh("git status --porcelain", REPO)
    if out.strip():
        print("/repo is dirty, refusing"); sys.exit(2)
    rc, out = sh("git apply %s/patch.diff" % os.path.abspath(sdir), REPO)
    if rc != 0:
        rc, out = sh("git apply --3way %s/patch.diff" % os.path.abspath(sdir), REPO)
        if rc != 0:
            print("patch does not apply:", out); sh("git checkout -- . ; git reset -q", REPO); sys.exit(2)
        sh("git reset -q", REPO)
    results = meta.get("detection", {})
    try:
        for p in props:
            t0 = time.time()
            rc, out = sh("./vcheck run %s --tier %s" % (p, tier), V, 3600)
            lines = [l for l in out.splitlines() if l.startswith(("VIOLATION", "  sig=", "MACHINERY", "RESULT", "KNOWN"))]
            results["%s/%s" % (p, tier)] = {"exit": rc, "detected": rc == 1, "wall_s": round(time.time() - t0, 1), "lines": lines[:8]}
            print(p, tier, "exit", rc, "DETECTED" if rc == 1 else "missed", "; ".join(lines[:3]))
    finally:
        sh("git checkout -- .", REPO)
    meta["detection"] = results
    json.dump(meta, open(os.path.join(sdir, "meta.json"), "w"), indent=1)


if __name__ == "__main__":
    if sys.argv[1] == "confirm":
        confirm(sys.argv[2], sys.argv[3])
    elif sys.argv[1] == "keep":
        keep(sys.argv[2], sys.argv[3])
    elif sys.argv[1] == "detect":
        args = sys.argv[2:]
        tier = "quick"
        if "--tier" in args:
            i = args.index("--tier"); tier = args[i + 1]; del args[i:i + 2]
        detect(args[0], tier, args[1:])
