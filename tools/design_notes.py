#!/usr/bin/env python3
"""Rewrite the bullet list "What the misses taught" of DESIGN.md §7 from tools/seednotes.json (sorted by id)."""
import json, os, re
V = os.path.dirname(os.path.dirname(os.path.abspath(__file__)))
notes = json.load(open(os.path.join(V, "tools", "seednotes.json")))
p = os.path.join(V, "DESIGN.md")
s = open(p).read()
m = re.search(r"(\* \*\*C\d\d-[a-z]m\d\*\* — .*\n)+", s)
bul = "".join("* **%s** — %s\n" % (k, notes[k]) for k in sorted(notes))
s = s[:m.start()] + bul + s[m.end():]
open(p, "w").write(s)
print(len(notes), "notes")
