#!/usr/bin/env python3
"""MANIFEST.setup_cmd: nothing to download or compile ahead of time (harnesses are compiled by `go test`
from /repo's working tree at check time); verify the tool chain and warm the Go build cache."""
import os, subprocess, sys
env = dict(os.environ, GOFLAGS="-mod=mod", GOPROXY="off", GOSUMDB="off", GOTOOLCHAIN="local")
ok = True
for cmd in (["java", "-version"], ["go", "version"]):
    try:
        subprocess.run(cmd, check=True, capture_output=True)
    except Exception as e:
        print("missing tool:", cmd, e); ok = False
r = subprocess.run(["go", "build", "./..."], cwd=os.environ.get("VERIF_REPO", "/repo"), env=env, capture_output=True, text=True)
if r.returncode != 0:
    print(r.stdout, r.stderr); ok = False
os.makedirs(os.path.join(os.path.dirname(os.path.dirname(os.path.abspath(__file__))), "evidence"), exist_ok=True)
print("setup ok" if ok else "setup FAILED")
sys.exit(0 if ok else 1)
