------------------------------- MODULE Engine -------------------------------
(***************************************************************************)
(* Design model of one gnet engine: acceptors, hand-off of accepted        *)
(* sockets to sub-loops through their task queues, the sources of a        *)
(* shutdown, the steps of engine.stop, the ticker, and registrations       *)
(* through Engine.Register.  One action per critical section of            *)
(* engine_unix.go / acceptor_unix.go / reactor_default.go / the task part  *)
(* of eventloop_unix.go:                                                   *)
(*                                                                         *)
(*   Connect        a peer's connection reaches a listener's backlog       *)
(*   Accept         accept0: accept(2) on the main reactor, next() picks   *)
(*                  the sub-loop                                           *)
(*   Enqueue        accept0: Trigger(HighPriority, el.register, c)         *)
(*   AcceptOwn      reuse-port mode: accept(2) + register0 + OnOpen on the *)
(*                  loop that owns the listener                            *)
(*   RunTask        a loop takes the head of its task queue: register a    *)
(*                  socket (OnOpen) or the exit signal                     *)
(*   Traffic/PeerClose  callbacks whose action may be Close or Shutdown    *)
(*   LoopFail       Polling returns an error (C18 faults)                  *)
(*   CloseOne/LoopDone  closeConns, then engine.shutdown(err)              *)
(*   StopCall       Engine.Stop / gnet.Stop: cancel the root context       *)
(*   S1..S6, RunReturn  engine.stop: wait for the context, OnShutdown,     *)
(*                  exit signal to every loop (sub-loops first, the main   *)
(*                  reactor last), errgroup.Wait, closeEventLoops,         *)
(*                  inShutdown.Store(true), Run returns                    *)
(*   Tick/TickerExit the ticker goroutine                                  *)
(*   RegCall/RegEnqueue  Engine.Register: dial + dup on a worker goroutine,*)
(*                  Trigger(LowPriority, el.register, ccb), the result is  *)
(*                  delivered by the callback the task runs                *)
(*                                                                         *)
(* Deliberate deviations of the code, modelled as they are:                *)
(*  - tasks queued behind the exit signal are never run: a socket whose    *)
(*    `reg` task is behind it stays open for ever (KF-1) and a registration*)
(*    whose task is behind it never delivers its result (KF-2).  The       *)
(*    invariants NoLeak and RegsAnswered state the strict reading and are  *)
(*    violated (configuration Engine_kf.cfg shows the shortest histories); *)
(*    LeakOnlyBehindExit and UnansweredOnlyBehindExit state what does hold.*)
(***************************************************************************)
EXTENDS Integers, Sequences, FiniteSets, TLC

CONSTANTS NLoops,     \* number of sub-loops
          MaxConns,   \* connections peers may make
          MaxRegs,    \* Engine.Register calls
          ReusePort,  \* TRUE: every loop owns a listener, no main reactor
          Ticker,     \* WithTicker(true)
          LB,         \* "rr": the acceptor hands connections to the sub-loops cyclically (Round-Robin); "any": some registered loop
          Sources     \* who may ask for the shutdown: subset of {"stop","open","traffic","close","tick","fail","boot"}

Loops == 1..NLoops
Main == 0
Acceptors == IF ReusePort THEN Loops ELSE {Main}
AllLoops == IF ReusePort THEN Loops ELSE Loops \cup {Main}
AcceptedIds == 1..MaxConns
Regs == (MaxConns + 1)..(MaxConns + MaxRegs)
Conns == AcceptedIds \cup Regs
TickLoop == IF ReusePort THEN 1 ELSE Main
Exit == <<"exit">>

VARIABLES ctx, backlog, made, lnOpen, cst, loopOf, q, lst, tk, tickShut,
          stop, trig, inShutdown, returned, nShut, regres,
          rr          \* the Round-Robin balancer's cursor (the loop the next accepted connection goes to)
vars == <<ctx, backlog, made, lnOpen, cst, loopOf, q, lst, tk, tickShut, stop, trig, inShutdown, returned, nShut, regres, rr>>

TypeOK ==
    /\ ctx \in BOOLEAN /\ lnOpen \in BOOLEAN /\ inShutdown \in BOOLEAN /\ returned \in BOOLEAN /\ tickShut \in BOOLEAN
    /\ backlog \in [Acceptors -> 0..MaxConns] /\ made \in 0..MaxConns
    /\ cst \in [Conns -> {"none", "accepted", "queued", "open", "closed", "orphan"}]
    /\ loopOf \in [Conns -> Loops \cup {-1}]
    /\ lst \in [AllLoops -> {"polling", "closing", "exited", "unborn"}]
    /\ tk \in {"off", "sleep", "exited"}
    /\ stop \in {"unborn", "idle", "onshutdown", "trigger", "wait", "closeloops", "flag", "done"}
    /\ trig \in 1..(NLoops + 1) /\ nShut \in 0..2
    /\ regres \in [Regs -> {"none", "pending", "delivered"}]
    /\ rr \in Loops

Booted ==
    /\ ctx = FALSE /\ backlog = [a \in Acceptors |-> 0] /\ made = 0 /\ lnOpen = TRUE
    /\ cst = [c \in Conns |-> "none"] /\ loopOf = [c \in Conns |-> -1]
    /\ q = [i \in AllLoops |-> <<>>] /\ lst = [i \in AllLoops |-> "polling"]
    /\ tk = (IF Ticker THEN "sleep" ELSE "off") /\ tickShut = FALSE
    /\ stop = "idle" /\ trig = 1 /\ inShutdown = FALSE /\ returned = FALSE /\ nShut = 0
    /\ regres = [r \in Regs |-> "none"] /\ rr = 1
\* OnBoot returned Shutdown: Run returns nil, nothing was started and nothing will be
BootStopped ==
    /\ "boot" \in Sources
    /\ ctx = FALSE /\ backlog = [a \in Acceptors |-> 0] /\ made = 0 /\ lnOpen = FALSE
    /\ cst = [c \in Conns |-> "none"] /\ loopOf = [c \in Conns |-> -1]
    /\ q = [i \in AllLoops |-> <<>>] /\ lst = [i \in AllLoops |-> "unborn"]
    /\ tk = "off" /\ tickShut = FALSE
    /\ stop = "unborn" /\ trig = 1 /\ inShutdown = FALSE /\ returned = TRUE /\ nShut = 0
    /\ regres = [r \in Regs |-> "none"] /\ rr = 1
Init == Booted \/ BootStopped

OpenOn(i) == {c \in Conns : cst[c] = "open" /\ loopOf[c] = i}
Actions(src) == {"none", "close"} \cup (IF src \in Sources THEN {"shutdown"} ELSE {})

------------------------------------------------------------------------------
\* peers
Connect(a) ==
    /\ lnOpen /\ made < MaxConns /\ a \in Acceptors
    /\ backlog' = [backlog EXCEPT ![a] = @ + 1] /\ made' = made + 1
    /\ UNCHANGED <<ctx, lnOpen, cst, loopOf, q, lst, tk, tickShut, stop, trig, inShutdown, returned, nShut, regres, rr>>

\* the next unused connection id (ids are handed out in accept order)
NextConn == IF \E c \in AcceptedIds : cst[c] = "none" THEN CHOOSE c \in AcceptedIds : cst[c] = "none" /\ \A d \in AcceptedIds : d < c => cst[d] # "none" ELSE 0

\* the effect of OnOpen returning action a for connection c on loop i
Opened(i, c, a) ==
    /\ cst' = [cst EXCEPT ![c] = IF a = "close" THEN "closed" ELSE "open"]
    /\ lst' = [lst EXCEPT ![i] = IF a = "shutdown" THEN "closing" ELSE @]

\* main reactor: accept0 accepts and picks the loop ...
Accept(c, i) ==
    /\ ~ReusePort /\ lst[Main] = "polling" /\ backlog[Main] > 0 /\ c = NextConn /\ c # 0 /\ i \in Loops
    /\ (LB = "rr" => i = rr)
    /\ \A d \in AcceptedIds : cst[d] # "accepted"
    /\ backlog' = [backlog EXCEPT ![Main] = @ - 1]
    /\ cst' = [cst EXCEPT ![c] = "accepted"] /\ loopOf' = [loopOf EXCEPT ![c] = i]
    /\ rr' = (IF LB = "rr" THEN (rr % NLoops) + 1 ELSE rr)
    /\ UNCHANGED <<ctx, made, lnOpen, q, lst, tk, tickShut, stop, trig, inShutdown, returned, nShut, regres>>
\* ... and hands the socket to it, whatever the state of that loop
Enqueue(c) ==
    /\ c \in AcceptedIds /\ cst[c] = "accepted"
    /\ cst' = [cst EXCEPT ![c] = "queued"]
    /\ q' = [q EXCEPT ![loopOf[c]] = Append(@, <<"reg", c>>)]
    /\ UNCHANGED <<ctx, backlog, made, lnOpen, loopOf, lst, tk, tickShut, stop, trig, inShutdown, returned, nShut, regres, rr>>

\* reuse-port mode: the loop accepts and registers in one go
AcceptOwn(i, c, a) ==
    /\ ReusePort /\ i \in Loops /\ lst[i] = "polling" /\ backlog[i] > 0 /\ c = NextConn /\ c # 0 /\ a \in Actions("open")
    /\ backlog' = [backlog EXCEPT ![i] = @ - 1]
    /\ loopOf' = [loopOf EXCEPT ![c] = i]
    /\ Opened(i, c, a)
    /\ UNCHANGED <<ctx, made, lnOpen, q, tk, tickShut, stop, trig, inShutdown, returned, nShut, regres, rr>>

\* a sub-loop runs the head of its queue
RunReg(i, c, a) ==
    /\ i \in Loops /\ lst[i] = "polling" /\ q[i] # <<>> /\ Head(q[i])[1] \in {"reg", "regcb"} /\ c = Head(q[i])[2]
    /\ a \in Actions("open")
    /\ q' = [q EXCEPT ![i] = Tail(@)]
    /\ Opened(i, c, a)
    /\ regres' = IF Head(q[i])[1] = "regcb" THEN [regres EXCEPT ![c] = "delivered"] ELSE regres
    /\ UNCHANGED <<ctx, backlog, made, lnOpen, loopOf, tk, tickShut, stop, trig, inShutdown, returned, nShut, rr>>
RunExit(i) ==
    /\ i \in AllLoops /\ lst[i] = "polling" /\ q[i] # <<>> /\ Head(q[i]) = Exit
    \* the main reactor is not inside accept0 when it runs its tasks
    /\ i = Main => \A d \in AcceptedIds : cst[d] # "accepted"
    /\ q' = [q EXCEPT ![i] = Tail(@)]
    /\ lst' = [lst EXCEPT ![i] = IF i = Main /\ ~ReusePort THEN "exited" ELSE "closing"]
    /\ ctx' = (IF i = Main /\ ~ReusePort THEN TRUE ELSE ctx)
    /\ UNCHANGED <<backlog, made, lnOpen, cst, loopOf, tk, tickShut, stop, trig, inShutdown, returned, nShut, regres, rr>>

\* callbacks on an open connection
Traffic(i, c, a) ==
    /\ i \in Loops /\ lst[i] = "polling" /\ c \in OpenOn(i) /\ a \in Actions("traffic") \ {"none"}
    /\ cst' = [cst EXCEPT ![c] = IF a = "close" THEN "closed" ELSE @]
    /\ lst' = [lst EXCEPT ![i] = IF a = "shutdown" THEN "closing" ELSE @]
    /\ UNCHANGED <<ctx, backlog, made, lnOpen, loopOf, q, tk, tickShut, stop, trig, inShutdown, returned, nShut, regres, rr>>
\* the rest of a callback that has closed its own connection (EventLoop.Close from inside OnTraffic: its OnClose
\* has run, the connection is gone) and then answers Shutdown: the action of a callback counts whatever the
\* callback did to its connection
TrafficSelfClosed(i, c) ==
    /\ i \in Loops /\ lst[i] = "polling" /\ cst[c] = "closed" /\ loopOf[c] = i /\ "shutdown" \in Actions("traffic")
    /\ lst' = [lst EXCEPT ![i] = "closing"]
    /\ UNCHANGED <<ctx, backlog, made, lnOpen, cst, loopOf, q, tk, tickShut, stop, trig, inShutdown, returned, nShut, regres, rr>>
PeerClose(i, c, a) ==
    /\ i \in Loops /\ lst[i] = "polling" /\ c \in OpenOn(i) /\ a \in Actions("close") \ {"close"}
    /\ cst' = [cst EXCEPT ![c] = "closed"]
    /\ lst' = [lst EXCEPT ![i] = IF a = "shutdown" THEN "closing" ELSE @]
    /\ UNCHANGED <<ctx, backlog, made, lnOpen, loopOf, q, tk, tickShut, stop, trig, inShutdown, returned, nShut, regres, rr>>
LoopFail(i) ==
    /\ "fail" \in Sources /\ i \in AllLoops /\ lst[i] = "polling"
    /\ i = Main => \A d \in AcceptedIds : cst[d] # "accepted"
    /\ lst' = [lst EXCEPT ![i] = IF i = Main /\ ~ReusePort THEN "exited" ELSE "closing"]
    /\ ctx' = (IF i = Main /\ ~ReusePort THEN TRUE ELSE ctx)
    /\ UNCHANGED <<backlog, made, lnOpen, cst, loopOf, q, tk, tickShut, stop, trig, inShutdown, returned, nShut, regres, rr>>

\* the loop has left Polling: closeConns, then engine.shutdown
CloseOne(i, c) ==
    /\ i \in Loops /\ lst[i] = "closing" /\ c \in OpenOn(i)
    /\ cst' = [cst EXCEPT ![c] = "closed"]
    /\ UNCHANGED <<ctx, backlog, made, lnOpen, loopOf, q, lst, tk, tickShut, stop, trig, inShutdown, returned, nShut, regres, rr>>
LoopDone(i) ==
    /\ i \in Loops /\ lst[i] = "closing" /\ OpenOn(i) = {}
    /\ lst' = [lst EXCEPT ![i] = "exited"] /\ ctx' = TRUE
    /\ UNCHANGED <<backlog, made, lnOpen, cst, loopOf, q, tk, tickShut, stop, trig, inShutdown, returned, nShut, regres, rr>>

\* Engine.Stop / gnet.Stop from anywhere
StopCall ==
    /\ "stop" \in Sources /\ stop = "idle" /\ ~ctx
    /\ ctx' = TRUE
    /\ UNCHANGED <<backlog, made, lnOpen, cst, loopOf, q, lst, tk, tickShut, stop, trig, inShutdown, returned, nShut, regres, rr>>

\* engine.stop
S1 == /\ stop = "idle" /\ ctx /\ stop' = "onshutdown"
      /\ UNCHANGED <<ctx, backlog, made, lnOpen, cst, loopOf, q, lst, tk, tickShut, trig, inShutdown, returned, nShut, regres, rr>>
S2 == /\ stop = "onshutdown" /\ stop' = "trigger" /\ nShut' = nShut + 1
      /\ UNCHANGED <<ctx, backlog, made, lnOpen, cst, loopOf, q, lst, tk, tickShut, trig, inShutdown, returned, regres, rr>>
S3 == /\ stop = "trigger"
      /\ IF trig <= NLoops
         THEN /\ q' = [q EXCEPT ![trig] = Append(@, Exit)] /\ trig' = trig + 1 /\ stop' = stop
         ELSE /\ q' = (IF ReusePort THEN q ELSE [q EXCEPT ![Main] = Append(@, Exit)]) /\ trig' = trig /\ stop' = "wait"
      /\ UNCHANGED <<ctx, backlog, made, lnOpen, cst, loopOf, lst, tk, tickShut, inShutdown, returned, nShut, regres, rr>>
S4 == /\ stop = "wait" /\ \A i \in AllLoops : lst[i] = "exited" /\ tk \in {"off", "exited"}
      /\ stop' = "closeloops"
      /\ UNCHANGED <<ctx, backlog, made, lnOpen, cst, loopOf, q, lst, tk, tickShut, trig, inShutdown, returned, nShut, regres, rr>>
S5 == /\ stop = "closeloops" /\ stop' = "flag" /\ lnOpen' = FALSE
      /\ UNCHANGED <<ctx, backlog, made, cst, loopOf, q, lst, tk, tickShut, trig, inShutdown, returned, nShut, regres, rr>>
S6 == /\ stop = "flag" /\ stop' = "done" /\ inShutdown' = TRUE
      /\ UNCHANGED <<ctx, backlog, made, lnOpen, cst, loopOf, q, lst, tk, tickShut, trig, returned, nShut, regres, rr>>
RunReturn == /\ stop = "done" /\ ~returned /\ returned' = TRUE
             /\ UNCHANGED <<ctx, backlog, made, lnOpen, cst, loopOf, q, lst, tk, tickShut, stop, trig, inShutdown, nShut, regres, rr>>

\* the ticker goroutine: OnTick, then wait for the timer or the context
TickShutdown ==
    /\ tk = "sleep" /\ "tick" \in Sources /\ ~tickShut
    /\ tickShut' = TRUE /\ q' = [q EXCEPT ![TickLoop] = Append(@, Exit)]
    /\ UNCHANGED <<ctx, backlog, made, lnOpen, cst, loopOf, lst, tk, stop, trig, inShutdown, returned, nShut, regres, rr>>
TickerExit ==
    /\ tk = "sleep" /\ ctx /\ tk' = "exited"
    /\ UNCHANGED <<ctx, backlog, made, lnOpen, cst, loopOf, q, lst, tickShut, stop, trig, inShutdown, returned, nShut, regres, rr>>

\* Engine.Register(addr): Validate, then a worker dials, dups and enqueues the registration
RegCall(r, i) ==
    /\ r \in Regs /\ i \in Loops /\ regres[r] = "none" /\ ~inShutdown /\ stop # "unborn"
    /\ regres' = [regres EXCEPT ![r] = "pending"]
    /\ cst' = [cst EXCEPT ![r] = "accepted"] /\ loopOf' = [loopOf EXCEPT ![r] = i]
    /\ rr' \in Loops   \* Register goes through the balancer as well, from its caller's goroutine: with Round-Robin the cursor is shared without synchronisation (documented), so it may end up anywhere
    /\ UNCHANGED <<ctx, backlog, made, lnOpen, q, lst, tk, tickShut, stop, trig, inShutdown, returned, nShut>>
RegEnqueue(r) ==
    /\ r \in Regs /\ cst[r] = "accepted"
    /\ IF lnOpen  \* the pollers are still open: Trigger succeeds
       THEN /\ cst' = [cst EXCEPT ![r] = "queued"] /\ q' = [q EXCEPT ![loopOf[r]] = Append(@, <<"regcb", r>>)] /\ regres' = regres
       ELSE /\ cst' = [cst EXCEPT ![r] = "orphan"] /\ q' = q /\ regres' = [regres EXCEPT ![r] = "delivered"]
    /\ UNCHANGED <<ctx, backlog, made, lnOpen, loopOf, lst, tk, tickShut, stop, trig, inShutdown, returned, nShut, rr>>

Next ==
    \/ \E a \in Acceptors : Connect(a)
    \/ \E c \in AcceptedIds, i \in Loops : Accept(c, i)
    \/ \E c \in AcceptedIds : Enqueue(c)
    \/ \E i \in Loops, c \in AcceptedIds, a \in {"none", "close", "shutdown"} : AcceptOwn(i, c, a)
    \/ \E i \in Loops, c \in Conns, a \in {"none", "close", "shutdown"} : RunReg(i, c, a)
    \/ \E i \in AllLoops : RunExit(i)
    \/ \E i \in Loops, c \in Conns, a \in {"close", "shutdown"} : Traffic(i, c, a)
    \/ \E i \in Loops, c \in Conns : TrafficSelfClosed(i, c)
    \/ \E i \in Loops, c \in Conns, a \in {"none", "shutdown"} : PeerClose(i, c, a)
    \/ \E i \in AllLoops : LoopFail(i)
    \/ \E i \in Loops, c \in Conns : CloseOne(i, c)
    \/ \E i \in Loops : LoopDone(i)
    \/ StopCall \/ S1 \/ S2 \/ S3 \/ S4 \/ S5 \/ S6 \/ RunReturn
    \/ TickShutdown \/ TickerExit
    \/ \E r \in Regs, i \in Loops : RegCall(r, i)
    \/ \E r \in Regs : RegEnqueue(r)

\* fairness: loops, the stop goroutine and the ticker keep running; peers and users owe nothing
Fair ==
    /\ \A i \in AllLoops : WF_vars(RunExit(i))
    /\ \A i \in Loops : WF_vars(\E c \in Conns, a \in {"none", "close"} : RunReg(i, c, a))
    /\ \A i \in Loops : WF_vars(\E c \in Conns : CloseOne(i, c)) /\ WF_vars(LoopDone(i))
    /\ \A c \in AcceptedIds : WF_vars(Enqueue(c))
    /\ WF_vars(S1) /\ WF_vars(S2) /\ WF_vars(S3) /\ WF_vars(S4) /\ WF_vars(S5) /\ WF_vars(S6) /\ WF_vars(RunReturn)
    /\ WF_vars(TickerExit)
Spec == Init /\ [][Next]_vars /\ Fair

------------------------------------------------------------------------------
\* C06
OnShutdownOnce == nShut <= 1 /\ (returned /\ stop # "unborn" => nShut = 1) /\ (stop = "unborn" => nShut = 0)
Past4 == stop \in {"closeloops", "flag", "done"}
AllOpenedClosedBeforeReturn == Past4 => \A c \in Conns : cst[c] # "open"
NothingRunsAfterReturn == Past4 => (\A i \in AllLoops : lst[i] = "exited") /\ tk \in {"off", "exited"}
BootShutdownStartsNothing == stop = "unborn" => returned /\ (\A c \in Conns : cst[c] = "none") /\ (\A i \in AllLoops : lst[i] = "unborn")
\* the exit signal reaches the sub-loops before the main reactor
MainLast == (~ReusePort /\ lst[Main] = "exited" /\ stop \in {"idle", "onshutdown"}) => ctx
\* C15: with Round-Robin (and no Register interfering) the accepted connections are spread evenly: after k*N accepts every
\* loop has received exactly k
Assigned(i) == Cardinality({c \in AcceptedIds : cst[c] # "none" /\ loopOf[c] = i})
RRBalanced == (LB = "rr" /\ ~ReusePort /\ MaxRegs = 0) => \A i, j \in Loops : Assigned(i) - Assigned(j) \in {-1, 0, 1} /\ (i < j => Assigned(i) >= Assigned(j))
\* C07: the listeners are closed only once no loop can be told about them any more (they are polled by number)
ListenersOutliveLoops == (~lnOpen /\ stop # "unborn") => \A i \in AllLoops : lst[i] = "exited"
\* C19: Stop returns nil only when inShutdown is set
InShutdownMeansDone == inShutdown => /\ \A i \in AllLoops : lst[i] = "exited"
                                     /\ \A c \in Conns : cst[c] # "open"
                                     /\ ~lnOpen /\ nShut = 1
\* C06 liveness: once the shutdown is requested, Run returns
Termination == ctx ~> returned
\* every loop that has left Polling gets to close its connections
LoopsFinish == \A i \in Loops : (lst[i] = "closing") ~> (lst[i] = "exited")

\* C07 at the design level, strict reading (violated: KF-1) and what does hold
BehindExit(c) == cst[c] = "queued" /\ \E k \in 1..Len(q[loopOf[c]]) : q[loopOf[c]][k][1] \in {"reg", "regcb"} /\ q[loopOf[c]][k][2] = c
NoLeak == returned => \A c \in AcceptedIds : cst[c] \in {"none", "closed"}
LeakOnlyBehindExit == returned => \A c \in AcceptedIds : cst[c] \in {"none", "closed"} \/ BehindExit(c)
QueuedIsInQueue == \A c \in Conns : cst[c] = "queued" => BehindExit(c)
\* C19 Register: one result per call, strict reading (violated: KF-2) and what does hold
RegsAnswered == returned => \A r \in Regs : regres[r] # "pending" \/ cst[r] = "accepted"
UnansweredOnlyBehindExit == returned => \A r \in Regs : regres[r] = "pending" => (cst[r] = "accepted" \/ BehindExit(r))
RegDeliveredOnce == [][\A r \in Regs : regres[r] = "delivered" => regres'[r] = "delivered"]_vars
=============================================================================
