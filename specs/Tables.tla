------------------------------- MODULE Tables -------------------------------
(***************************************************************************)
(* Executable definitions of the pure arithmetic of pkg/math, of the       *)
(* byte-slice pool's size-class function and of the GFD identifier layout  *)
(* (C20).  These are functions, not state machines: TLC only evaluates the *)
(* definitions and writes vector tables that the Go harness checks against *)
(* the real functions.                                                     *)
(*                                                                         *)
(* TLC integers are 32-bit, the code's are 64-bit: an argument is the pair *)
(* (k, d) standing for 2^k + d.  For k <= 30 the expected values come from *)
(* the mathematical definitions below evaluated on the number itself; for  *)
(* k > 30 from the symbolic rules, and the ASSUME checks that the symbolic *)
(* rules agree with the mathematical definitions wherever both apply.      *)
(***************************************************************************)
EXTENDS Integers, Sequences, FiniteSets, TLC, Json

RECURSIVE Pow2(_)
Pow2(k) == IF k = 0 THEN 1 ELSE 2 * Pow2(k - 1)
Val(k, d) == Pow2(k) + d                     \* only for k <= 30
Pows == {Pow2(k) : k \in 0..30}

(* ---- mathematical definitions (n within TLC's range) ---- *)
IsPow2(n)  == n \in Pows
Ceil(n)    == LET m == IF n < 2 THEN 2 ELSE n IN CHOOSE p \in Pows : p >= m /\ \A q \in Pows : q >= m => p <= q
Floor(n)   == IF n <= 2 THEN n ELSE CHOOSE p \in Pows : p <= n /\ \A q \in Pows : q <= n => q <= p
Closest(n) == LET up == Ceil(n) dn == up \div 2 IN IF n - dn < up - n THEN dn ELSE up    \* n >= 1, tie -> upper
ClassOf(n) == CHOOSE c \in 0..30 : Pow2(c) >= n /\ \A e \in 0..30 : Pow2(e) >= n => c <= e   \* n in 1..2^30

(* ---- symbolic rules on (k, d) with |d| < 2^(k-1), k >= 3 ---- *)
\* result is again a pair (k', 0) i.e. a power of two, or "same" (the argument itself)
SCeil(k, d)    == IF d <= 0 THEN <<k, 0>> ELSE <<k + 1, 0>>
SFloor(k, d)   == IF d >= 0 THEN <<k, 0>> ELSE <<k - 1, 0>>
\* distance to 2^k is |d|, to the other neighbour 2^(k-1)-|d| (below) or 2^k-d (above); |d| small => 2^k
SClosest(k, d) == <<k, 0>>
SIsPow2(k, d)  == d = 0
SClass(k, d)   == IF d <= 0 THEN k ELSE k + 1

SmallD == {-2, -1, 0, 1, 2}
ASSUME \A k \in 4..29, d \in SmallD :
        /\ Ceil(Val(k, d)) = Pow2(SCeil(k, d)[1])
        /\ Floor(Val(k, d)) = Pow2(SFloor(k, d)[1])
        /\ Closest(Val(k, d)) = Pow2(SClosest(k, d)[1])
        /\ IsPow2(Val(k, d)) = SIsPow2(k, d)
        /\ ClassOf(Val(k, d)) = SClass(k, d)

(* ---- vector tables ---- *)
\* small arguments, exact: every n in -3..4100
SmallVectors ==
    [n \in 1..4104 |->
        LET v == n - 4 IN
        [n |-> v, ispow2 |-> IsPow2(v), ceil |-> Ceil(v), floor |-> Floor(v),
         closest |-> IF v >= 1 THEN Closest(v) ELSE -1,
         class |-> IF v >= 1 THEN ClassOf(v) ELSE -1]]

\* around every power of two up to 2^62: argument 2^k + d, results as exponents
Ks == 4..62
BigVectors ==
    LET S == {<<k, d>> : k \in Ks, d \in SmallD} IN
    { [k |-> p[1], d |-> p[2], ispow2 |-> SIsPow2(p[1], p[2]),
       ceilk |-> SCeil(p[1], p[2])[1], floork |-> SFloor(p[1], p[2])[1],
       closestk |-> SClosest(p[1], p[2])[1], classk |-> IF p[1] <= 30 THEN SClass(p[1], p[2]) ELSE -1] : p \in S }

\* negative arguments down to the smallest int: n = -(2^k) + d, k up to 63 (d >= 0 there).  None is a power of two,
\* the smallest power of two that is at least max(n, 2) is 2, and Floor returns its argument (n <= 2)
NegVectors == { [k |-> k, d |-> d, ispow2 |-> FALSE, ceil |-> 2] : k \in 1..63, d \in SmallD } \ { [k |-> 63, d |-> d, ispow2 |-> FALSE, ceil |-> 2] : d \in {-2, -1} }
ASSUME \A k \in 1..29, d \in SmallD : LET v == d - Pow2(k) IN ~IsPow2(v) /\ Ceil(v) = 2 /\ Floor(v) = v

\* interval table: on (2^(k-1), 2^k] Ceil is 2^k and the class is k; on [2^k, 2^(k+1)) Floor is 2^k;
\* Closest is 2^k on [2^k - 2^(k-2) , 2^k + 2^(k-1) ) with the tie 2^k + 2^(k-1) going up
Intervals == { [k |-> k] : k \in 2..62 }

\* GFD layout: |loop 1 byte|row 1 byte|column 2 bytes|sequence 4 bytes|fd 8 bytes|, big endian
GFDFields ==
    { [fd |-> f, loop |-> l, row |-> r, col |-> c] :
        f \in {0, 1, 3, 255, 256, 65535, 65536, 2147483647}, l \in {0, 1, 127, 255}, r \in {0, 1, 128, 255}, c \in {0, 1, 255, 256, 32767, 32768, 65535} }

Out == [small |-> SmallVectors, big |-> BigVectors, neg |-> NegVectors, intervals |-> Intervals, gfd |-> GFDFields]
ASSUME JsonSerialize("tables.json", Out)

VARIABLE x
Init == x = 0
Next == x' = x /\ FALSE
=============================================================================
