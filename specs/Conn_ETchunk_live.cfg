SPECIFICATION FairSpec
CONSTANTS
  ET = TRUE
  Chunk = 2
  RB = 2
  SndCap = 2
  MaxIn = 3
  MaxOut = 2
  OutSizes = {1, 2}
  MaxOps = 2
  MaxAsync = 0
  OpenReply = {0}
PROPERTIES Served Drained
CHECK_DEADLOCK FALSE
