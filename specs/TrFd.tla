-------------------------------- MODULE TrFd --------------------------------
(***************************************************************************)
(* C07 on recorded executions: descriptor ownership.  The ledger `own`     *)
(* maps every descriptor number the framework currently owns to its owner  *)
(* (<<"c", handle>> for a registered connection, <<"accepted", fd>> for a  *)
(* socket on its way to a loop, <<"ln", fd>> for listeners, <<"p", fd>>    *)
(* for epoll / eventfd descriptors).  It is fed by the verif hooks, which  *)
(* run after every system call that creates, uses or closes a descriptor,  *)
(* and by the canary goroutines of the harness, which keep opening         *)
(* descriptors so that just-closed numbers are reused at once.             *)
(*                                                                         *)
(* Hooks run after the call, so a close(2) may be logged after the kernel  *)
(* has already handed the number to somebody else (another loop's accept,  *)
(* a canary).  `dying` holds such numbers together with the owner whose    *)
(* close is about to be logged: the next event of that owner about that    *)
(* number must be the close; a use is a violation.                         *)
(***************************************************************************)
EXTENDS TrBase

VARIABLES own, dying, foreign, dups, recent
vars == <<l, viols, own, dying, foreign, dups, recent>>
\* recent[g]: the numbers the loop running on goroutine g has closed (el.close) since its last wait returned
\* (eventfds are added to their poller before the poller's creation is logged: see p.ctl.AddRead below)

Init == /\ l = 1 /\ viols = <<>> /\ own = Empty /\ dying = Empty /\ foreign = {} /\ dups = {} /\ recent = Empty
        /\ TLCSet(1, 1) /\ TLCSet(2, <<>>)
NextRecent == LET e == Ev IN
    IF e.ev = "Sys" /\ e.site = "el.close" THEN Put(recent, e.g, Get(recent, e.g, {}) \cup {e.fd})
    ELSE IF e.ev = "Hook" /\ e.site = "p.woke" THEN Put(recent, e.g, {})
    ELSE IF e.ev = "Reset" THEN Empty ELSE recent
Step(o2, dy2, f2, d2, vs) == /\ recent' = NextRecent /\ l' = l + 1 /\ own' = o2 /\ dying' = dy2 /\ foreign' = f2 /\ dups' = d2 /\ viols' = vs /\ Mark
Same(vs) == Step(own, dying, foreign, dups, vs)
Del(f, k) == [x \in DOMAIN f \ {k} |-> f[x]]

UseSites == {"el.read", "el.write", "el.writev", "c.write", "c.writev", "c.openwrite", "c.opensend", "c.sendto", "el.flushv"}
Owner(h) == <<"c", h>>

\* a new descriptor number fd for owner o: if the ledger still has the number, its old owner is closing it
CreateV(fd, o, what, vs) ==
    LET v1 == Check(fd \notin DOMAIN dying /\ fd \notin foreign, "FreshDescriptorIsUnowned", <<what, fd>>, vs) IN
    IF fd \in DOMAIN own
    THEN Step(Put(own, fd, o), Put(dying, fd, own[fd]), foreign, dups, v1)
    ELSE Step(Put(own, fd, o), dying, foreign, dups, v1)

Create(fd, o, what) == CreateV(fd, o, what, viols)

\* owner o closes fd: either the entry it owns, or the one it was about to close when the number was reused
Close(fd, o, what) ==
    IF fd \in DOMAIN dying /\ dying[fd] = o
    THEN Step(own, Del(dying, fd), foreign, dups, viols)
    ELSE Step(Del(own, fd), dying, foreign, dups,
              Check(fd \in DOMAIN own /\ own[fd] = o /\ fd \notin foreign /\ fd \notin dups, "CloseOwnedOnce",
                    <<what, fd, o, Get(own, fd, "none")>>, viols))

Step1 ==
    /\ More
    /\ LET e == Ev IN
       CASE e.ev = "Reset" -> Step(Empty, Empty, foreign, {}, viols)
         \* ---- creation
         \* (accept4 is itself a use of the listener's number: it must be a listener the framework still owns -- a listener
         \* closed while a loop can still be told about it is polled by number, whatever has that number by then)
         [] e.ev = "Sys" /\ e.site = "acc.accept" ->
              LET v1 == Check(e.n \in DOMAIN own /\ own[e.n] = <<"ln", e.n>>, "UseOnlyOwnedFd",
                              <<"acc.accept", e.n, Get(own, e.n, "none"), Get(dying, e.n, "none")>>, viols)
              IN IF e.err = "nil" THEN CreateV(e.fd, <<"accepted", e.fd>>, "accept", v1) ELSE Same(v1)
         [] e.ev = "Sys" /\ e.site \in {"el.dup", "cli.dup"} /\ e.err = "nil" -> Create(e.fd, <<"accepted", e.fd>>, "dup")
         [] e.ev = "Sys" /\ e.site = "ln.open" /\ e.err = "nil" -> Create(e.fd, <<"ln", e.fd>>, "listener")
         [] e.ev = "Sys" /\ e.site = "p.open" ->
              \* two descriptors at once: the epoll instance (fd) and its eventfd (n)
              LET v1 == Check({e.fd, e.n} \cap (DOMAIN dying \cup foreign) = {}, "FreshDescriptorIsUnowned", <<"poller", e.fd, e.n>>, viols)
                  d1 == IF e.fd \in DOMAIN own THEN Put(dying, e.fd, own[e.fd]) ELSE dying
                  d2 == IF e.n \in DOMAIN own THEN Put(d1, e.n, own[e.n]) ELSE d1
              IN Step(Put(Put(own, e.fd, <<"p", e.fd>>), e.n, <<"p", e.fd>>), d2, foreign, dups, v1)
         \* the loop takes the accepted / duplicated descriptor over when it registers the connection
         [] e.ev = "Hook" /\ e.site = "el.registered" ->
              Step(Put(own, e.a, Owner(e.h)), dying, foreign, dups,
                   Check(e.a \in DOMAIN own /\ own[e.a][1] = "accepted", "RegisterOwnedDescriptor", <<e.h, e.a, Get(own, e.a, "none")>>, viols))
         \* ---- use: only descriptors the framework owns, on behalf of their owner
         [] e.ev = "Sys" /\ e.site \in UseSites /\ e.h # 0 ->
              Same(Check(e.fd \in DOMAIN own /\ own[e.fd] = Owner(e.h), "UseOnlyOwnedFd",
                         <<e.site, e.h, e.fd, Get(own, e.fd, "none"), Get(dying, e.fd, "none")>>, viols))
         \* ---- poll registrations: only for descriptors the framework owns.  The one exception is the eventfd,
         \* which OpenPoller adds before the creation of the poller is logged: it must be claimed by a
         \* p.open event within the next few events (other goroutines' events may come in between)
         [] e.ev = "Sys" /\ e.site = "p.ctl.AddRead" /\ e.fd \notin DOMAIN own ->
              Same(Check(\E j \in (l + 1)..(IF l + 12 < Len(Trace) THEN l + 12 ELSE Len(Trace)) :
                             Trace[j].ev = "Sys" /\ Trace[j].site = "p.open" /\ Trace[j].n = e.fd,
                         "PollOnlyOwnedFd", <<e.site, e.fd>>, viols))
         \* StaleDelete, a deliberate deviation of the code: when two connections of a loop are reported by the same wait and
         \* the callback of the first closes the second, the loop still holds an event for the closed number; finding no
         \* connection under it, it asks epoll to forget the number.  The number is not the framework's any more (it may
         \* be anybody's by now), but close(2) has already removed the registration, the kernel answers ENOENT and
         \* nothing is changed: no descriptor is read, written, polled or closed.  Allowed exactly there -- a number this
         \* very loop has closed since its last wait returned; any other epoll_ctl on a number that is not owned is not.
         [] e.ev = "Sys" /\ e.site = "p.ctl.Delete" /\ e.fd \notin DOMAIN own /\ e.fd \in Get(recent, e.g, {}) -> Same(viols)
         [] e.ev = "Sys" /\ e.site \in {"p.ctl.AddRead", "p.ctl.AddWrite", "p.ctl.AddReadWrite", "p.ctl.ModRead", "p.ctl.ModReadWrite", "p.ctl.Delete"} ->
              Same(Check(e.fd \in DOMAIN own, "PollOnlyOwnedFd", <<e.site, e.fd, Get(dying, e.fd, "none")>>, viols))
         \* ---- close: exactly once, by the owner
         [] e.ev = "Sys" /\ e.site = "el.close" -> Close(e.fd, Owner(e.h), "el.close")
         [] e.ev = "Sys" /\ e.site \in {"el.regclose", "acc.close", "el.dupclose"} -> Close(e.fd, <<"accepted", e.fd>>, e.site)
         [] e.ev = "Sys" /\ e.site = "ln.close" -> Close(e.fd, <<"ln", e.fd>>, "ln.close")
         [] e.ev = "Sys" /\ e.site = "p.close" ->
              LET o == <<"p", e.fd>>
                  inOwn(x)  == x \in DOMAIN own /\ own[x] = o
                  inDy(x)   == x \in DOMAIN dying /\ dying[x] = o
                  \* (a poller whose construction failed after epoll_create1 -- no eventfd, n < 0 -- was never announced:
                  \* closing its epoll descriptor is closing a descriptor the framework made and nobody else has)
                  halfBuilt == e.n < 0 /\ e.fd \notin DOMAIN own /\ e.fd \notin foreign
                  v1 == Check(halfBuilt \/ ((inOwn(e.fd) \/ inDy(e.fd)) /\ (inOwn(e.n) \/ inDy(e.n))), "CloseOwnedOnce", <<"poller", e.fd, e.n>>, viols)
                  o1 == IF inDy(e.fd) THEN own ELSE Del(own, e.fd)
                  o2 == IF inDy(e.n) THEN o1 ELSE Del(o1, e.n)
                  d1 == IF inDy(e.fd) THEN Del(dying, e.fd) ELSE dying
                  d2 == IF inDy(e.n) THEN Del(d1, e.n) ELSE d1
              IN Step(o2, d2, foreign, dups, v1)
         \* ---- the rest of the process
         [] e.ev = "ForeignOpen" ->
              IF e.fd \in DOMAIN own
              THEN Step(Del(own, e.fd), Put(dying, e.fd, own[e.fd]), foreign \cup {e.fd}, dups,
                        Check(e.fd \notin DOMAIN dying, "ForeignUntouched", <<"number reused twice before a close was logged", e.fd>>, viols))
              ELSE Step(own, dying, foreign \cup {e.fd}, dups, viols)
         [] e.ev = "ForeignClose" -> Step(own, dying, foreign \ {e.fd}, dups, viols)
         [] e.ev = "ForeignBroken" -> Same(Check(FALSE, "ForeignUntouched", <<"descriptor identity changed", e.fd>>, viols))
         [] e.ev = "UserDup" ->
              IF e.fd \in DOMAIN own
              THEN Step(Del(own, e.fd), Put(dying, e.fd, own[e.fd]), foreign, dups \cup {e.fd}, viols)
              ELSE Step(own, dying, foreign, dups \cup {e.fd}, viols)
         [] e.ev = "UserDupClose" -> Step(own, dying, foreign, dups \ {e.fd}, Check(e.ok, "DupNeverClosed", e.fd, viols))
         \* ---- after Run returned and the grace period: nothing is owned any more, and /proc agrees
         \* sockets that were accepted but whose registration task was still queued when the loops exited are a
         \* separate (known) way to leak: they are reported under their own name
         [] e.ev = "Grace" ->
              LET pendingReg == {fd \in DOMAIN own : own[fd][1] = "accepted"}
                  v1 == Check(DOMAIN own \ pendingReg = {} /\ DOMAIN dying = {}, "NoLeakAtStop", <<DOMAIN own \ pendingReg, DOMAIN dying>>, viols)
                  v2 == Check(pendingReg = {}, "NoLeakAtStop_PendingRegister", pendingReg, v1)
              IN Same(v2)
         \* a Register / Enroll / Dial that answered with an error has closed what it had created (the engine still runs)
         [] e.ev = "RegLeak" -> Same(Check(e.n = 0, "FailedRegisterLeavesNothing", <<e.api, e.n, e.what>>, viols))
         [] e.ev = "ProcFd" ->
              LET pendingReg == {fd \in DOMAIN own : own[fd][1] = "accepted"} IN
              Same(Check(e.leaked <= Cardinality(pendingReg) /\ e.sockfiles = 0, "NoLeakAtStop",
                         <<"/proc/self/fd", e.leaked, e.what, e.sockfiles, pendingReg>>, viols))
         [] OTHER -> Same(viols)

Next == Step1 \/ FinishWith(<<own, dying, foreign, dups, recent>>)
=============================================================================
