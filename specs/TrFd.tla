-------------------------------- MODULE TrFd --------------------------------
(***************************************************************************)
(* C07 on recorded executions: descriptor ownership.  The ledger `own`     *)
(* maps every descriptor number the framework currently owns to its owner  *)
(* (the connection handle, "ln" for listeners, "p" for epoll / eventfd     *)
(* descriptors).  It is fed by the verif hooks after every system call     *)
(* that creates, uses or closes a descriptor, and by the canary goroutines *)
(* of the harness, which keep opening descriptors so that just-closed      *)
(* numbers are reused at once (ForeignOpen / ForeignClose).                *)
(***************************************************************************)
EXTENDS TrBase

VARIABLES own,      \* fd -> owner
          foreign,  \* descriptor numbers currently held by the harness
          dups,     \* descriptors handed to the user (Dup): never closed by the framework
          ret       \* Run has returned
vars == <<l, viols, own, foreign, dups, ret>>

Init == /\ l = 1 /\ viols = <<>> /\ own = Empty /\ foreign = {} /\ dups = {} /\ ret = FALSE
        /\ TLCSet(1, 1) /\ TLCSet(2, <<>>)
Step(o2, f2, d2, r2, vs) == /\ l' = l + 1 /\ own' = o2 /\ foreign' = f2 /\ dups' = d2 /\ ret' = r2 /\ viols' = vs /\ Mark
Same(vs) == Step(own, foreign, dups, ret, vs)
Del(f, k) == [x \in DOMAIN f \ {k} |-> f[x]]

UseSites == {"el.read", "el.write", "el.writev", "c.write", "c.writev", "c.openwrite", "c.opensend", "c.sendto", "el.flushv"}
Owner(h) == <<"c", h>>

Next ==
    /\ More
    /\ LET e == Ev IN
       CASE e.ev = "Reset" -> Step(Empty, foreign, {}, FALSE, viols)
         \* ---- creation
         [] e.ev = "Sys" /\ e.site = "acc.accept" /\ e.err = "nil" ->
              Step(Put(own, e.fd, <<"accepted", e.fd>>), foreign, dups, ret,
                   Check(e.fd \notin DOMAIN own /\ e.fd \notin foreign, "FreshDescriptorIsUnowned", <<"accept", e.fd>>, viols))
         [] e.ev = "Sys" /\ e.site \in {"el.dup", "cli.dup"} /\ e.err = "nil" ->
              Step(Put(own, e.fd, <<"accepted", e.fd>>), foreign, dups, ret,
                   Check(e.fd \notin DOMAIN own /\ e.fd \notin foreign, "FreshDescriptorIsUnowned", <<"dup", e.fd>>, viols))
         [] e.ev = "Sys" /\ e.site = "ln.open" /\ e.err = "nil" ->
              Step(Put(own, e.fd, <<"ln", e.fd>>), foreign, dups, ret,
                   Check(e.fd \notin DOMAIN own /\ e.fd \notin foreign, "FreshDescriptorIsUnowned", <<"listener", e.fd>>, viols))
         [] e.ev = "Sys" /\ e.site = "p.open" ->
              Step(Put(Put(own, e.fd, <<"p", e.fd>>), e.n, <<"p", e.fd>>), foreign, dups, ret,
                   Check({e.fd, e.n} \cap (DOMAIN own \cup foreign) = {}, "FreshDescriptorIsUnowned", <<"poller", e.fd, e.n>>, viols))
         \* the loop takes the accepted / duplicated descriptor over when it registers the connection
         [] e.ev = "Hook" /\ e.site = "el.registered" ->
              Step(Put(own, e.a, Owner(e.h)), foreign, dups, ret,
                   Check(e.a \in DOMAIN own /\ own[e.a][1] = "accepted", "RegisterOwnedDescriptor", <<e.h, e.a>>, viols))
         \* ---- use: only descriptors the framework owns, on behalf of their owner
         [] e.ev = "Sys" /\ e.site \in UseSites /\ e.h # 0 ->
              Same(Check(e.fd \in DOMAIN own /\ own[e.fd] = Owner(e.h), "UseOnlyOwnedFd", <<e.site, e.h, e.fd, Get(own, e.fd, "none")>>, viols))
         \* ---- close: exactly once, by the owner
         [] e.ev = "Sys" /\ e.site = "el.close" ->
              Step(Del(own, e.fd), foreign, dups, ret,
                   Check(e.fd \in DOMAIN own /\ own[e.fd] = Owner(e.h) /\ e.fd \notin foreign /\ e.fd \notin dups,
                         "CloseOwnedOnce", <<e.h, e.fd, Get(own, e.fd, "none")>>, viols))
         [] e.ev = "Sys" /\ e.site \in {"el.regclose", "acc.close"} ->
              Step(Del(own, e.fd), foreign, dups, ret,
                   Check(e.fd \in DOMAIN own /\ e.fd \notin foreign, "CloseOwnedOnce", <<e.site, e.fd>>, viols))
         [] e.ev = "Sys" /\ e.site = "ln.close" ->
              Step(Del(own, e.fd), foreign, dups, ret,
                   Check(e.fd \in DOMAIN own /\ own[e.fd][1] = "ln" /\ e.fd \notin foreign, "CloseOwnedOnce", <<"listener", e.fd>>, viols))
         [] e.ev = "Sys" /\ e.site = "p.close" ->
              Step(Del(Del(own, e.fd), e.n), foreign, dups, ret,
                   Check({e.fd, e.n} \subseteq DOMAIN own /\ {e.fd, e.n} \cap foreign = {}, "CloseOwnedOnce", <<"poller", e.fd, e.n>>, viols))
         \* ---- the rest of the process
         [] e.ev = "ForeignOpen" ->
              \* the kernel hands out a number the ledger believes owned: the framework closed it behind our back
              Step(own, foreign \cup {e.fd}, dups, ret,
                   Check(e.fd \notin DOMAIN own, "ForeignUntouched", <<"kernel reused an owned number", e.fd, Get(own, e.fd, "none")>>, viols))
         [] e.ev = "ForeignClose" -> Step(own, foreign \ {e.fd}, dups, ret, viols)
         [] e.ev = "ForeignBroken" -> Same(Check(FALSE, "ForeignUntouched", <<"descriptor identity changed", e.fd>>, viols))
         [] e.ev = "UserDup" -> Step(own, foreign, dups \cup {e.fd}, ret, viols)
         [] e.ev = "RunRet" -> Step(own, foreign, dups, TRUE, viols)
         \* ---- after Run returned and the grace period: nothing is owned any more, and /proc agrees
         [] e.ev = "Grace" ->
              Same(Check(DOMAIN own = {}, "NoLeakAtStop", DOMAIN own, viols))
         [] e.ev = "ProcFd" ->
              Same(Check(e.leaked = 0 /\ e.sockfiles = 0, "NoLeakAtStop", <<"/proc/self/fd", e.leaked, e.sockfiles>>, viols))
         [] OTHER -> Same(viols)
=============================================================================
