INIT Init
NEXT Next
POSTCONDITION Accepted
CHECK_DEADLOCK FALSE
