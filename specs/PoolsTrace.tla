----------------------------- MODULE PoolsTrace -----------------------------
(* Trace validation for Pools.tla: executions of the real byte-slice pool and ring-buffer  *)
(* pool, recorded by the harness as ndjson (one event per Get / Put with the region        *)
(* normalised to (array id, offset, len, cap)), must be behaviours of the ledger model.    *)
EXTENDS Pools, Json

Trace == ndJsonDeserialize("trace.ndjson")
AllRings == 1..1000000
VARIABLE l
tvars == <<allocCap, out, pooled, held, idle, ret, l>>
Ev == Trace[l]
Is(e) == l <= Len(Trace) /\ Ev.ev = e /\ l' = l + 1
Mark == TLCSet(1, l')

TInit == Init /\ l = 1 /\ TLCSet(1, 1)

TReset == /\ Is("Reset")
          /\ allocCap' = <<>> /\ out' = {} /\ pooled' = {} /\ held' = {} /\ idle' = {}
          /\ ret' = [op |-> "none"] /\ Mark

TGet == /\ Is("Get")
        /\ Ev.canary
        /\ IF Ev.fresh
           THEN GetFresh(Ev.size) /\ NewAlloc = Ev.a /\ ret'.cap = Ev.cap
           ELSE \E reg \in pooled : reg.a = Ev.a /\ reg.off = Ev.off /\ GetRecycled(Ev.size, reg)
        /\ ret'.len = Ev.len /\ ret'.cap = Ev.cap
        /\ Mark

TPut == /\ Is("Put")
        /\ Ev.canary
        /\ IF Ev.foreign
           THEN PutForeign(Ev.cap) /\ NewAlloc = Ev.a
           ELSE \E s \in out : /\ s.a = Ev.a /\ Ev.off >= s.off /\ Ev.off - s.off <= s.cap
                               /\ PutBack(s, Ev.off - s.off)
                               /\ Ev.cap = s.cap - (Ev.off - s.off)
        /\ Mark

TRingGet == Is("RingGet") /\ Ev.empty /\ Ev.buffered = 0 /\ RingGet(Ev.ring) /\ Mark
TRingPut == Is("RingPut") /\ RingPut(Ev.ring) /\ Mark

TNext == TReset \/ TGet \/ TPut \/ TRingGet \/ TRingPut
TSpec == TInit /\ [][TNext]_tvars

Accepted == IF TLCGet(1) = Len(Trace) + 1 THEN TRUE
            ELSE /\ PrintT(<<"TRACE_REJECTED_AT", TLCGet(1), Trace[TLCGet(1)]>>)
                 /\ FALSE
=============================================================================
