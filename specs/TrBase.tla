------------------------------- MODULE TrBase -------------------------------
(***************************************************************************)
(* Common part of the system-level trace specifications (channel B).  The  *)
(* trace is the ndjson event log recorded by the conformance harness from  *)
(* a real engine: handler callbacks and the reader / writer operations     *)
(* they perform, peer-side events, user-goroutine requests, and the verif  *)
(* hooks (system calls and life-cycle steps).  Every trace specification   *)
(* consumes the whole log, ignoring the events it does not talk about, and *)
(* evaluates its property checks at every event; failed checks are         *)
(* collected in viols (the search is a single path, so the collected list  *)
(* is reported by the POSTCONDITION instead of a state-by-state            *)
(* counterexample of tens of thousands of states).                         *)
(***************************************************************************)
EXTENDS Integers, Sequences, FiniteSets, TLC, Json

Trace == ndJsonDeserialize("trace.ndjson")
VARIABLES l, viols
Ev == Trace[l]
More == l <= Len(Trace)
Mark == TLCSet(1, l') /\ TLCSet(2, viols')

\* function helpers (dynamic domains)
Put(f, k, v) == (k :> v) @@ f     \* (TLC module operators: implemented natively, the left operand wins)
Get(f, k, d) == IF k \in DOMAIN f THEN f[k] ELSE d
Empty == <<>>

\* record a failed check (at most 8 are kept)
Fail(name, info) == IF Len(viols) < 8 THEN Append(viols, [inv |-> name, at |-> l, info |-> info]) ELSE viols
Check(cond, name, info, vs) == IF cond THEN vs ELSE (IF Len(vs) < 8 THEN Append(vs, [inv |-> name, at |-> l, info |-> info]) ELSE vs)

\* the last step of a validation run: report the collected failures (TLC is run in simulation mode on these
\* single-path specifications: no fingerprinting, no state storage, linear time)
FinishWith(v) == /\ ~More /\ l = Len(Trace) + 1
                 /\ PrintT(<<"TRACE_END", Len(Trace), viols>>)
                 /\ l' = l + 1 /\ viols' = viols /\ UNCHANGED v

Accepted ==
    IF TLCGet(1) # Len(Trace) + 1
    THEN /\ PrintT(<<"TRACE_REJECTED_AT", TLCGet(1), Trace[TLCGet(1)]>>) /\ FALSE
    ELSE IF TLCGet(2) # <<>>
         THEN /\ PrintT(<<"TRACE_VIOLATIONS", TLCGet(2)>>) /\ FALSE
         ELSE TRUE
=============================================================================
