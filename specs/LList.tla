------------------------------- MODULE LList -------------------------------
(***************************************************************************)
(* pkg/buffer/linkedlist.Buffer: a FIFO byte queue kept as a list of       *)
(* segments.  Content is in normal form (byte j of the queue is "j"), so   *)
(* the state is just the sequence of segment lengths; the harness keeps    *)
(* the actual bytes and judges the real object against its own deque.      *)
(* One action per public method, bodies follow linked_list_buffer.go.      *)
(***************************************************************************)
EXTENDS ListOps

CONSTANTS PushSizes,   \* argument sizes of PushBack / PushFront / Append
          ReadSizes,   \* argument sizes of Read / Peek / PeekWithBytes / Discard
          Extras,      \* extra segment lists handed to PeekWithBytes
          RScripts, WScripts,
          MaxSegs, MaxBytes, MaxDepth

VARIABLES segs, ret, depth
vars == <<segs, ret, depth>>
Buffered == Sum(segs)
NoRet == [op |-> "none"]

Set(s, rt) == /\ segs' = s /\ ret' = rt
              /\ Len(s) <= MaxSegs /\ Sum(s) <= MaxBytes
              /\ (MaxDepth = 0 \/ depth < MaxDepth)
              /\ depth' = IF MaxDepth = 0 THEN 0 ELSE depth + 1

Init == segs = <<>> /\ ret = NoRet /\ depth = 0

PushBack(k) ==
    /\ ret = NoRet
    /\ Set(IF k = 0 THEN segs ELSE Append(segs, k), [op |-> "PushBack", pb |-> Buffered, k |-> k])

PushFront(k) ==
    /\ ret = NoRet
    /\ Set(IF k = 0 THEN segs ELSE <<k>> \o segs, [op |-> "PushFront", pb |-> Buffered, k |-> k])

\* Append does not copy; the caller must not touch the slice afterwards
AppendNoCopy(k) ==
    /\ ret = NoRet
    /\ Set(IF k = 0 THEN segs ELSE Append(segs, k), [op |-> "Append", pb |-> Buffered, k |-> k])

Pop ==
    /\ ret = NoRet
    /\ IF segs = <<>> THEN Set(segs, [op |-> "Pop", pb |-> 0, n |-> 0, nil |-> TRUE])
       ELSE Set(Tail(segs), [op |-> "Pop", pb |-> Buffered, n |-> Head(segs), nil |-> FALSE])

Read(k) ==
    /\ ret = NoRet
    /\ LET n == Min(k, Buffered) IN
       IF k <= 0 THEN Set(segs, [op |-> "Read", pb |-> Buffered, k |-> k, n |-> 0, err |-> "nil"])
       ELSE Set(DropFront(segs, n),
                [op |-> "Read", pb |-> Buffered, k |-> k, n |-> n, err |-> IF n = 0 THEN "EOF" ELSE "nil"])

Peek(k) ==
    /\ ret = NoRet
    /\ IF k <= 0 THEN Set(segs, [op |-> "Peek", pb |-> Buffered, k |-> k, parts |-> segs, err |-> "nil"])
       ELSE IF k > Buffered THEN Set(segs, [op |-> "Peek", pb |-> Buffered, k |-> k, parts |-> <<>>, err |-> "ErrShortBuffer"])
       ELSE Set(segs, [op |-> "Peek", pb |-> Buffered, k |-> k, parts |-> TakeFront(segs, k), err |-> "nil"])

\* PeekWithBytes puts the non-empty extra slices in front of the list content
PeekWithBytes(k, extra) ==
    /\ ret = NoRet
    /\ LET all == NonEmpty(extra) \o segs IN
       IF k <= 0 THEN Set(segs, [op |-> "PeekWithBytes", pb |-> Buffered, k |-> k, parts |-> all, err |-> "nil"])
       ELSE IF k > Sum(all) THEN Set(segs, [op |-> "PeekWithBytes", pb |-> Buffered, k |-> k, parts |-> <<>>, err |-> "ErrShortBuffer"])
       ELSE Set(segs, [op |-> "PeekWithBytes", pb |-> Buffered, k |-> k, parts |-> TakeFront(all, k), err |-> "nil"])

Discard(k) ==
    /\ ret = NoRet
    /\ LET n == IF k <= 0 THEN 0 ELSE Min(k, Buffered) IN
       Set(DropFront(segs, n), [op |-> "Discard", pb |-> Buffered, k |-> k, n |-> n])

ReadFrom(sc) ==
    /\ ret = NoRet
    /\ LET res == LRF(segs, sc, 0) IN
       Set(res.s, [op |-> "ReadFrom", pb |-> Buffered, n |-> res.n, err |-> res.err])

WriteTo(sc) ==
    /\ ret = NoRet
    /\ LET res == LWT(segs, sc, 0) IN
       Set(res.s, [op |-> "WriteTo", pb |-> Buffered, n |-> res.n, err |-> res.err])

Reset ==
    /\ ret = NoRet
    /\ Set(<<>>, [op |-> "Reset", pb |-> Buffered])

Norm == ret # NoRet /\ ret' = NoRet /\ UNCHANGED <<segs, depth>>

Next == \/ Norm
        \/ \E k \in PushSizes : PushBack(k) \/ PushFront(k) \/ AppendNoCopy(k)
        \/ Pop
        \/ \E k \in ReadSizes : Read(k) \/ Peek(k) \/ Discard(k)
        \/ \E k \in ReadSizes, x \in Extras : PeekWithBytes(k, x)
        \/ \E sc \in RScripts : ReadFrom(sc)
        \/ \E sc \in WScripts : WriteTo(sc)
        \/ Reset

Spec == Init /\ [][Next]_vars

(* ---- invariants (C11) ---- *)
TypeOK == segs \in Seq(Nat) /\ Len(segs) <= MaxSegs
\* no empty node ever sits in the list, hence IsEmpty (head = nil) <=> Buffered = 0
NoEmptyNodes == \A i \in 1..Len(segs) : segs[i] > 0
RetOK ==
    CASE ret.op \in {"PushBack", "PushFront", "Append"} -> Buffered = ret.pb + ret.k
      [] ret.op = "Pop"      -> Buffered = ret.pb - ret.n /\ (ret.nil <=> ret.pb = 0)
      [] ret.op = "Read"     -> /\ Buffered = ret.pb - ret.n
                                /\ ret.n = (IF ret.k <= 0 THEN 0 ELSE Min(ret.k, ret.pb))
      [] ret.op = "Peek"     -> /\ Buffered = ret.pb
                                /\ ret.err = "nil" => Sum(ret.parts) = (IF ret.k <= 0 THEN ret.pb ELSE ret.k)
                                /\ (ret.err # "nil") <=> (ret.k > ret.pb)
      [] ret.op = "PeekWithBytes" -> Buffered = ret.pb /\ (ret.err = "nil" /\ ret.k > 0 => Sum(ret.parts) = ret.k)
      [] ret.op = "Discard"  -> Buffered = ret.pb - ret.n /\ ret.n = (IF ret.k <= 0 THEN 0 ELSE Min(ret.k, ret.pb))
      [] ret.op = "ReadFrom" -> Buffered = ret.pb + ret.n
      [] ret.op = "WriteTo"  -> Buffered = ret.pb - ret.n /\ (ret.err = "nil" => Buffered = 0)
      [] ret.op = "Reset"    -> Buffered = 0
      [] OTHER -> TRUE
=============================================================================
