SPECIFICATION FairSpec
CONSTANTS
  Script <- Script2
  Thresh = 1
  MaxLow = 1
INVARIANTS ExecAtMostOnce ExecOnlyAccepted NoLostWakeup HighPrioFIFO EdgeImpliesFlag CountersLag FlagMeansWake ClearMeansSeen
PROPERTIES EventuallyAllRun
CHECK_DEADLOCK FALSE
