SPECIFICATION Spec
CONSTANT MaxDepth = 4
INVARIANT StopTwiceHarmless
PROPERTY Monotone
CHECK_DEADLOCK FALSE
