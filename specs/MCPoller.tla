------------------------------ MODULE MCPoller ------------------------------
EXTENDS Poller
Script2 == (1 :> <<"H", "L">>) @@ (2 :> <<"L", "H">>)
Script3 == (1 :> <<"H", "H", "L">>) @@ (2 :> <<"L", "H">>) @@ (3 :> <<"L">>)
\* a low-priority task that answers Shutdown with another one queued behind it (C06), next to ordinary traffic
ScriptS == (1 :> <<"H", "LS", "L">>) @@ (2 :> <<"H">>)
ScriptQ == (1 :> <<"H", "H">>) @@ (2 :> <<"L">>)
=============================================================================
