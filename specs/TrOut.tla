-------------------------------- MODULE TrOut --------------------------------
(***************************************************************************)
(* C02 on recorded executions: outbound stream integrity and ordering.     *)
(* The framework side sends frames [writer, seq, len, stamped body];       *)
(* writer 0 is the handler (OnOpen reply, Write, Writev, ReadFrom+Flush in *)
(* callbacks, in program order), writers >= 1 are user goroutines issuing  *)
(* AsyncWrite / AsyncWritev.  The peer parses and verifies what it gets.   *)
(*   fr      (c, w, k) -> length of the frame as issued (logged before the *)
(*           operation, so that cause precedes effect in the log)          *)
(*   acc[c]  bytes accepted by write operations so far                     *)
(*   hand[h] bytes handed to the kernel on the connection (verif hooks)    *)
(*   nextk   (c, w) -> next frame the peer must receive from writer w      *)
(*   okd     frames whose operation reported success                       *)
(***************************************************************************)
EXTENDS TrBase

VARIABLES fr, acc, hand, nextk, okd, hof, areq, lastw, cof, opend,
          dead      \* connections whose OnClose has begun: their buffers are being torn down, no accounting any more
vars == <<l, viols, fr, acc, hand, nextk, okd, hof, areq, lastw, cof, opend, dead>>

Init == /\ l = 1 /\ viols = <<>> /\ fr = Empty /\ acc = Empty /\ hand = Empty /\ nextk = Empty
        /\ okd = {} /\ hof = Empty /\ areq = Empty /\ lastw = Empty /\ cof = Empty /\ opend = Empty /\ dead = {}
        /\ TLCSet(1, 1) /\ TLCSet(2, <<>>)

DeadNext == dead' = (IF Ev.ev = "Reset" THEN {} ELSE IF Ev.ev = "Close" THEN dead \cup {Ev.c} ELSE dead)
Step(fr2, acc2, hand2, nk2, ok2, hof2, ar2, lw2, vs) ==
    /\ l' = l + 1 /\ fr' = fr2 /\ acc' = acc2 /\ hand' = hand2 /\ nextk' = nk2 /\ okd' = ok2
    /\ hof' = hof2 /\ areq' = ar2 /\ lastw' = lw2 /\ viols' = vs /\ Mark
    /\ UNCHANGED <<cof, opend>> /\ DeadNext
Same(vs) == Step(fr, acc, hand, nextk, okd, hof, areq, lastw, vs)
\* steps that touch the bookkeeping of the OnOpen reply (cof: handle -> connection, opend: bytes of the
\* reply that conn.open has not yet written or buffered)
StepO(acc2, hand2, ok2, hof2, cof2, op2, fr2, lw2, vs) ==
    /\ l' = l + 1 /\ fr' = fr2 /\ acc' = acc2 /\ hand' = hand2 /\ nextk' = nextk /\ okd' = ok2
    /\ hof' = hof2 /\ areq' = areq /\ lastw' = lw2 /\ cof' = cof2 /\ opend' = op2 /\ viols' = vs /\ Mark /\ DeadNext

WriteSites == {"el.write", "el.writev", "c.write", "c.writev", "c.openwrite", "el.flushv"}
Acc(c) == Get(acc, c, 0)
Hand(c) == Get(hand, Get(hof, c, 0), 0)
\* OutboundBuffered = bytes accepted so far - bytes already handed to the kernel
ObOK(c, ob) == ob = Acc(c) - Hand(c)

Step1 ==
    /\ More
    /\ LET e == Ev IN
       CASE e.ev = "Reset" ->
              /\ l' = l + 1 /\ fr' = Empty /\ acc' = Empty /\ hand' = Empty /\ nextk' = Empty /\ okd' = {}
              /\ hof' = Empty /\ areq' = Empty /\ lastw' = Empty /\ cof' = Empty /\ opend' = Empty
              /\ viols' = viols /\ Mark /\ DeadNext
         [] e.ev = "Open" -> StepO(acc, hand, okd, Put(hof, e.c, e.h), Put(cof, e.h, e.c), opend, fr, lastw, viols)
         [] e.ev = "Sys" /\ e.site = "c.openwrite" /\ e.h \in DOMAIN cof ->
              \* conn.open writes the OnOpen reply: what it writes is handed to the kernel, on EAGAIN the
              \* rest is buffered (still accepted), on any other error the rest is dropped
              LET c == cof[e.h]
                  left == Get(opend, c, 0) IN
              IF e.n > 0
              THEN StepO(acc, Put(hand, e.h, Get(hand, e.h, 0) + e.n), okd, hof, cof, Put(opend, c, left - e.n), fr, lastw, viols)
              ELSE IF e.err = "EAGAIN"
                   THEN StepO(acc, hand, okd, hof, cof, Put(opend, c, 0), fr, lastw, viols)
                   ELSE StepO(Put(acc, c, Acc(c) - left), hand, {f \in okd : ~(f[1] = c /\ f[2] = 0 /\ f[3] = 0)},
                              hof, cof, Put(opend, c, 0), fr, lastw, viols)
         [] e.ev = "Sys" /\ e.site \in WriteSites /\ e.n > 0 ->
              Step(fr, acc, Put(hand, e.h, Get(hand, e.h, 0) + e.n), nextk, okd, hof, areq, lastw, viols)
         [] e.ev = "WIssue" /\ e.op = "OnOpenOut" ->
              \* the OnOpen reply is accepted as a whole when OnOpen returns
              StepO(Put(acc, e.c, Acc(e.c) + e.len), hand, okd \cup {<<e.c, e.w, e.k>>}, hof, cof, Put(opend, e.c, e.len),
                    Put(fr, <<e.c, e.w, e.k>>, e.len), Put(lastw, e.c, <<e.c, e.w, e.k>>), viols)
         [] e.ev = "WIssue" ->
              Step(Put(fr, <<e.c, e.w, e.k>>, e.len), acc, hand, nextk, okd,
                   hof, areq, Put(lastw, e.c, <<e.c, e.w, e.k>>), viols)
         [] e.ev = "WOp" ->
              LET a2 == Acc(e.c) + (IF e.err = "nil" THEN e.n ELSE 0)
                  v1 == Check(e.err # "nil" \/ e.n = e.len, "WriteAcceptsAll", <<e.c, e.op, e.len, e.n>>, viols)
                  v2 == Check(e.err # "nil" \/ e.c \in dead \/ e.ob = a2 - Hand(e.c), "OutAccounting", <<e.c, e.op, e.ob, a2, Hand(e.c)>>, v1)
              IN Step(fr, Put(acc, e.c, a2), hand, nextk,
                      IF e.err = "nil" THEN okd \cup {Get(lastw, e.c, <<0, 0, 0>>)} ELSE okd,
                      hof, areq, lastw, v2)
         [] e.ev = "Traffic" ->
              Same(Check(e.c \in dead \/ ObOK(e.c, e.ob), "OutAccounting", <<e.c, "Traffic", e.ob, Acc(e.c), Hand(e.c)>>, viols))
         [] e.ev = "AIssue" /\ e.kind \in {"AsyncWrite", "AsyncWritev"} ->
              Step(Put(fr, <<e.c, e.w, e.k>>, e.len), acc, hand, nextk, okd, hof, Put(areq, e.a, <<e.c, e.w, e.k>>), lastw, viols)
         [] e.ev = "ACb" /\ e.a \in DOMAIN areq ->
              LET f == areq[e.a] IN
              IF e.err = "nil"
              THEN Step(fr, Put(acc, f[1], Acc(f[1]) + fr[f]), hand, nextk, okd \cup {f}, hof, areq, lastw, viols)
              ELSE Same(viols)
         [] e.ev = "PeerFrame" ->
              LET key == <<e.c, e.w, e.k>>
                  nk  == Get(nextk, <<e.c, e.w>>, 0)
                  \* intact and uncorrupted
                  v1 == Check(e.ok, "OutContent", key, viols)
                  \* it was issued, with this length
                  v2 == Check(key \in DOMAIN fr /\ Get(fr, key, -1) = e.len, "OutOnlyIssued", <<key, e.len>>, v1)
                  \* per writer: in issue order, nothing lost or duplicated before it
                  v3 == Check(e.k = nk, "OutOrder", <<key, nk>>, v2)
              IN Step(fr, acc, hand, Put(nextk, <<e.c, e.w>>, e.k + 1), okd, hof, areq, lastw, v3)
         [] e.ev = "PeerGotFin" ->
              \* the final frame arrived on a connection that stayed open: every frame whose operation
              \* reported success has arrived
              LET missing == {f \in okd : f[1] = e.c /\ f[3] >= Get(nextk, <<f[1], f[2]>>, 0)} IN
              Same(Check(missing = {}, "OutComplete", <<e.c, missing>>, viols))
         [] e.ev = "PeerFinTimeout" ->
              \* state witness of stranded output: accepted bytes that were never handed to the kernel, nothing
              \* in flight in either kernel queue (sampled twice), and the peer has been waiting to read
              Same(Check(~(e.outq = 0 /\ e.inq = 0 /\ e.outq2 = 0 /\ e.inq2 = 0 /\ Acc(e.c) > Hand(e.c)), "NoStrandedOutput",
                         <<e.c, Acc(e.c), Hand(e.c)>>, viols))
         [] OTHER -> Same(viols)

Next == Step1 \/ FinishWith(<<fr, acc, hand, nextk, okd, hof, areq, lastw, cof, opend, dead>>)
=============================================================================
