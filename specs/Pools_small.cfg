INIT Init
NEXT Next
CONSTANTS
  Sizes = {1, 2, 3, 5}
  ForeignCaps = {0, 1, 3, 6}
  MaxAllocs = 2
  MaxOut = 2
  Rings = {1, 2}
INVARIANTS NoAlias PooledWithin PooledFree GetOK RingExclusive
CHECK_DEADLOCK FALSE
