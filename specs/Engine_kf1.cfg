SPECIFICATION Spec
CONSTANTS NLoops = 1  MaxConns = 1  MaxRegs = 0  ReusePort = FALSE  LB = "any"  Ticker = FALSE
          Sources = {"stop"}
INVARIANTS NoLeak
CHECK_DEADLOCK FALSE
