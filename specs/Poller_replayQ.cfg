SPECIFICATION Spec
CONSTANTS
  Script <- ScriptQ
  Thresh = 1
  MaxLow = 256
INVARIANTS ExecAtMostOnce ExecOnlyAccepted NoLostWakeup HighPrioFIFO EdgeImpliesFlag CountersLag
CHECK_DEADLOCK FALSE
