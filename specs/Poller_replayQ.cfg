SPECIFICATION Spec
CONSTANTS
  Script <- ScriptQ
  Thresh = 1
  SatInit = FALSE
  MaxLow = 256
INVARIANTS ExecAtMostOnce ExecOnlyAccepted NoLostWakeup HighPrioFIFO EdgeImpliesFlag CountersLag ShutdownIsFinal
CHECK_DEADLOCK FALSE
