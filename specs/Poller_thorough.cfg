SPECIFICATION FairSpec
CONSTANTS
  Script <- Script3
  Thresh = 2
  MaxLow = 1
INVARIANTS ExecAtMostOnce ExecOnlyAccepted NoLostWakeup HighPrioFIFO EdgeImpliesFlag CountersLag FlagMeansWake ClearMeansSeen
PROPERTIES EventuallyAllRun
CHECK_DEADLOCK FALSE
