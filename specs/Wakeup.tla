------------------------------- MODULE Wakeup -------------------------------
(***************************************************************************)
(* The wake-up protocol of netpoll.Poller (Trigger / Polling) reduced to   *)
(* what decides a lost wake-up: the number of queued tasks, the "wake-up   *)
(* pending" flag, the readiness of the eventfd, the position of the loop   *)
(* and of each producer.  Unlike Poller.tla (exhaustive for 2-3 producers  *)
(* with explicit queues, replayed on the real code) this abstraction is    *)
(* small enough for an inductive argument: IndInv holds initially, is      *)
(* preserved by every step for any number of queued tasks, and implies     *)
(* NoLostWakeup.  Checked with Apalache (unbounded q) and with TLC over a  *)
(* bounded q as a cross-check.                                             *)
(***************************************************************************)
EXTENDS Integers

CONSTANT
    \* @type: Set(Int);
    Prod

VARIABLES
    \* @type: Int;
    q,
    \* @type: Int;
    flag,
    \* @type: Bool;
    efd,
    \* @type: Str;
    lpc,
    \* @type: Int -> Str;
    ppc

CInit == Prod = {1, 2, 3}

Init == /\ q = 0 /\ flag = 0 /\ efd = FALSE /\ lpc = "wait" /\ ppc = [p \in Prod |-> "idle"]

\* ---- producers: Trigger = enqueue; CAS(flag, 0, 1); if it succeeded, write the eventfd
Enq(p) == /\ ppc[p] = "idle" /\ q' = q + 1 /\ ppc' = [ppc EXCEPT ![p] = "cas"] /\ UNCHANGED <<flag, efd, lpc>>
Cas(p) == /\ ppc[p] = "cas"
          /\ IF flag = 0 THEN flag' = 1 /\ ppc' = [ppc EXCEPT ![p] = "wr"]
                         ELSE flag' = flag /\ ppc' = [ppc EXCEPT ![p] = "idle"]
          /\ UNCHANGED <<q, efd, lpc>>
Wr(p) == /\ ppc[p] = "wr" /\ efd' = TRUE /\ ppc' = [ppc EXCEPT ![p] = "idle"] /\ UNCHANGED <<q, flag, lpc>>

\* ---- the loop: epoll_wait returns on readiness; it drains (possibly not everything: the per-round cap), clears the
\* flag, and re-checks the queues: anything left makes it wake itself
Wake == /\ lpc = "wait" /\ efd /\ efd' = FALSE /\ lpc' = "drain" /\ UNCHANGED <<q, flag, ppc>>
DrainOne == /\ lpc = "drain" /\ q > 0 /\ q' = q - 1 /\ UNCHANGED <<flag, efd, lpc, ppc>>
DrainEnd == /\ lpc = "drain" /\ lpc' = "s0" /\ UNCHANGED <<q, flag, efd, ppc>>
Store0 == /\ lpc = "s0" /\ flag' = 0 /\ lpc' = "rc" /\ UNCHANGED <<q, efd, ppc>>
Recheck == /\ lpc = "rc" /\ lpc' = "wait"
           /\ IF q > 0 /\ flag = 0 THEN flag' = 1 /\ efd' = TRUE ELSE flag' = flag /\ efd' = efd
           /\ UNCHANGED <<q, ppc>>

Next == \/ \E p \in Prod : Enq(p) \/ Cas(p) \/ Wr(p)
        \/ Wake \/ DrainOne \/ DrainEnd \/ Store0 \/ Recheck

TypeOK == /\ q \in Nat /\ flag \in {0, 1} /\ lpc \in {"wait", "drain", "s0", "rc"}
          /\ ppc \in [Prod -> {"idle", "cas", "wr"}]

\* tasks are queued, the loop is blocked, nothing is ready: then somebody is still on the way to wake it
NoLostWakeup == (q > 0 /\ lpc = "wait" /\ ~efd) => \E p \in Prod : ppc[p] = "wr" \/ (ppc[p] = "cas" /\ flag = 0)

\* the flag is set: a wake-up is readable, or being written, or the loop is running and will clear it
FlagMeansWake == flag = 1 => (efd \/ lpc \in {"drain", "s0"} \/ \E p \in Prod : ppc[p] = "wr")
\* the flag is clear and tasks are queued: the loop is about to re-check, or their producer has not tried the flag yet
ClearMeansSeen == (flag = 0 /\ q > 0) => (lpc = "rc" \/ \E p \in Prod : ppc[p] = "cas")
\* a producer about to write the eventfd owns the flag
WriterOwnsFlag == (\E p \in Prod : ppc[p] = "wr") => flag = 1 \/ lpc = "rc" \/ lpc = "wait"

QBound == q <= 4    \* (only for the TLC cross-check)
IndInv == TypeOK /\ FlagMeansWake /\ ClearMeansSeen
\* (for the induction step the state is any state satisfying the invariant: every variable is given a domain first)
IndInit == /\ q \in Nat /\ flag \in {0, 1} /\ efd \in BOOLEAN /\ lpc \in {"wait", "drain", "s0", "rc"}
           /\ ppc \in [Prod -> {"idle", "cas", "wr"}]
           /\ IndInv
=============================================================================
