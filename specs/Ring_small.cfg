INIT Init
NEXT Next
CONSTANTS
  MinRead = 2
  DefaultSize = 4
  GrowThreshold = 16
  MaxSize = 25
  MaxDepth = 0
  UnitIsByte = FALSE
  TrackCells = TRUE
  ByteOps = FALSE
  InitCaps <- S_InitCaps
  WSizes <- S_WSizes
  RSizes <- S_RSizes
  RScripts <- S_RScripts
  WScripts <- S_WScripts
INVARIANTS TypeOK Accounting EmptyCanon ContentOK RetOK
CHECK_DEADLOCK FALSE
