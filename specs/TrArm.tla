-------------------------------- MODULE TrArm --------------------------------
(***************************************************************************)
(* C02 on recorded executions, the invariant LTArmedIffBacklog of Conn.tla *)
(* in the direction that matters: in level-triggered mode a connection     *)
(* whose callback returns with bytes in its outbound buffer is registered  *)
(* for write readiness -- otherwise nothing will ever move that backlog.   *)
(*   lt     the engine of this life runs level-triggered                   *)
(*   wr     descriptor -> registered for writing (from the epoll_ctl       *)
(*          intents p.ctl.* logged by the verif hooks)                     *)
(*   fdOf   connection -> its descriptor (from the Open event)             *)
(*   gone   connections whose OnClose has begun                            *)
(***************************************************************************)
EXTENDS TrBase

VARIABLES lt, wr, fdOf, gone
vars == <<l, viols, lt, wr, fdOf, gone>>

Init == /\ l = 1 /\ viols = <<>> /\ lt = FALSE /\ wr = Empty /\ fdOf = Empty /\ gone = {}
        /\ TLCSet(1, 1) /\ TLCSet(2, <<>>)
Step(lt2, wr2, fd2, gone2, vs) == /\ l' = l + 1 /\ lt' = lt2 /\ wr' = wr2 /\ fdOf' = fd2 /\ gone' = gone2 /\ viols' = vs /\ Mark
Del(f, k) == [x \in DOMAIN f \ {k} |-> f[x]]

Step1 ==
    /\ More
    /\ LET e == Ev IN
       CASE e.ev = "Reset" -> Step("et" \in DOMAIN e /\ ~e.et, Empty, Empty, {}, viols)
         [] e.ev = "Sys" /\ e.site \in {"p.ctl.AddReadWrite", "p.ctl.ModReadWrite", "p.ctl.AddWrite"} -> Step(lt, Put(wr, e.fd, TRUE), fdOf, gone, viols)
         [] e.ev = "Sys" /\ e.site \in {"p.ctl.AddRead", "p.ctl.ModRead"} -> Step(lt, Put(wr, e.fd, FALSE), fdOf, gone, viols)
         [] e.ev = "Sys" /\ e.site = "p.ctl.Delete" -> Step(lt, Del(wr, e.fd), fdOf, gone, viols)
         [] e.ev = "Open" -> Step(lt, wr, Put(fdOf, e.c, e.fd), gone \ {e.c}, viols)
         [] e.ev = "Close" -> Step(lt, wr, fdOf, gone \cup {e.c}, viols)
         \* the end of an OnTraffic that leaves the connection open (action None)
         [] e.ev = "TrafficEnd" /\ e.action = 0 /\ e.c \in DOMAIN fdOf /\ e.c \notin gone ->
              Step(lt, wr, fdOf, gone,
                   Check(~lt \/ e.ob = 0 \/ Get(wr, fdOf[e.c], FALSE), "LTArmedWhileBacklog", <<e.c, e.ob, fdOf[e.c]>>, viols))
         [] OTHER -> Step(lt, wr, fdOf, gone, viols)

Next == Step1 \/ FinishWith(<<lt, wr, fdOf, gone>>)
=============================================================================
