-------------------------------- MODULE TrUdp --------------------------------
(***************************************************************************)
(* C08 on recorded executions: UDP datagram fidelity.  A datagram is       *)
(* <<sender, seq>>; dg maps it to [len, seen, replies] where replies is    *)
(* the set of <<kind, to>> answers the handler issued for it and got the   *)
(* set of answers that arrived.                                            *)
(***************************************************************************)
EXTENDS TrBase

VARIABLES dg, laddr, cur, issued, got
vars == <<l, viols, dg, laddr, cur, issued, got>>
Init == /\ l = 1 /\ viols = <<>> /\ dg = Empty /\ laddr = Empty /\ cur = <<0, 0, 0>> /\ issued = {} /\ got = {}
        /\ TLCSet(1, 1) /\ TLCSet(2, <<>>)
Step(d2, la2, c2, i2, g2, vs) == /\ l' = l + 1 /\ dg' = d2 /\ laddr' = la2 /\ cur' = c2 /\ issued' = i2 /\ got' = g2 /\ viols' = vs /\ Mark
Same(vs) == Step(dg, laddr, cur, issued, got, vs)

Step1 ==
    /\ More
    /\ LET e == Ev IN
       CASE e.ev = "Reset" -> Step(Empty, Empty, <<0, 0, 0>>, {}, {}, viols)
         [] e.ev = "DSender" -> Step(dg, Put(laddr, e.s, e.laddr), cur, issued, got, viols)
         \* (len: what is owed to the handler -- the datagram, or as much of it as the configured read buffer holds)
         [] e.ev = "DSend" -> Step(Put(dg, <<e.s, e.k>>, [len |-> IF "cap" \in DOMAIN e /\ e.cap > 0 /\ e.len > e.cap THEN e.cap ELSE e.len, seen |-> 0]),
                                   laddr, cur, issued, got, viols)
         [] e.ev = "Dgram" ->
              LET key == <<e.s, e.k>>
                  d == Get(dg, key, [len |-> -1, seen |-> 0])
                  \* exactly the payload of one datagram that was sent, never seen before
                  v1 == Check(key \in DOMAIN dg, "OnlySentDatagrams", <<key, e.n>>, viols)
                  v2 == Check(d.seen = 0, "OneEventPerDatagram", key, v1)
                  v3 == Check(e.ok /\ e.n = d.len /\ e.ib = d.len, "IntactBoundaries", <<key, e.n, e.ib, d.len>>, v2)
                  v4 == Check(e.raddr = Get(laddr, e.s, ""), "RemoteAddrIsSender", <<key, e.raddr>>, v3)
              IN Step(IF key \in DOMAIN dg THEN Put(dg, key, [d EXCEPT !.seen = @ + 1]) ELSE dg, laddr, <<e.s, e.k, e.n>>, issued, got, v4)
         [] e.ev = "DOp" ->
              \* consuming part of a datagram leaves the rest of this datagram, nothing else
              LET len == Get(dg, <<e.s, e.k>>, [len |-> -1, seen |-> 0]).len IN
              Same(Check(e.ib = len - e.n /\ e.n <= len, "NoCarryOver", <<e.s, e.k, e.op, e.n, e.ib, len>>, viols))
         [] e.ev = "DReply" -> Step(dg, laddr, cur, issued \cup {<<e.s, e.k, e.kind, e.to>>}, got, viols)
         [] e.ev = "DReplied" -> Same(Check(e.err # "nil" \/ e.n = (IF "want" \in DOMAIN e THEN e.want ELSE 12), "ReplyCountExact", <<e.s, e.k, e.n>>, viols))
         \* an empty answer carries no identity: it is matched with any empty answer still owed to that socket
         [] e.ev = "DRecv" /\ e.len = 0 ->
              LET cand == {r \in issued \ got : r[3] = "E" /\ r[4] = e.by} IN
              IF cand = {} THEN Same(Check(FALSE, "ReplyToRightPeer", <<"empty datagram nobody sent", e.by>>, viols))
              ELSE Step(dg, laddr, cur, issued, got \cup {CHOOSE r \in cand : TRUE}, viols)
         [] e.ev = "DRecv" ->
              LET r == <<e.s, e.k, e.kind, e.by>>
                  \* one datagram with exactly the given bytes, at the socket it was addressed to, once
                  v1 == Check(e.ok /\ e.len = 12, "ReplyIntact", r, viols)
                  v2 == Check(r \in issued, "ReplyToRightPeer", r, v1)
                  v3 == Check(r \notin got, "ReplyOnce", r, v2)
              IN Step(dg, laddr, cur, issued, got \cup {r}, v3)
         [] e.ev = "UQuiesce" ->
              \* little was in flight at any time: loopback delivered everything
              \* (datagrams the kernel itself discarded on reception -- its own counters -- were never received)
              LET unseen == {key \in DOMAIN dg : dg[key].seen # 1}
                  v1 == Check(Cardinality(unseen) <= e.kdrops, "OneEventPerDatagram", <<unseen, e.kdrops>>, viols)
                  v2 == Check(issued \ got = {}, "EveryReplyArrives", issued \ got, v1)
              IN Same(v2)
         [] e.ev = "RunStuck" -> Same(Check(FALSE, "RunReturnsInBoundedTime", "udp", viols))
         [] OTHER -> Same(viols)

Next == Step1 \/ FinishWith(<<dg, laddr, cur, issued, got>>)
=============================================================================
