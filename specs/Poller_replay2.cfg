SPECIFICATION Spec
CONSTANTS
  Script <- Script2
  Thresh = 1
  SatInit = FALSE
  MaxLow = 256
INVARIANTS ExecAtMostOnce ExecOnlyAccepted NoLostWakeup HighPrioFIFO EdgeImpliesFlag CountersLag ShutdownIsFinal
CHECK_DEADLOCK FALSE
