----------------------------- MODULE EngineTrace -----------------------------
(***************************************************************************)
(* Trace validation for Engine.tla (channel B, mechanism level): the       *)
(* engine-level events of one recorded engine life -- accepts with the     *)
(* loop chosen (gate acc.accepted), registrations, the actions returned by *)
(* OnOpen / OnTraffic / OnClose / OnTick, Polling returning, closeConns    *)
(* finished, the steps of engine.stop, Run returning -- must be explained  *)
(* by the actions of Engine.tla.  What the log does not show is inferred   *)
(* by TLC: when an accepted socket was put into its loop's queue, when the *)
(* exit signals were put there, when the context was cancelled by a Stop   *)
(* call, when the ticker goroutine left (silent steps that do not advance  *)
(* the trace).  In particular a registration can only run while its task   *)
(* is at the head of the loop's queue, and a loop can only take the exit   *)
(* signal when everything queued before it has run.                        *)
(*                                                                         *)
(* The projection of the recorded log to these events is done by           *)
(* checks/system.py (it drops events and renames fields, nothing else);    *)
(* the constants (loops, reuse-port, ticker, number of connections) come   *)
(* from the life's Reset event.                                            *)
(***************************************************************************)
EXTENDS Engine, Json

CONSTANT ClientMode   \* TRUE: a gnet.Client life (no acceptors, every connection enrolled through Dial / Enroll,
                      \* Client.Stop has no step hooks: its steps are inferred)

Trace == ndJsonDeserialize("trace.ndjson")
VARIABLES l, hmap, hidx, stopReq
tvars == <<vars, l, hmap, hidx, stopReq>>
\* (in client mode hidx maps the descriptor number of a duplicated socket to its registration id)
Ev == Trace[l]
More == l <= Len(Trace)
Is(e) == More /\ Ev.ev = e
Adv == l' = l + 1 /\ TLCSet(1, IF l + 1 > TLCGet(1) THEN l + 1 ELSE TLCGet(1))
Stay == l' = l
KeepT == UNCHANGED <<hmap, hidx, stopReq>>
Put(f, k, v) == (k :> v) @@ f
LoopIdx(idx) == IF idx = -1 THEN Main ELSE idx + 1

TInit == Init /\ l = 1 /\ hmap = <<>> /\ hidx = <<>> /\ stopReq = FALSE /\ TLCSet(1, 1)

\* ---- logged events
TAccept == /\ Is("Accept") /\ ~ReusePort
           /\ Accept(NextConn, Ev.idx + 1)
           /\ hmap' = Put(hmap, Ev.h, NextConn) /\ UNCHANGED <<hidx, stopReq>> /\ Adv
\* ---- client engines: Dial / Enroll duplicate the socket, pick a loop and queue the registration
NextReg == IF \E r \in Regs : regres[r] = "none" THEN CHOOSE r \in Regs : regres[r] = "none" /\ \A d \in Regs : d < r => regres[d] # "none" ELSE 0
TDup == /\ Is("Dup") /\ ClientMode /\ NextReg # 0
        /\ \E i \in Loops : (Ev.k = -1 \/ i = Ev.k + 1) /\ RegCall(NextReg, i)
        /\ hidx' = Put(hidx, Ev.idx, NextReg) /\ UNCHANGED <<hmap, stopReq>> /\ Adv
TRegisteredC ==
    /\ Is("Registered") /\ ClientMode /\ Ev.k \in DOMAIN hidx
    /\ LET r == hidx[Ev.k] i == Ev.idx + 1 IN
         /\ cst[r] = "queued" /\ loopOf[r] = i /\ lst[i] = "polling"
         /\ q[i] # <<>> /\ Head(q[i]) = <<"regcb", r>>
         /\ hmap' = Put(hmap, Ev.h, r)
    /\ UNCHANGED <<vars, hidx, stopReq>> /\ Adv
TOpenEndC ==
    /\ Is("OpenEnd") /\ ClientMode /\ Ev.h \in DOMAIN hmap
    /\ RunReg(loopOf[hmap[Ev.h]], hmap[Ev.h], Ev.action)
    /\ KeepT /\ Adv
\* (the registration is put into the queue when the log next shows it running: with a dozen concurrent dials every
\* earlier moment only multiplies the orders in which the search has to try them)
SRegEnqueue == /\ ClientMode /\ Is("Registered") /\ Ev.k \in DOMAIN hidx
               /\ RegEnqueue(hidx[Ev.k]) /\ Stay /\ KeepT
\* Client.Stop: shutdown(nil), OnShutdown, the exit signals, Wait, closeEventLoops, the flag -- only OnShutdown is logged
SStopSteps == ClientMode /\ (S1 \/ S4 \/ S5 \/ S6) /\ Stay /\ KeepT

TRegistered ==
    /\ Is("Registered") /\ ~ClientMode
    /\ IF ReusePort
       THEN hidx' = Put(hidx, Ev.h, Ev.idx) /\ hmap' = hmap
       ELSE /\ Ev.h \in DOMAIN hmap
            /\ LET c == hmap[Ev.h] i == Ev.idx + 1 IN
                 /\ cst[c] = "queued" /\ loopOf[c] = i /\ lst[i] = "polling"
                 /\ q[i] # <<>> /\ Head(q[i]) = <<"reg", c>>       \* FIFO hand-off: its task is the head of the queue
            /\ UNCHANGED <<hidx, hmap>>
    /\ UNCHANGED <<vars, stopReq>> /\ Adv
TOpenEnd ==
    /\ Is("OpenEnd") /\ ~ClientMode
    /\ IF ReusePort
       THEN /\ Ev.h \in DOMAIN hidx
            /\ AcceptOwn(hidx[Ev.h] + 1, NextConn, Ev.action)
            /\ hmap' = Put(hmap, Ev.h, NextConn)
       ELSE /\ Ev.h \in DOMAIN hmap
            /\ RunReg(loopOf[hmap[Ev.h]], hmap[Ev.h], Ev.action)
            /\ hmap' = hmap
    /\ UNCHANGED <<hidx, stopReq>> /\ Adv
TTrafficShutdown ==
    /\ Is("TrafficShutdown") /\ Ev.h \in DOMAIN hmap
    /\ \/ Traffic(loopOf[hmap[Ev.h]], hmap[Ev.h], "shutdown")
       \/ TrafficSelfClosed(loopOf[hmap[Ev.h]], hmap[Ev.h])
    /\ KeepT /\ Adv
TClose ==
    /\ Is("Close") /\ Ev.h \in DOMAIN hmap
    /\ LET c == hmap[Ev.h] IN PeerClose(loopOf[c], c, Ev.action) \/ CloseOne(loopOf[c], c)
    /\ KeepT /\ Adv
TPollingReturned ==
    /\ Is("PollingReturned")
    /\ LET i == LoopIdx(Ev.idx) IN
         \/ lst[i] = "polling" /\ RunExit(i)              \* it took the exit signal
         \/ lst[i] = "closing" /\ UNCHANGED vars          \* a callback had returned Shutdown
    /\ KeepT /\ Adv
TLoopClosed == Is("LoopClosed") /\ LoopDone(Ev.idx + 1) /\ KeepT /\ Adv
TStopReq == Is("StopReq") /\ stopReq' = TRUE /\ UNCHANGED <<vars, hmap, hidx>> /\ Adv
TStop ==
    /\ Is("Stop")
    /\ CASE Ev.k = 1 -> S1
         [] Ev.k = 2 -> stop = "trigger" /\ UNCHANGED vars
         [] Ev.k = 3 -> stop = "wait" /\ UNCHANGED vars      \* (the hook runs after the last Trigger: that one is silent too)
         [] Ev.k = 4 -> S4
         [] Ev.k = 5 -> S5
         [] Ev.k = 6 -> S6
         [] OTHER -> FALSE
    /\ KeepT /\ Adv
\* the listeners are closed by closeEventLoops, between errgroup.Wait and the flag (and nowhere else while the engine lives)
\* (an engine whose OnBoot asked for the shutdown never starts anything: Run closes the listeners itself)
TLnClose == Is("LnClose") /\ ~ClientMode /\ stop \in {"closeloops", "unborn"} /\ UNCHANGED vars /\ KeepT /\ Adv
TOnShutdown == Is("OnShutdown") /\ S2 /\ KeepT /\ Adv
TTriggered == Is("Triggered") /\ stop = "trigger" /\ trig > Ev.idx + 1 /\ UNCHANGED vars /\ KeepT /\ Adv
TTickShutdown == Is("TickShutdown") /\ TickShutdown /\ KeepT /\ Adv
TRunRet == /\ Is("RunRet")
           /\ \/ stop = "unborn" /\ returned /\ UNCHANGED vars
              \/ RunReturn
           /\ KeepT /\ Adv

\* ---- what the log does not show
SConnect ==
    /\ More /\ ~ClientMode
    /\ \/ ~ReusePort /\ Ev.ev = "Accept" /\ backlog[Main] = 0 /\ Connect(Main)
       \/ ReusePort /\ Ev.ev = "OpenEnd" /\ Ev.h \in DOMAIN hidx /\ backlog[hidx[Ev.h] + 1] = 0 /\ Connect(hidx[Ev.h] + 1)
    /\ Stay /\ KeepT
SEnqueue == (\E c \in AcceptedIds : Enqueue(c)) /\ Stay /\ KeepT
SS3 == stop = "trigger" /\ S3 /\ Stay /\ KeepT
STickerExit == TickerExit /\ Stay /\ KeepT
SStopCall == stopReq /\ StopCall /\ Stay /\ KeepT

TNext == \/ TAccept \/ TRegistered \/ TOpenEnd \/ TTrafficShutdown \/ TClose \/ TPollingReturned \/ TLoopClosed
         \/ TStopReq \/ TStop \/ TLnClose \/ TOnShutdown \/ TTriggered \/ TTickShutdown \/ TRunRet
         \/ SConnect \/ SEnqueue \/ SS3 \/ STickerExit \/ SStopCall
         \/ TDup \/ TRegisteredC \/ TOpenEndC \/ SRegEnqueue \/ SStopSteps

Accepted == IF TLCGet(1) = Len(Trace) + 1 THEN TRUE
            ELSE /\ PrintT(<<"TRACE_REJECTED_AT", TLCGet(1), Trace[TLCGet(1)]>>)
                 /\ FALSE
=============================================================================
