SPECIFICATION Spec
CONSTANTS NLoops = 2  MaxConns = 2  MaxRegs = 1  ReusePort = FALSE  LB = "any"  Ticker = TRUE
          Sources = {"stop", "open", "traffic", "close", "tick", "fail", "boot"}
INVARIANTS TypeOK OnShutdownOnce AllOpenedClosedBeforeReturn NothingRunsAfterReturn BootShutdownStartsNothing ListenersOutliveLoops
           MainLast InShutdownMeansDone LeakOnlyBehindExit QueuedIsInQueue UnansweredOnlyBehindExit
PROPERTIES Termination LoopsFinish RegDeliveredOnce
CHECK_DEADLOCK FALSE
