INIT Init
NEXT Next
CONSTANTS
  MinRead = 2
  DefaultSize = 4
  GrowThreshold = 16
  LMinRead = 2
  UnitIsByte = FALSE
  TrackCells = TRUE
  MaxSize = 8
  MaxSegs = 2
  MaxList = 5
  MaxDepth = 0
  PoolCaps <- S_PoolCaps
  StaticLimits <- S_Limits
  WSizes <- S_WSizes
  VLists <- S_VLists
  RSizes <- S_RSizes
  RScripts <- S_RScripts
  WScripts <- S_WScripts
INVARIANTS TypeOK NoEmptyNodes LazyRing RingContentOK RingAccounting RetOK
CHECK_DEADLOCK FALSE
