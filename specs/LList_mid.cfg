INIT Init
NEXT Next
CONSTANTS
  LMinRead = 4
  MaxSegs = 5
  MaxBytes = 16
  MaxDepth = 0
  PushSizes <- S_Push
  ReadSizes <- S_Read
  Extras <- S_Extras
  RScripts <- S_RScripts
  WScripts <- S_WScripts
INVARIANTS TypeOK NoEmptyNodes RetOK
CHECK_DEADLOCK FALSE
