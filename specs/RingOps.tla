------------------------------ MODULE RingOps ------------------------------
(***************************************************************************)
(* The algorithms of pkg/buffer/ring/ring_buffer.go as operators on a      *)
(* record [size, r, w, empty, buf, ok] (buf: cell array in FIFO normal     *)
(* form, see Ring.tla; ok: the step is exact at the model's granularity).  *)
(* Shared by Ring.tla (C09) and Elastic.tla (C10).                         *)
(***************************************************************************)
EXTENDS Common, FiniteSets, TLC

CONSTANTS MinRead, DefaultSize, GrowThreshold,
          TrackCells,    \* model the cell array (exhaustive configs) or not (real-size configs)
          UnitIsByte     \* TRUE when one model unit is one byte (n/4 of the growth policy is then exact)


RECURSIVE P2(_, _)
P2(n, p) == IF p >= n THEN p ELSE P2(n, 2 * p)
CeilPow2(n) == IF n <= 2 THEN 2 ELSE P2(n, 2)


(* ---- observers, as in the code ---- *)
BufferedOf(s) == IF s.r = s.w THEN (IF s.empty THEN 0 ELSE s.size)
                 ELSE IF s.w > s.r THEN s.w - s.r ELSE s.size - s.r + s.w
AvailOf(s)    == IF s.r = s.w THEN (IF s.empty THEN s.size ELSE 0)
                 ELSE IF s.w < s.r THEN s.r - s.w ELSE s.size - s.w + s.r
IsFullOf(s)   == s.r = s.w /\ ~s.empty

(* ---- cells ---- *)
NoCells(n)   == IF TrackCells THEN [i \in 0..(n - 1) |-> -1] ELSE <<>>
Linear(n, b) == IF TrackCells THEN [i \in 0..(n - 1) |-> IF i < b THEN i ELSE -1] ELSE <<>>
PutSeg(f, at, cnt, v0) == [i \in DOMAIN f |-> IF i >= at /\ i < at + cnt THEN v0 + (i - at) ELSE f[i]]
Shift(f, n)  == [i \in DOMAIN f |-> IF f[i] < n THEN -1 ELSE f[i] - n]

ResetSt(s) == [s EXCEPT !.r = 0, !.w = 0, !.empty = TRUE, !.buf = NoCells(s.size)]

(* ---- grow(newCap), ring_buffer.go:487 ---- *)
RECURSIVE Quarter(_, _)
Quarter(n, c) == IF n < c THEN Quarter(n + (n \div 4), c) ELSE n
\* With a model unit of 256 bytes, n + n/4 is only exact when n is a multiple of 4 units;
\* transitions that would need a fraction of a unit are not generated (they are covered at
\* byte granularity by the real-constant configuration and by trace validation).
RECURSIVE QuarterOK(_, _)
QuarterOK(n, c) == IF n < c THEN (n % 4 = 0 /\ QuarterOK(n + (n \div 4), c)) ELSE TRUE
GrowOK(n, newCap) == UnitIsByte \/ n = 0 \/ newCap > 2 * n \/ n < GrowThreshold \/ QuarterOK(n, newCap)
GrowCap(n, newCap) ==
    IF n = 0 THEN (IF newCap <= DefaultSize THEN DefaultSize ELSE CeilPow2(newCap))
    ELSE IF newCap <= 2 * n
         THEN (IF n < GrowThreshold THEN 2 * n ELSE Quarter(n, newCap))
         ELSE newCap
Grow(s, newCap) ==
    LET c == GrowCap(s.size, newCap)
        b == BufferedOf(s)
    IN [size |-> c, r |-> 0, w |-> b, empty |-> (b = 0), buf |-> Linear(c, b),
        ok |-> s.ok /\ GrowOK(s.size, newCap)]

(* ---- store n fresh bytes at w (two-segment copy of Write) ---- *)
Store(s, n) ==
    LET b == BufferedOf(s) IN
    IF n = 0 THEN s ELSE
    IF s.w >= s.r
    THEN LET c1 == s.size - s.w IN
         IF c1 >= n
         THEN [s EXCEPT !.buf = PutSeg(s.buf, s.w, n, b),
                        !.w = IF s.w + n = s.size THEN 0 ELSE s.w + n, !.empty = FALSE]
         ELSE [s EXCEPT !.buf = PutSeg(PutSeg(s.buf, s.w, c1, b), 0, n - c1, b + c1),
                        !.w = IF n - c1 = s.size THEN 0 ELSE n - c1, !.empty = FALSE]
    ELSE [s EXCEPT !.buf = PutSeg(s.buf, s.w, n, b),
                   !.w = IF s.w + n = s.size THEN 0 ELSE s.w + n, !.empty = FALSE]

(* ---- consume n <= Buffered bytes at r, Reset when the last byte goes ---- *)
Consume(s, n) ==
    IF n = 0 THEN s ELSE
    LET r1 == (s.r + n) % s.size
        s1 == [s EXCEPT !.r = r1, !.buf = Shift(s.buf, n)]
    IN IF r1 = s.w THEN ResetSt(s1) ELSE s1

(* ---- io.Reader / io.Writer behaviours ---- *)
Hd(sc) == IF sc = <<>> THEN <<"zero", "EOF">> ELSE Head(sc)
Tl(sc) == IF sc = <<>> THEN <<>> ELSE Tail(sc)

(* ReadFrom, ring_buffer.go:343.  A read of m bytes into buf[w:] stores them *)
(* at w; the buffer stops being empty only if m > 0; the second read into    *)
(* buf[:r] happens only once the first segment is filled (w wrapped to 0).   *)
StoreAtW(s, m) ==
    IF m = 0 THEN s
    ELSE [s EXCEPT !.buf = PutSeg(s.buf, s.w, m, BufferedOf(s)),
                   !.w = (s.w + m) % s.size, !.empty = FALSE]
RECURSIVE RF(_, _, _)
RF(s0, sc, n) ==
    LET s == IF AvailOf(s0) < MinRead THEN Grow(s0, BufferedOf(s0) + MinRead) ELSE s0 IN
    IF s.w >= s.r
    THEN LET a  == Hd(sc)
             m  == Ans(a[1], s.size - s.w)
             s1 == StoreAtW(s, m)
         IN IF a[2] = "EOF" THEN [st |-> s1, n |-> n + m, err |-> "nil"]
            ELSE IF a[2] = "ERR" THEN [st |-> s1, n |-> n + m, err |-> "ERR"]
            ELSE IF s1.w # 0 THEN RF(s1, Tl(sc), n + m)
            ELSE LET a2 == Hd(Tl(sc))
                     m2 == Ans(a2[1], s1.r)
                     s2 == StoreAtW(s1, m2)
                 IN IF a2[2] = "EOF" THEN [st |-> s2, n |-> n + m + m2, err |-> "nil"]
                    ELSE IF a2[2] = "ERR" THEN [st |-> s2, n |-> n + m + m2, err |-> "ERR"]
                    ELSE RF(s2, Tl(Tl(sc)), n + m + m2)
    ELSE LET a  == Hd(sc)
             m  == Ans(a[1], s.r - s.w)
             s1 == StoreAtW(s, m)
         IN IF a[2] = "EOF" THEN [st |-> s1, n |-> n + m, err |-> "nil"]
            ELSE IF a[2] = "ERR" THEN [st |-> s1, n |-> n + m, err |-> "ERR"]
            ELSE RF(s1, Tl(sc), n + m)

(* WriteTo, ring_buffer.go:395: at most two Write calls on the writer. *)
WAns(sc, k) == IF Len(sc) >= k THEN sc[k] ELSE <<"full", "nil">>
WT(s, sc) ==
    IF s.empty THEN [st |-> s, n |-> 0, err |-> "ErrIsEmpty", used |-> 0] ELSE
    LET b == BufferedOf(s) IN
    IF s.w > s.r \/ s.r + b <= s.size
    THEN LET a  == WAns(sc, 1)
             m  == Ans(a[1], b)
             s1 == Consume(s, m)
         IN [st |-> s1, n |-> m, used |-> 1,
             err |-> IF a[2] # "nil" THEN "ERR" ELSE IF ~s1.empty THEN "ErrShortWrite" ELSE "nil"]
    ELSE LET c1 == s.size - s.r
             a  == WAns(sc, 1)
             m  == Ans(a[1], c1)
             s1 == [s EXCEPT !.r = (s.r + m) % s.size, !.buf = Shift(s.buf, m)]
         IN IF a[2] # "nil" THEN [st |-> s1, n |-> m, err |-> "ERR", used |-> 1]
            ELSE IF m < c1 THEN [st |-> s1, n |-> m, err |-> "ErrShortWrite", used |-> 1]
            ELSE LET c2 == b - c1
                     a2 == WAns(sc, 2)
                     m2 == Ans(a2[1], c2)
                     s2 == IF m2 = s.w THEN ResetSt([s1 EXCEPT !.buf = Shift(s1.buf, m2)])
                                       ELSE [s1 EXCEPT !.r = m2, !.buf = Shift(s1.buf, m2)]
                 IN [st |-> s2, n |-> m + m2, used |-> 2,
                     err |-> IF a2[2] # "nil" THEN "ERR" ELSE IF ~s2.empty THEN "ErrShortWrite" ELSE "nil"]


NewRing(n) == [size |-> n, r |-> 0, w |-> 0, empty |-> TRUE, buf |-> NoCells(n), ok |-> TRUE]

(* ---- the public methods as functions: state -> [st, ...results] ---- *)
WriteOp(s, n) ==
    IF n = 0 THEN s
    ELSE Store(IF n > AvailOf(s) THEN Grow(s, s.size + n - AvailOf(s)) ELSE s, n)
ReadOp(s, k) ==     \* k = len(p)
    LET n == Min(BufferedOf(s), k) IN
    IF k <= 0 THEN [st |-> s, n |-> 0, err |-> "nil"]
    ELSE IF s.empty THEN [st |-> s, n |-> 0, err |-> "ErrIsEmpty"]
    ELSE [st |-> Consume(s, n), n |-> n, err |-> "nil"]
PeekOp(s, k) ==     \* lengths of head and tail
    LET b == BufferedOf(s)
        m == IF k <= 0 THEN b ELSE Min(b, k)
        hl == IF s.empty THEN 0
              ELSE IF s.w > s.r THEN m
              ELSE IF s.r + m <= s.size THEN m ELSE s.size - s.r
    IN [hl |-> hl, tl |-> m - hl]
DiscardOp(s, k) ==
    LET b == BufferedOf(s) IN
    IF k <= 0 THEN [st |-> s, n |-> 0]
    ELSE IF k < b THEN [st |-> [s EXCEPT !.r = (s.r + k) % s.size, !.buf = Shift(s.buf, k)], n |-> k]
    ELSE [st |-> ResetSt(s), n |-> b]
=============================================================================
