SPECIFICATION Spec
CONSTANTS
  Script <- ScriptS
  Thresh = 1
  SatInit = FALSE
  MaxLow = 256
INVARIANTS ExecAtMostOnce ExecOnlyAccepted NoLostWakeup HighPrioFIFO EdgeImpliesFlag CountersLag ShutdownIsFinal FlagMeansWake
CHECK_DEADLOCK FALSE
