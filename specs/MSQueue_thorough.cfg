SPECIFICATION Spec
CONSTANTS
  Enqueuers = {1, 2}
  Dequeuers = {3, 4}
  NEnq = 2
  NDeq = 2
  LenReaders = {}
INVARIANTS TypeOK Linearizable ListIsAbs TailLag NoDup NoInvention PerProducerFIFO LengthLag QuiescentLength
CHECK_DEADLOCK FALSE
