INIT Init
NEXT Next
CONSTANTS
  Rows = 3
  Cols = 3
  Fds = {1, 2, 3, 4, 5, 6, 7}
  MaxDepth = 0
INVARIANTS Faithful CountOK Dense Coherent RetOK
CHECK_DEADLOCK FALSE
