------------------------------- MODULE Poller -------------------------------
(***************************************************************************)
(* pkg/netpoll (epoll): the wake-up protocol between Trigger (producers)   *)
(* and the chores block of Polling (the loop).                             *)
(*                                                                         *)
(* The two task queues are taken at the lagging-length abstraction that    *)
(* MSQueue.tla justifies (invariant LengthLag): a queue is the sequence of *)
(* linked tasks plus a counter that is incremented after the link and      *)
(* decremented after the unlink, each as a separate step.  Dequeue looks   *)
(* at the links, IsEmpty/Length at the counter.                            *)
(*                                                                         *)
(* One action per segment of code between two verif gates, so that TLC     *)
(* behaviours are schedules of the real Poller under the gate scheduler:   *)
(*   producer: P_Start (high: link) / P_Len (low: threshold test + link),  *)
(*             P_Inc, P_Cas, P_Wr                                          *)
(*   loop:     C_Wait (epoll_wait + first dequeue), C_DU / C_DL (counter   *)
(*             decrement, run the task, next dequeue), C_S0 (store 0),     *)
(*             C_RC, C_KL, C_KU (re-check of the two counters + CAS),      *)
(*             C_WR (self wake-up)                                         *)
(* The eventfd is registered edge-triggered and never read: every write    *)
(* raises a readiness edge that one epoll_wait consumes.  Its counter can  *)
(* be saturated (SatInit: the state after 2^64-2 unread writes): the write *)
(* then fails with EAGAIN, the writer reads the counter away and tries     *)
(* again (one more pass through the same gate).                            *)
(* A task whose script entry ends in "S" returns ErrEngineShutdown: the    *)
(* loop returns from Polling at once (cpc = "END"), whatever is queued.    *)
(***************************************************************************)
EXTENDS Integers, Sequences, FiniteSets, TLC

CONSTANTS Script,    \* producer -> sequence of priorities ("H" / "L")
          Thresh,    \* highPriorityEventsThreshold (1024 in the code)
          MaxLow,    \* MaxAsyncTasksAtOneTime (256 in the code)
          SatInit    \* TRUE: the eventfd's counter starts saturated

Prods == DOMAIN Script
VARIABLES uq, lq, ulen, llen, wakeup, edge, sat,
          ppc, pk, ptgt,            \* producer: pc, index of the current task, target queue of the current task
          cpc, msec, cnt, cur,      \* loop: pc, epoll_wait timeout, low-priority tasks run in this round, task being run
          execs                     \* ghost: sequence of executed tasks <<p, i>>
vars == <<uq, lq, ulen, llen, wakeup, edge, sat, ppc, pk, ptgt, cpc, msec, cnt, cur, execs>>

Init == /\ uq = <<>> /\ lq = <<>> /\ ulen = 0 /\ llen = 0 /\ wakeup = 0 /\ edge = FALSE /\ sat = SatInit
        /\ ppc = [p \in Prods |-> "ST"] /\ pk = [p \in Prods |-> 1] /\ ptgt = [p \in Prods |-> "u"]
        /\ cpc = "W" /\ msec = -1 /\ cnt = 0 /\ cur = <<0, 0>> /\ execs = <<>>

Task(p) == <<p, pk[p]>>
Prio(p) == SubSeq(Script[p][pk[p]], 1, 1)
Stops(tk) == Len(Script[tk[1]][tk[2]]) = 2       \* "HS" / "LS": the task returns ErrEngineShutdown
HasMore(p) == pk[p] <= Len(Script[p])
Link(p, tgt) == /\ ptgt' = [ptgt EXCEPT ![p] = tgt]
                /\ IF tgt = "u" THEN uq' = Append(uq, Task(p)) /\ UNCHANGED lq
                                ELSE lq' = Append(lq, Task(p)) /\ UNCHANGED uq
PUnch == UNCHANGED <<cpc, msec, cnt, cur, execs>>

(* ---- Trigger ---- *)
\* high priority: the node is linked into the urgent queue
P_Start(p) == /\ ppc[p] = "ST" /\ HasMore(p)
              /\ IF Prio(p) = "H"
                 THEN Link(p, "u") /\ ppc' = [ppc EXCEPT ![p] = "INC"]
                 ELSE ppc' = [ppc EXCEPT ![p] = "LK"] /\ UNCHANGED <<uq, lq, ptgt>>
              /\ UNCHANGED <<ulen, llen, wakeup, edge, sat, pk>> /\ PUnch
\* low priority: read the urgent queue's counter, divert to the low-priority queue at the threshold, link
P_Len(p) == /\ ppc[p] = "LK"
            /\ Link(p, IF ulen >= Thresh THEN "l" ELSE "u")
            /\ ppc' = [ppc EXCEPT ![p] = "INC"]
            /\ UNCHANGED <<ulen, llen, wakeup, edge, sat, pk>> /\ PUnch
P_Inc(p) == /\ ppc[p] = "INC"
            /\ IF ptgt[p] = "u" THEN ulen' = ulen + 1 /\ UNCHANGED llen ELSE llen' = llen + 1 /\ UNCHANGED ulen
            /\ ppc' = [ppc EXCEPT ![p] = "CAS"]
            /\ UNCHANGED <<uq, lq, wakeup, edge, sat, pk, ptgt>> /\ PUnch
P_Cas(p) == /\ ppc[p] = "CAS"
            /\ IF wakeup = 0
               THEN wakeup' = 1 /\ ppc' = [ppc EXCEPT ![p] = "WR"] /\ UNCHANGED pk
               ELSE UNCHANGED wakeup /\ ppc' = [ppc EXCEPT ![p] = "ST"] /\ pk' = [pk EXCEPT ![p] = @ + 1]
            /\ UNCHANGED <<uq, lq, ulen, llen, edge, sat, ptgt>> /\ PUnch
\* the write to the eventfd; on EAGAIN (saturated counter) read it away and come back to the same gate
P_Wr(p) == /\ ppc[p] = "WR"
           /\ IF sat THEN sat' = FALSE /\ UNCHANGED <<edge, ppc, pk>>
                     ELSE /\ edge' = TRUE /\ UNCHANGED sat
                          /\ ppc' = [ppc EXCEPT ![p] = "ST"] /\ pk' = [pk EXCEPT ![p] = @ + 1]
           /\ UNCHANGED <<uq, lq, ulen, llen, wakeup, ptgt>> /\ PUnch

(* ---- Polling ---- *)
CUnch == UNCHANGED <<ppc, pk, ptgt>>
CUnchS == CUnch /\ UNCHANGED sat
\* the dequeue attempts that follow a wake-up or the run of an urgent task:
\* urgent queue first (all of it), then the low-priority queue (at most MaxLow per round)
NextFromUrgent ==
    IF uq # <<>> THEN /\ cur' = Head(uq) /\ uq' = Tail(uq) /\ cpc' = "DU" /\ UNCHANGED <<lq, cnt>>
    ELSE IF lq # <<>> /\ MaxLow > 0
         THEN /\ cur' = Head(lq) /\ lq' = Tail(lq) /\ cpc' = "DL" /\ cnt' = 0 /\ UNCHANGED uq
         ELSE /\ cpc' = "S0" /\ UNCHANGED <<uq, lq, cur, cnt>>
\* epoll_wait: returns at once when the eventfd edge is pending (and consumes it); with msec = 0 it
\* returns with nothing, after which the loop blocks (msec = -1); with msec = -1 and no edge it blocks
C_Wait == /\ cpc = "W"
          /\ IF edge THEN /\ edge' = FALSE /\ msec' = 0 /\ NextFromUrgent /\ UNCHANGED execs
                     ELSE /\ msec = 0 /\ msec' = -1
                          /\ UNCHANGED <<edge, uq, lq, cur, cnt, cpc, execs>>
          /\ UNCHANGED <<ulen, llen, wakeup>> /\ CUnchS
\* after unlinking an urgent task: decrement the counter, run the task, try the next one
C_DU == /\ cpc = "DU" /\ ulen' = ulen - 1 /\ execs' = Append(execs, cur)
        /\ IF Stops(cur) THEN cpc' = "END" /\ UNCHANGED <<uq, lq, cur, cnt>> ELSE NextFromUrgent
        /\ UNCHANGED <<llen, wakeup, edge, msec>> /\ CUnchS
\* after unlinking a low-priority task: decrement, run it, next one while the budget lasts
C_DL == /\ cpc = "DL" /\ llen' = llen - 1 /\ execs' = Append(execs, cur)
        /\ IF Stops(cur) THEN cpc' = "END" /\ UNCHANGED <<lq, cur, cnt>>
           ELSE IF cnt + 1 < MaxLow /\ lq # <<>>
           THEN /\ cur' = Head(lq) /\ lq' = Tail(lq) /\ cnt' = cnt + 1 /\ UNCHANGED cpc
           ELSE /\ cpc' = "S0" /\ UNCHANGED <<lq, cur, cnt>>
        /\ UNCHANGED <<uq, ulen, wakeup, edge, msec>> /\ CUnchS
C_S0 == /\ cpc = "S0" /\ wakeup' = 0 /\ cpc' = "RC"
        /\ UNCHANGED <<uq, lq, ulen, llen, edge, msec, cnt, cur, execs>> /\ CUnchS
C_RC == /\ cpc = "RC" /\ cpc' = "KL"
        /\ UNCHANGED <<uq, lq, ulen, llen, wakeup, edge, msec, cnt, cur, execs>> /\ CUnchS
\* !asyncTaskQueue.IsEmpty(): if so the CAS follows immediately
CasSelf == IF wakeup = 0 THEN wakeup' = 1 /\ cpc' = "WR" ELSE UNCHANGED wakeup /\ cpc' = "W"
C_KL == /\ cpc = "KL"
        /\ IF llen # 0 THEN CasSelf ELSE cpc' = "KU" /\ UNCHANGED wakeup
        /\ UNCHANGED <<uq, lq, ulen, llen, edge, msec, cnt, cur, execs>> /\ CUnchS
C_KU == /\ cpc = "KU"
        /\ IF ulen # 0 THEN CasSelf ELSE cpc' = "W" /\ UNCHANGED wakeup
        /\ UNCHANGED <<uq, lq, ulen, llen, edge, msec, cnt, cur, execs>> /\ CUnchS
C_WR == /\ cpc = "WR"
        /\ IF sat THEN sat' = FALSE /\ UNCHANGED <<edge, cpc>> ELSE edge' = TRUE /\ cpc' = "W" /\ UNCHANGED sat
        /\ UNCHANGED <<uq, lq, ulen, llen, wakeup, msec, cnt, cur, execs>> /\ CUnch

PStep(p) == P_Start(p) \/ P_Len(p) \/ P_Inc(p) \/ P_Cas(p) \/ P_Wr(p)
CStep == C_Wait \/ C_DU \/ C_DL \/ C_S0 \/ C_RC \/ C_KL \/ C_KU \/ C_WR
Next == CStep \/ \E p \in Prods : PStep(p)
Spec == Init /\ [][Next]_vars
FairSpec == Spec /\ WF_vars(CStep) /\ \A p \in Prods : WF_vars(PStep(p))

(* ---- properties (C03) ---- *)
Accepted == {<<p, i>> : p \in Prods, i \in 1..10} \cap
            {<<p, i>> : p \in Prods, i \in 1..10} \cap { tk \in UNION {{<<p, i>> : i \in 1..Len(Script[p])} : p \in Prods} :
                  tk[2] < pk[tk[1]] \/ (tk[2] = pk[tk[1]] /\ ppc[tk[1]] \in {"INC", "CAS", "WR"}) }
ExecAtMostOnce == \A i, j \in 1..Len(execs) : i # j => execs[i] # execs[j]
ExecOnlyAccepted == \A i \in 1..Len(execs) : execs[i] \in Accepted
ProdsQuiet == \A p \in Prods : ppc[p] = "ST"
\* the loop is about to block (or blocked) with no edge pending and no producer inside Trigger: nothing may be queued
NoLostWakeup == (cpc = "W" /\ ~edge /\ ProdsQuiet) => (uq = <<>> /\ lq = <<>>)
\* high-priority requests of one producer run in issue order
HighPrioFIFO == \A i, j \in 1..Len(execs) :
    (i < j /\ execs[i][1] = execs[j][1] /\ Script[execs[i][1]][execs[i][2]] = "H" /\ Script[execs[j][1]][execs[j][2]] = "H")
        => execs[i][2] < execs[j][2]
\* mechanism: an edge or a pending self wake-up only exists while the flag is set
EdgeImpliesFlag == (edge \/ cpc = "WR" \/ \E p \in Prods : ppc[p] = "WR") => wakeup = 1
CountersLag == /\ ulen = Len(uq) - Cardinality({p \in Prods : ppc[p] = "INC" /\ ptgt[p] = "u"}) + (IF cpc = "DU" THEN 1 ELSE 0)
               /\ llen = Len(lq) - Cardinality({p \in Prods : ppc[p] = "INC" /\ ptgt[p] = "l"}) + (IF cpc = "DL" THEN 1 ELSE 0)
\* the two conjuncts of the inductive invariant of Wakeup.tla (the counter-only abstraction of this protocol that
\* Apalache proves for an unbounded number of queued tasks), restated on this module's state: they tie that proof's
\* shape to the model that is replayed on the real poller
FlagMeansWake == wakeup = 1 => (edge \/ cpc \in {"DU", "DL", "S0", "WR", "END"} \/ \E p \in Prods : ppc[p] = "WR")
ClearMeansSeen == (wakeup = 0 /\ ulen + llen > 0) => (cpc \in {"RC", "KL", "KU"} \/ \E p \in Prods : ppc[p] = "CAS")
\* a task that answered ErrEngineShutdown is the last one the loop ran, and the loop has returned
ShutdownIsFinal == \A i \in 1..Len(execs) : Stops(execs[i]) => (i = Len(execs) /\ cpc = "END")
AllIssued == \A p \in Prods : ~HasMore(p)
AllRun == AllIssued /\ Len(execs) = Cardinality(UNION {{<<p, i>> : i \in 1..Len(Script[p])} : p \in Prods})
\* every accepted request is eventually run (exactly once by ExecAtMostOnce)
EventuallyAllRun == <>[]AllRun
=============================================================================
