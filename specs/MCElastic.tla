----------------------------- MODULE MCElastic -----------------------------
EXTENDS Elastic
Kinds == {"zero", "one", "full"}
ReaderScripts(maxLen) ==
    UNION { { s \in [1..n -> Kinds \X {"nil", "EOF", "ERR"}] :
                /\ \A i \in 1..(n - 1) : s[i][2] = "nil"
                /\ s[n][2] # "nil" } : n \in 1..maxLen }
WriterScripts(maxLen) == {<<>>} \cup UNION { [1..n -> Kinds \X {"nil", "ERR"}] : n \in 1..maxLen }
\* scaled configuration, unit = 256 bytes
S_PoolCaps == {0, 4}
S_Limits   == {2, 4}
S_WSizes   == {0, 1, 2, 3, 5}
S_VLists   == {<<>>, <<1>>, <<0, 2>>, <<3, 0, 1>>, <<1, 2, 3>>, <<5, 1>>}
S_RSizes   == {-1, 0, 1, 2, 3, 7, 30}
S_RScripts == ReaderScripts(2)
S_WScripts == WriterScripts(2) \cup {<<<<"full", "nil">>, <<"full", "nil">>, <<"one", "nil">>>>, <<<<"full", "nil">>, <<"full", "nil">>, <<"full", "ERR">>>>}
\* byte-granular configuration, real constants
R_PoolCaps == {0, 1024}
R_Limits   == {1024, 4096}
R_WSizes   == {0, 1, 1023, 1024, 1025, 5000}
R_VLists   == {<<>>, <<1, 0, 1023>>, <<1024, 1>>, <<0, 0, 3>>, <<700, 700, 700>>}
R_RSizes   == {-1, 0, 1, 1023, 1025, 9000}
R_RScripts == ReaderScripts(2)
R_WScripts == WriterScripts(2)
=============================================================================
