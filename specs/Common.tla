------------------------------ MODULE Common ------------------------------
(* Operators shared by the buffer specifications. *)
EXTENDS Integers, Sequences
Min(a, b) == IF a < b THEN a ELSE b
Max(a, b) == IF a > b THEN a ELSE b
\* one answer of a scripted io.Reader / io.Writer: how many of the offered bytes it transfers
Ans(kind, offered) ==
    CASE kind = "zero" -> 0
      [] kind = "one"  -> Min(1, offered)
      [] kind = "half" -> offered \div 2
      [] kind = "full" -> offered
RECURSIVE Sum(_)
Sum(s) == IF s = <<>> THEN 0 ELSE Head(s) + Sum(Tail(s))
=============================================================================
