------------------------------ MODULE ListOps ------------------------------
(***************************************************************************)
(* The algorithms of pkg/buffer/linkedlist/linked_list_buffer.go as        *)
(* operators on the sequence of segment lengths (content in FIFO normal    *)
(* form).  Shared by LList.tla (C11) and Elastic.tla (C10).                *)
(***************************************************************************)
EXTENDS Common, FiniteSets, TLC
CONSTANT LMinRead   \* bytes offered to the reader by ReadFrom per call (512 in the code)



\* remove n <= Sum(s) bytes from the front: whole nodes are freed, a partially consumed node is
\* re-sliced and pushed back to the front
RECURSIVE DropFront(_, _)
DropFront(s, n) ==
    IF n = 0 \/ s = <<>> THEN s
    ELSE IF n < Head(s) THEN <<Head(s) - n>> \o Tail(s)
    ELSE DropFront(Tail(s), n - Head(s))

\* the first n <= Sum(s) bytes as a list of segments (Peek)
RECURSIVE TakeFront(_, _)
TakeFront(s, n) ==
    IF n = 0 \/ s = <<>> THEN <<>>
    ELSE IF n <= Head(s) THEN <<n>>
    ELSE <<Head(s)>> \o TakeFront(Tail(s), n - Head(s))

NonEmpty(s) == SelectSeq(s, LAMBDA x : x > 0)


\* ReadFrom: every byte the reader returned is stored, also those returned with EOF or an error
RECURSIVE LRF(_, _, _)
LRF(s, sc, n) ==
    LET a  == IF sc = <<>> THEN <<"zero", "EOF">> ELSE Head(sc)
        m  == Ans(a[1], LMinRead)
        s1 == IF m > 0 THEN Append(s, m) ELSE s
    IN IF a[2] = "EOF" THEN [s |-> s1, n |-> n + m, err |-> "nil"]
       ELSE IF a[2] = "ERR" THEN [s |-> s1, n |-> n + m, err |-> "ERR"]
       ELSE LRF(s1, Tail(sc), n + m)

\* WriteTo: node after node; what the writer did not take stays at the front
RECURSIVE LWT(_, _, _)
LWT(s, sc, n) ==
    IF s = <<>> THEN [s |-> s, n |-> n, err |-> "nil"]
    ELSE LET a == IF sc = <<>> THEN <<"full", "nil">> ELSE Head(sc)
             m == Ans(a[1], Head(s))
         IN IF m < Head(s)
            THEN [s |-> <<Head(s) - m>> \o Tail(s), n |-> n + m,
                  err |-> IF a[2] = "ERR" THEN "ERR" ELSE "ErrShortWrite"]
            ELSE IF a[2] = "ERR" THEN [s |-> Tail(s), n |-> n + m, err |-> "ERR"]
            ELSE LWT(Tail(s), IF sc = <<>> THEN <<>> ELSE Tail(sc), n + m)
=============================================================================
