------------------------------ MODULE Elastic ------------------------------
(***************************************************************************)
(* pkg/buffer/elastic: RingBuffer (lazily allocated, pooled ring) and      *)
(* Buffer (ring first, linked list once the static limit is reached).      *)
(* The ring part is a RingOps record, the list part a ListOps segment      *)
(* list; content is in FIFO normal form (ring bytes, then list bytes).     *)
(* Bodies follow elastic_ring_buffer.go / elastic_ring_list_buffer.go.     *)
(***************************************************************************)
EXTENDS RingOps, ListOps

CONSTANTS PoolCaps,     \* capacities of the ring the pool may hand out on lazy allocation
          StaticLimits, \* values of maxStaticBytes
          WSizes, VLists, RSizes, RScripts, WScripts,
          MaxSize, MaxSegs, MaxList, MaxDepth

VARIABLES alloc, rb, segs, ms, ret, depth
vars == <<alloc, rb, segs, ms, ret, depth>>
NoRet == [op |-> "none"]
None == NewRing(0)

RBuf  == IF alloc THEN BufferedOf(rb) ELSE 0
RLen  == IF alloc THEN rb.size ELSE 0        \* RingBuffer.Len()
RAvail == IF alloc THEN AvailOf(rb) ELSE 0
Buffered == RBuf + Sum(segs)

\* E: the composite state as a record
E == [alloc |-> alloc, rb |-> rb, segs |-> segs]
\* instance(): lazily fetch a ring of capacity c from the pool
Inst(e, c) == IF e.alloc THEN e ELSE [e EXCEPT !.alloc = TRUE, !.rb = NewRing(c)]
\* done(): give an empty ring back to the pool
Done(e) == IF e.alloc /\ e.rb.empty THEN [e EXCEPT !.alloc = FALSE, !.rb = None] ELSE e
EBuf(e) == IF e.alloc THEN BufferedOf(e.rb) ELSE 0
ELen(e) == IF e.alloc THEN e.rb.size ELSE 0
EAvail(e) == IF e.alloc THEN AvailOf(e.rb) ELSE 0
\* RingBuffer.Write: nothing happens (no allocation either) for an empty slice
RWrite(e, n, c) == IF n = 0 THEN e ELSE LET e1 == Inst(e, c) IN [e1 EXCEPT !.rb = WriteOp(e1.rb, n)]
PushB(e, n) == IF n = 0 THEN e ELSE [e EXCEPT !.segs = Append(e.segs, n)]

Set(e, newms, rt) ==
    /\ alloc' = e.alloc /\ rb' = e.rb /\ segs' = e.segs /\ ms' = newms /\ ret' = rt
    /\ e.rb.size <= MaxSize /\ e.rb.ok /\ Len(e.segs) <= MaxSegs /\ Sum(e.segs) <= MaxList
    /\ (MaxDepth = 0 \/ depth < MaxDepth)
    /\ depth' = IF MaxDepth = 0 THEN 0 ELSE depth + 1

Init == /\ alloc = FALSE /\ rb = None /\ segs = <<>> /\ ms \in StaticLimits
        /\ ret = NoRet /\ depth = 0

\* the capacity parameter only matters when the operation allocates
CapOK(c) == c \in PoolCaps /\ (alloc => c = CHOOSE x \in PoolCaps : \A y \in PoolCaps : x <= y)

(* Buffer.Write *)
WriteE(e, n, c) ==
    IF e.segs # <<>> \/ EBuf(e) >= ms THEN PushB(e, n)
    ELSE IF ELen(e) >= ms /\ n > EAvail(e)
         THEN PushB(RWrite(e, EAvail(e), c), n - EAvail(e))
         ELSE RWrite(e, n, c)
Write(n, c) ==
    /\ ret = NoRet /\ CapOK(c)
    /\ Set(WriteE(E, n, c), ms, [op |-> "Write", pb |-> Buffered, k |-> n])

(* Buffer.Writev *)
RECURSIVE VLoop(_, _, _, _)
VLoop(e, bs, writable, c) ==     \* returns the state after the first loop and the slices left for the list
    IF bs = <<>> THEN [e |-> e, rest |-> <<>>]
    ELSE LET b == Head(bs) IN
         IF b > writable
         THEN [e |-> PushB(RWrite(e, writable, c), b - writable), rest |-> Tail(bs)]
         ELSE VLoop(RWrite(e, b, c), Tail(bs), writable - b, c)
RECURSIVE PushAll(_, _)
PushAll(e, bs) == IF bs = <<>> THEN e ELSE PushAll(PushB(e, Head(bs)), Tail(bs))
WritevE(e, bs, c) ==
    IF e.segs # <<>> \/ EBuf(e) >= ms THEN PushAll(e, bs)
    ELSE LET writable == IF ELen(e) < ms THEN ms - EBuf(e) ELSE EAvail(e)
             x == VLoop(e, bs, writable, c)
         IN PushAll(x.e, x.rest)
Writev(bs, c) ==
    /\ ret = NoRet /\ CapOK(c)
    /\ Set(WritevE(E, bs, c), ms, [op |-> "Writev", pb |-> Buffered, k |-> Sum(bs)])

(* Buffer.ReadFrom *)
ReadFrom(sc, c) ==
    /\ ret = NoRet /\ CapOK(c)
    /\ IF segs # <<>> \/ RBuf >= ms
       THEN LET x == LRF(segs, sc, 0) IN
            Set([E EXCEPT !.segs = x.s], ms, [op |-> "ReadFrom", pb |-> Buffered, n |-> x.n, err |-> x.err])
       ELSE LET e1 == Inst(E, c)
                x  == RF(e1.rb, sc, 0) IN
            Set([e1 EXCEPT !.rb = x.st], ms, [op |-> "ReadFrom", pb |-> Buffered, n |-> x.n, err |-> x.err])

(* Buffer.Read *)
Read(k) ==
    /\ ret = NoRet
    /\ LET x  == IF alloc THEN ReadOp(rb, k) ELSE [st |-> rb, n |-> 0, err |-> "ErrIsEmpty"]
           e1 == Done([E EXCEPT !.rb = x.st])
       IN IF x.n = k \/ k <= 0
          THEN Set(e1, ms, [op |-> "Read", pb |-> Buffered, k |-> k, n |-> x.n, err |-> x.err])
          ELSE LET m == Min(k - x.n, Sum(segs)) IN
               Set([e1 EXCEPT !.segs = DropFront(segs, m)], ms,
                   [op |-> "Read", pb |-> Buffered, k |-> k, n |-> x.n + m, err |-> IF m = 0 THEN "EOF" ELSE "nil"])

(* Buffer.Peek: non-empty segments of the answer *)
Peek(k) ==
    /\ ret = NoRet
    /\ LET p   == IF alloc THEN PeekOp(rb, k) ELSE [hl |-> 0, tl |-> 0]
           all == NonEmpty(<<p.hl, p.tl>>) \o segs
       IN IF k <= 0 THEN Set(E, ms, [op |-> "Peek", pb |-> Buffered, k |-> k, parts |-> all, err |-> "nil"])
          ELSE IF k > Buffered THEN Set(E, ms, [op |-> "Peek", pb |-> Buffered, k |-> k, parts |-> <<>>, err |-> "ErrShortBuffer"])
          ELSE Set(E, ms, [op |-> "Peek", pb |-> Buffered, k |-> k, parts |-> TakeFront(all, k), err |-> "nil"])

(* Buffer.Discard *)
Discard(k) ==
    /\ ret = NoRet
    /\ LET x  == IF alloc THEN DiscardOp(rb, k) ELSE [st |-> rb, n |-> 0]
           e1 == Done([E EXCEPT !.rb = x.st])
       IN IF k <= x.n
          THEN Set(e1, ms, [op |-> "Discard", pb |-> Buffered, k |-> k, n |-> x.n])
          ELSE LET m == Min(k - x.n, Sum(segs)) IN
               Set([e1 EXCEPT !.segs = DropFront(segs, m)], ms, [op |-> "Discard", pb |-> Buffered, k |-> k, n |-> x.n + m])

(* Buffer.WriteTo: the ring part first (skipped when it holds nothing), then the list; an     *)
(* error of the writer stops it.  (Until the repair recorded in known_findings.json an empty  *)
(* ring part made WriteTo fail with ErrIsEmpty even though the list held data.)               *)
WriteTo(sc) ==
    /\ ret = NoRet
    /\ LET ringPart == alloc /\ ~rb.empty
           x  == IF ringPart THEN WT(rb, sc) ELSE [st |-> rb, n |-> 0, err |-> "nil", used |-> 0]
           e1 == IF ringPart THEN Done([E EXCEPT !.rb = x.st]) ELSE E
       IN IF x.err # "nil"
          THEN Set(e1, ms, [op |-> "WriteTo", pb |-> Buffered, n |-> x.n, err |-> x.err])
          ELSE LET y == LWT(segs, SubSeq(sc, x.used + 1, Len(sc)), 0) IN
               Set([e1 EXCEPT !.segs = y.s], ms, [op |-> "WriteTo", pb |-> Buffered, n |-> x.n + y.n, err |-> y.err])

(* Buffer.Reset(maxStaticBytes): the ring is reset but kept *)
Reset(newms) ==
    /\ ret = NoRet
    /\ Set([E EXCEPT !.rb = IF alloc THEN ResetSt(rb) ELSE rb, !.segs = <<>>],
           IF newms > 0 THEN newms ELSE ms, [op |-> "Reset", pb |-> Buffered])

(* Buffer.Release: the ring goes back to the pool *)
Release ==
    /\ ret = NoRet
    /\ Set([alloc |-> FALSE, rb |-> None, segs |-> <<>>], ms, [op |-> "Release", pb |-> Buffered])

Norm == ret # NoRet /\ ret' = NoRet /\ UNCHANGED <<alloc, rb, segs, ms, depth>>

Next == \/ Norm
        \/ \E n \in WSizes, c \in PoolCaps : Write(n, c)
        \/ \E bs \in VLists, c \in PoolCaps : Writev(bs, c)
        \/ \E sc \in RScripts, c \in PoolCaps : ReadFrom(sc, c)
        \/ \E k \in RSizes : Read(k) \/ Peek(k) \/ Discard(k)
        \/ \E sc \in WScripts : WriteTo(sc)
        \/ \E m \in StaticLimits \cup {0} : Reset(m)
        \/ Release

Spec == Init /\ [][Next]_vars

(* ---- invariants (C10) ---- *)
TypeOK == alloc \in BOOLEAN /\ ms \in StaticLimits /\ Len(segs) <= MaxSegs
NoEmptyNodes == \A i \in 1..Len(segs) : segs[i] > 0
\* an unallocated ring holds nothing; consuming operations hand an emptied ring back at once
LazyRing == /\ ~alloc => rb = None
            \* (WriteTo leaves an allocated ring that was already empty alone: it only hands back a ring it has drained)
            /\ (ret.op \in {"Read", "Discard", "Release"} /\ alloc) => ~rb.empty
RingContentOK == (TrackCells /\ alloc) =>
    \A j \in 0..(rb.size - 1) : rb.buf[(rb.r + j) % rb.size] = IF j < BufferedOf(rb) THEN j ELSE -1
RingAccounting == alloc => /\ BufferedOf(rb) + AvailOf(rb) = rb.size
                           /\ (rb.empty <=> BufferedOf(rb) = 0)
\* the list is only used once the ring has reached the static limit (or already holds list data):
\* bytes never go to the ring while the list is non-empty, which is what keeps the order
RetOK ==
    CASE ret.op \in {"Write", "Writev"} -> Buffered = ret.pb + ret.k
      [] ret.op = "ReadFrom" -> Buffered = ret.pb + ret.n
      [] ret.op = "Read"     -> Buffered = ret.pb - ret.n /\ ret.n = (IF ret.k <= 0 THEN 0 ELSE Min(ret.k, ret.pb))
      [] ret.op = "Peek"     -> /\ Buffered = ret.pb
                                /\ ret.err = "nil" => Sum(ret.parts) = (IF ret.k <= 0 THEN ret.pb ELSE ret.k)
                                /\ (ret.err # "nil") <=> (ret.k > ret.pb)
      [] ret.op = "Discard"  -> Buffered = ret.pb - ret.n /\ ret.n = (IF ret.k <= 0 THEN 0 ELSE Min(ret.k, ret.pb))
      [] ret.op = "WriteTo"  -> Buffered = ret.pb - ret.n /\ (ret.err = "nil" => Buffered = 0)
      [] ret.op \in {"Reset", "Release"} -> Buffered = 0
      [] OTHER -> TRUE
=============================================================================
