------------------------------- MODULE LBTrace -------------------------------
(* Trace validation for LB.tla: decisions of the real balancers (any number of loops up to 256). *)
EXTENDS LB, Json
Trace == ndJsonDeserialize("trace.ndjson")
VARIABLE l
tvars == <<n, policy, counts, rr, got, memo, ret, l>>
Ev == Trace[l]
Is(e) == l <= Len(Trace) /\ Ev.ev = e /\ l' = l + 1
Mark == TLCSet(1, l')
TInit == /\ n = 1 /\ policy = "rr" /\ counts = <<0>> /\ got = <<0>> /\ rr = 0 /\ memo = {} /\ ret = [op |-> "Start"]
         /\ l = 1 /\ TLCSet(1, 1)
TStart == Is("Start") /\ Start(Ev.n, Ev.policy) /\ Mark
TNextEv == /\ Is("Next")
           /\ \/ RRNext(Ev.loop)
              \/ LCNext(Ev.loop)
              \/ HashNext(Ev.addr, Ev.loop)
           /\ Mark
TClose == Is("Close") /\ Close(Ev.loop) /\ Mark
TNext == TStart \/ TNextEv \/ TClose
Accepted == IF TLCGet(1) = Len(Trace) + 1 THEN TRUE
            ELSE /\ PrintT(<<"TRACE_REJECTED_AT", TLCGet(1), Trace[TLCGet(1)]>>)
                 /\ FALSE
=============================================================================
