------------------------------- MODULE Ring -------------------------------
(***************************************************************************)
(* pkg/buffer/ring.Buffer at representation level: (size, r, w, isEmpty)   *)
(* plus the cell array.  One action per public method; the bodies follow   *)
(* ring_buffer.go branch by branch so that the state graph can be replayed *)
(* into the real object (channel A) and recorded executions of the real    *)
(* object can be validated against it (channel B, RingTrace.tla).          *)
(*                                                                         *)
(* Content is a FIFO of a position-stamped stream, so a cell holds the     *)
(* offset of its byte from the front of the queue (0 = next byte to be     *)
(* read) or -1 when it holds no live byte.  This normal form makes the     *)
(* cell array a function of (size, r, w, isEmpty) exactly when the         *)
(* representation invariant ContentOK holds, which is what TLC checks.     *)
(*                                                                         *)
(* Sizes are in model units; the harness multiplies by its scale factor    *)
(* (256 for the exhaustive configuration where MinRead=2, DefaultSize=4,   *)
(* GrowThreshold=16 stand for 512/1024/4096 bytes; 1 for configurations    *)
(* that use the real constants).                                           *)
(***************************************************************************)
EXTENDS RingOps

CONSTANTS InitCaps,      \* capacities ring.New is called with
          WSizes,        \* argument sizes of Write
          RSizes,        \* argument sizes of Read / Peek / Discard (may contain 0 and -1)
          MaxSize,       \* transitions that would grow beyond it are not generated
          ByteOps,       \* enable WriteByte / ReadByte
          RScripts,      \* reader behaviours for ReadFrom: sequences of <<kind, err>>
          WScripts,      \* writer behaviours for WriteTo:  sequences of <<kind, err>>
          MaxDepth       \* 0: unbounded; otherwise at most MaxDepth operations per behaviour

VARIABLES size, r, w, empty, buf, ret, depth
vars == <<size, r, w, empty, buf, ret, depth>>

St == [size |-> size, r |-> r, w |-> w, empty |-> empty, buf |-> buf, ok |-> TRUE]

(* ---- actions ---- *)
NoRet == [op |-> "none"]
Set(s, rt) == /\ ret = NoRet
              /\ size' = s.size /\ r' = s.r /\ w' = s.w /\ empty' = s.empty /\ buf' = s.buf
              /\ ret' = rt
              /\ s.size <= MaxSize /\ s.ok
              /\ (MaxDepth = 0 \/ depth < MaxDepth)
              /\ depth' = IF MaxDepth = 0 THEN 0 ELSE depth + 1

Init == /\ size \in InitCaps
        /\ r = 0 /\ w = 0 /\ empty = TRUE
        /\ buf = NoCells(size)
        /\ ret = NoRet
        /\ depth = 0

Write(n) ==
    /\ ret = NoRet
    /\ LET s  == St
           s1 == IF n > AvailOf(s) THEN Grow(s, s.size + n - AvailOf(s)) ELSE s
       IN Set(IF n = 0 THEN s ELSE Store(s1, n), [op |-> "Write", pb |-> BufferedOf(s), k |-> n, n |-> n])

WriteByte ==
    /\ ret = NoRet /\ ByteOps
    /\ LET s  == St
           s1 == IF AvailOf(s) < 1 THEN Grow(s, s.size + 1) ELSE s
       IN Set(Store(s1, 1), [op |-> "WriteByte", pb |-> BufferedOf(s)])

Read(k) ==
    /\ ret = NoRet
    /\ LET s == St
           n == Min(BufferedOf(s), k)
       IN IF k <= 0 THEN Set(s, [op |-> "Read", pb |-> BufferedOf(s), k |-> k, n |-> 0, err |-> "nil"])
          ELSE IF s.empty THEN Set(s, [op |-> "Read", pb |-> 0, k |-> k, n |-> 0, err |-> "ErrIsEmpty"])
          ELSE Set(Consume(s, n), [op |-> "Read", pb |-> BufferedOf(s), k |-> k, n |-> n, err |-> "nil"])

ReadByte ==
    /\ ret = NoRet /\ ByteOps
    /\ LET s == St IN
       IF s.empty THEN Set(s, [op |-> "ReadByte", pb |-> 0, n |-> 0, err |-> "ErrIsEmpty"])
       ELSE Set(Consume(s, 1), [op |-> "ReadByte", pb |-> BufferedOf(s), n |-> 1, err |-> "nil"])

Peek(k) ==
    /\ ret = NoRet
    /\ LET s == St
           b == BufferedOf(s)
           m == IF k <= 0 THEN b ELSE Min(b, k)
           hl == IF s.empty THEN 0
                 ELSE IF s.w > s.r THEN m
                 ELSE IF s.r + m <= s.size THEN m ELSE s.size - s.r
       IN Set(s, [op |-> "Peek", pb |-> b, k |-> k, hl |-> hl, tl |-> m - hl])

Discard(k) ==
    /\ ret = NoRet
    /\ LET s == St
           b == BufferedOf(s)
       IN IF k <= 0 THEN Set(s, [op |-> "Discard", pb |-> b, k |-> k, n |-> 0])
          ELSE IF k < b THEN Set([s EXCEPT !.r = (s.r + k) % s.size, !.buf = Shift(s.buf, k)],
                                 [op |-> "Discard", pb |-> b, k |-> k, n |-> k])
          ELSE Set(ResetSt(s), [op |-> "Discard", pb |-> b, k |-> k, n |-> b])

Bytes ==
    /\ ret = NoRet
    /\ Set(St, [op |-> "Bytes", pb |-> BufferedOf(St), n |-> BufferedOf(St)])

Reset ==
    /\ ret = NoRet
    /\ Set(ResetSt(St), [op |-> "Reset", pb |-> BufferedOf(St)])

ReadFrom(sc) ==
    /\ ret = NoRet
    /\ LET res == RF(St, sc, 0)
       IN Set(res.st, [op |-> "ReadFrom", pb |-> BufferedOf(St), n |-> res.n, err |-> res.err])

WriteTo(sc) ==
    /\ ret = NoRet
    /\ LET res == WT(St, sc)
       IN Set(res.st, [op |-> "WriteTo", pb |-> BufferedOf(St), n |-> res.n, err |-> res.err])

\* The result of an operation is part of the state it leads to; Norm forgets it, so that
\* operations are only explored from result-free states (the graph stays linear in the
\* number of (state, operation) pairs) and every labelled edge still carries its result.
Norm == ret # NoRet /\ ret' = NoRet /\ UNCHANGED <<size, r, w, empty, buf, depth>>

Next == \/ Norm
        \/ \E n \in WSizes : Write(n)
        \/ \E k \in RSizes : Read(k) \/ Peek(k) \/ Discard(k)
        \/ Bytes
        \/ Reset
        \/ WriteByte
        \/ ReadByte
        \/ \E sc \in RScripts : ReadFrom(sc)
        \/ \E sc \in WScripts : WriteTo(sc)

Spec == Init /\ [][Next]_vars

(* ---- invariants (C09) ---- *)
TypeOK == /\ size \in 0..MaxSize
          /\ r \in 0..(IF size = 0 THEN 0 ELSE size - 1)
          /\ w \in 0..(IF size = 0 THEN 0 ELSE size - 1)
          /\ empty \in BOOLEAN

\* Buffered + Available = Cap, IsEmpty iff Buffered = 0, IsFull iff Available = 0 (for Cap > 0)
Accounting == /\ BufferedOf(St) + AvailOf(St) = size
              /\ empty <=> BufferedOf(St) = 0
              /\ size > 0 => (IsFullOf(St) <=> AvailOf(St) = 0)

\* an empty buffer is always in the canonical position
EmptyCanon == empty => (r = 0 /\ w = 0)

\* the cells, read from r, hold exactly the FIFO content 0,1,..,Buffered-1 and nothing else
ContentOK == TrackCells =>
    \A j \in 0..(size - 1) :
        buf[(r + j) % size] = IF j < BufferedOf(St) THEN j ELSE -1

\* reported counts equal the bytes actually moved; only read-type operations consume
RetOK ==
    LET b == BufferedOf(St) IN
    CASE ret.op = "Write"     -> b = ret.pb + ret.k
      [] ret.op = "WriteByte" -> b = ret.pb + 1
      [] ret.op = "Read"      -> /\ b = ret.pb - ret.n
                                 /\ ret.n = (IF ret.k <= 0 THEN 0 ELSE Min(ret.k, ret.pb))
                                 /\ (ret.err = "ErrIsEmpty") <=> (ret.k > 0 /\ ret.pb = 0)
      [] ret.op = "ReadByte"  -> b = ret.pb - ret.n /\ ret.n = Min(1, ret.pb)
      [] ret.op = "Peek"      -> /\ b = ret.pb
                                 /\ ret.hl + ret.tl = (IF ret.k <= 0 THEN ret.pb ELSE Min(ret.k, ret.pb))
      [] ret.op = "Discard"   -> b = ret.pb - ret.n /\ ret.n = (IF ret.k <= 0 THEN 0 ELSE Min(ret.k, ret.pb))
      [] ret.op = "Bytes"     -> b = ret.pb /\ ret.n = b
      [] ret.op = "Reset"     -> b = 0
      [] ret.op = "ReadFrom"  -> b = ret.pb + ret.n
      [] ret.op = "WriteTo"   -> /\ b = ret.pb - ret.n
                                 /\ (ret.err = "nil") => b = 0
                                 /\ (ret.err = "ErrIsEmpty") <=> ret.pb = 0
      [] OTHER -> TRUE
=============================================================================
