------------------------------- MODULE Ring -------------------------------
(***************************************************************************)
(* pkg/buffer/ring.Buffer at representation level: (size, r, w, isEmpty)   *)
(* plus the cell array.  One action per public method; the bodies follow   *)
(* ring_buffer.go branch by branch so that the state graph can be replayed *)
(* into the real object (channel A) and recorded executions of the real    *)
(* object can be validated against it (channel B, RingTrace.tla).          *)
(*                                                                         *)
(* Content is a FIFO of a position-stamped stream, so a cell holds the     *)
(* offset of its byte from the front of the queue (0 = next byte to be     *)
(* read) or -1 when it holds no live byte.  This normal form makes the     *)
(* cell array a function of (size, r, w, isEmpty) exactly when the         *)
(* representation invariant ContentOK holds, which is what TLC checks.     *)
(*                                                                         *)
(* Sizes are in model units; the harness multiplies by its scale factor    *)
(* (256 for the exhaustive configuration where MinRead=2, DefaultSize=4,   *)
(* GrowThreshold=16 stand for 512/1024/4096 bytes; 1 for configurations    *)
(* that use the real constants).                                           *)
(***************************************************************************)
EXTENDS Integers, Sequences, FiniteSets, TLC

CONSTANTS MinRead, DefaultSize, GrowThreshold,
          InitCaps,      \* capacities ring.New is called with
          WSizes,        \* argument sizes of Write
          RSizes,        \* argument sizes of Read / Peek / Discard (may contain 0 and -1)
          MaxSize,       \* transitions that would grow beyond it are not generated
          TrackCells,    \* model the cell array (exhaustive configs) or not (real-size configs)
          ByteOps,       \* enable WriteByte / ReadByte
          RScripts,      \* reader behaviours for ReadFrom: sequences of <<kind, err>>
          WScripts,      \* writer behaviours for WriteTo:  sequences of <<kind, err>>
          MaxDepth,      \* 0: unbounded; otherwise at most MaxDepth operations per behaviour
          UnitIsByte     \* TRUE when one model unit is one byte (n/4 of the growth policy is then exact)

VARIABLES size, r, w, empty, buf, ret, depth
vars == <<size, r, w, empty, buf, ret, depth>>

Min(a, b) == IF a < b THEN a ELSE b

RECURSIVE P2(_, _)
P2(n, p) == IF p >= n THEN p ELSE P2(n, 2 * p)
CeilPow2(n) == IF n <= 2 THEN 2 ELSE P2(n, 2)

\* ok: the transition is exact at the model's granularity (see QuarterOK)
St == [size |-> size, r |-> r, w |-> w, empty |-> empty, buf |-> buf, ok |-> TRUE]

(* ---- observers, as in the code ---- *)
BufferedOf(s) == IF s.r = s.w THEN (IF s.empty THEN 0 ELSE s.size)
                 ELSE IF s.w > s.r THEN s.w - s.r ELSE s.size - s.r + s.w
AvailOf(s)    == IF s.r = s.w THEN (IF s.empty THEN s.size ELSE 0)
                 ELSE IF s.w < s.r THEN s.r - s.w ELSE s.size - s.w + s.r
IsFullOf(s)   == s.r = s.w /\ ~s.empty

(* ---- cells ---- *)
NoCells(n)   == IF TrackCells THEN [i \in 0..(n - 1) |-> -1] ELSE <<>>
Linear(n, b) == IF TrackCells THEN [i \in 0..(n - 1) |-> IF i < b THEN i ELSE -1] ELSE <<>>
PutSeg(f, at, cnt, v0) == [i \in DOMAIN f |-> IF i >= at /\ i < at + cnt THEN v0 + (i - at) ELSE f[i]]
Shift(f, n)  == [i \in DOMAIN f |-> IF f[i] < n THEN -1 ELSE f[i] - n]

ResetSt(s) == [s EXCEPT !.r = 0, !.w = 0, !.empty = TRUE, !.buf = NoCells(s.size)]

(* ---- grow(newCap), ring_buffer.go:487 ---- *)
RECURSIVE Quarter(_, _)
Quarter(n, c) == IF n < c THEN Quarter(n + (n \div 4), c) ELSE n
\* With a model unit of 256 bytes, n + n/4 is only exact when n is a multiple of 4 units;
\* transitions that would need a fraction of a unit are not generated (they are covered at
\* byte granularity by the real-constant configuration and by trace validation).
RECURSIVE QuarterOK(_, _)
QuarterOK(n, c) == IF n < c THEN (n % 4 = 0 /\ QuarterOK(n + (n \div 4), c)) ELSE TRUE
GrowOK(n, newCap) == UnitIsByte \/ n = 0 \/ newCap > 2 * n \/ n < GrowThreshold \/ QuarterOK(n, newCap)
GrowCap(n, newCap) ==
    IF n = 0 THEN (IF newCap <= DefaultSize THEN DefaultSize ELSE CeilPow2(newCap))
    ELSE IF newCap <= 2 * n
         THEN (IF n < GrowThreshold THEN 2 * n ELSE Quarter(n, newCap))
         ELSE newCap
Grow(s, newCap) ==
    LET c == GrowCap(s.size, newCap)
        b == BufferedOf(s)
    IN [size |-> c, r |-> 0, w |-> b, empty |-> (b = 0), buf |-> Linear(c, b),
        ok |-> s.ok /\ GrowOK(s.size, newCap)]

(* ---- store n fresh bytes at w (two-segment copy of Write) ---- *)
Store(s, n) ==
    LET b == BufferedOf(s) IN
    IF n = 0 THEN s ELSE
    IF s.w >= s.r
    THEN LET c1 == s.size - s.w IN
         IF c1 >= n
         THEN [s EXCEPT !.buf = PutSeg(s.buf, s.w, n, b),
                        !.w = IF s.w + n = s.size THEN 0 ELSE s.w + n, !.empty = FALSE]
         ELSE [s EXCEPT !.buf = PutSeg(PutSeg(s.buf, s.w, c1, b), 0, n - c1, b + c1),
                        !.w = IF n - c1 = s.size THEN 0 ELSE n - c1, !.empty = FALSE]
    ELSE [s EXCEPT !.buf = PutSeg(s.buf, s.w, n, b),
                   !.w = IF s.w + n = s.size THEN 0 ELSE s.w + n, !.empty = FALSE]

(* ---- consume n <= Buffered bytes at r, Reset when the last byte goes ---- *)
Consume(s, n) ==
    IF n = 0 THEN s ELSE
    LET r1 == (s.r + n) % s.size
        s1 == [s EXCEPT !.r = r1, !.buf = Shift(s.buf, n)]
    IN IF r1 = s.w THEN ResetSt(s1) ELSE s1

(* ---- io.Reader / io.Writer behaviours ---- *)
Ans(kind, offered) ==
    CASE kind = "zero" -> 0
      [] kind = "one"  -> Min(1, offered)
      [] kind = "half" -> offered \div 2
      [] kind = "full" -> offered
Hd(sc) == IF sc = <<>> THEN <<"zero", "EOF">> ELSE Head(sc)
Tl(sc) == IF sc = <<>> THEN <<>> ELSE Tail(sc)

(* ReadFrom, ring_buffer.go:343.  A read of m bytes into buf[w:] stores them *)
(* at w; the buffer stops being empty only if m > 0; the second read into    *)
(* buf[:r] happens only once the first segment is filled (w wrapped to 0).   *)
StoreAtW(s, m) ==
    IF m = 0 THEN s
    ELSE [s EXCEPT !.buf = PutSeg(s.buf, s.w, m, BufferedOf(s)),
                   !.w = (s.w + m) % s.size, !.empty = FALSE]
RECURSIVE RF(_, _, _)
RF(s0, sc, n) ==
    LET s == IF AvailOf(s0) < MinRead THEN Grow(s0, BufferedOf(s0) + MinRead) ELSE s0 IN
    IF s.w >= s.r
    THEN LET a  == Hd(sc)
             m  == Ans(a[1], s.size - s.w)
             s1 == StoreAtW(s, m)
         IN IF a[2] = "EOF" THEN [st |-> s1, n |-> n + m, err |-> "nil"]
            ELSE IF a[2] = "ERR" THEN [st |-> s1, n |-> n + m, err |-> "ERR"]
            ELSE IF s1.w # 0 THEN RF(s1, Tl(sc), n + m)
            ELSE LET a2 == Hd(Tl(sc))
                     m2 == Ans(a2[1], s1.r)
                     s2 == StoreAtW(s1, m2)
                 IN IF a2[2] = "EOF" THEN [st |-> s2, n |-> n + m + m2, err |-> "nil"]
                    ELSE IF a2[2] = "ERR" THEN [st |-> s2, n |-> n + m + m2, err |-> "ERR"]
                    ELSE RF(s2, Tl(Tl(sc)), n + m + m2)
    ELSE LET a  == Hd(sc)
             m  == Ans(a[1], s.r - s.w)
             s1 == StoreAtW(s, m)
         IN IF a[2] = "EOF" THEN [st |-> s1, n |-> n + m, err |-> "nil"]
            ELSE IF a[2] = "ERR" THEN [st |-> s1, n |-> n + m, err |-> "ERR"]
            ELSE RF(s1, Tl(sc), n + m)

(* WriteTo, ring_buffer.go:395: at most two Write calls on the writer. *)
WAns(sc, k) == IF Len(sc) >= k THEN sc[k] ELSE <<"full", "nil">>
WT(s, sc) ==
    IF s.empty THEN [st |-> s, n |-> 0, err |-> "ErrIsEmpty"] ELSE
    LET b == BufferedOf(s) IN
    IF s.w > s.r \/ s.r + b <= s.size
    THEN LET a  == WAns(sc, 1)
             m  == Ans(a[1], b)
             s1 == Consume(s, m)
         IN [st |-> s1, n |-> m,
             err |-> IF a[2] # "nil" THEN "ERR" ELSE IF ~s1.empty THEN "ErrShortWrite" ELSE "nil"]
    ELSE LET c1 == s.size - s.r
             a  == WAns(sc, 1)
             m  == Ans(a[1], c1)
             s1 == [s EXCEPT !.r = (s.r + m) % s.size, !.buf = Shift(s.buf, m)]
         IN IF a[2] # "nil" THEN [st |-> s1, n |-> m, err |-> "ERR"]
            ELSE IF m < c1 THEN [st |-> s1, n |-> m, err |-> "ErrShortWrite"]
            ELSE LET c2 == b - c1
                     a2 == WAns(sc, 2)
                     m2 == Ans(a2[1], c2)
                     s2 == IF m2 = s.w THEN ResetSt([s1 EXCEPT !.buf = Shift(s1.buf, m2)])
                                       ELSE [s1 EXCEPT !.r = m2, !.buf = Shift(s1.buf, m2)]
                 IN [st |-> s2, n |-> m + m2,
                     err |-> IF a2[2] # "nil" THEN "ERR" ELSE IF ~s2.empty THEN "ErrShortWrite" ELSE "nil"]

(* ---- actions ---- *)
NoRet == [op |-> "none"]
Set(s, rt) == /\ ret = NoRet
              /\ size' = s.size /\ r' = s.r /\ w' = s.w /\ empty' = s.empty /\ buf' = s.buf
              /\ ret' = rt
              /\ s.size <= MaxSize /\ s.ok
              /\ (MaxDepth = 0 \/ depth < MaxDepth)
              /\ depth' = IF MaxDepth = 0 THEN 0 ELSE depth + 1

Init == /\ size \in InitCaps
        /\ r = 0 /\ w = 0 /\ empty = TRUE
        /\ buf = NoCells(size)
        /\ ret = NoRet
        /\ depth = 0

Write(n) ==
    /\ ret = NoRet
    /\ LET s  == St
           s1 == IF n > AvailOf(s) THEN Grow(s, s.size + n - AvailOf(s)) ELSE s
       IN Set(IF n = 0 THEN s ELSE Store(s1, n), [op |-> "Write", pb |-> BufferedOf(s), k |-> n, n |-> n])

WriteByte ==
    /\ ret = NoRet /\ ByteOps
    /\ LET s  == St
           s1 == IF AvailOf(s) < 1 THEN Grow(s, s.size + 1) ELSE s
       IN Set(Store(s1, 1), [op |-> "WriteByte", pb |-> BufferedOf(s)])

Read(k) ==
    /\ ret = NoRet
    /\ LET s == St
           n == Min(BufferedOf(s), k)
       IN IF k <= 0 THEN Set(s, [op |-> "Read", pb |-> BufferedOf(s), k |-> k, n |-> 0, err |-> "nil"])
          ELSE IF s.empty THEN Set(s, [op |-> "Read", pb |-> 0, k |-> k, n |-> 0, err |-> "ErrIsEmpty"])
          ELSE Set(Consume(s, n), [op |-> "Read", pb |-> BufferedOf(s), k |-> k, n |-> n, err |-> "nil"])

ReadByte ==
    /\ ret = NoRet /\ ByteOps
    /\ LET s == St IN
       IF s.empty THEN Set(s, [op |-> "ReadByte", pb |-> 0, n |-> 0, err |-> "ErrIsEmpty"])
       ELSE Set(Consume(s, 1), [op |-> "ReadByte", pb |-> BufferedOf(s), n |-> 1, err |-> "nil"])

Peek(k) ==
    /\ ret = NoRet
    /\ LET s == St
           b == BufferedOf(s)
           m == IF k <= 0 THEN b ELSE Min(b, k)
           hl == IF s.empty THEN 0
                 ELSE IF s.w > s.r THEN m
                 ELSE IF s.r + m <= s.size THEN m ELSE s.size - s.r
       IN Set(s, [op |-> "Peek", pb |-> b, k |-> k, hl |-> hl, tl |-> m - hl])

Discard(k) ==
    /\ ret = NoRet
    /\ LET s == St
           b == BufferedOf(s)
       IN IF k <= 0 THEN Set(s, [op |-> "Discard", pb |-> b, k |-> k, n |-> 0])
          ELSE IF k < b THEN Set([s EXCEPT !.r = (s.r + k) % s.size, !.buf = Shift(s.buf, k)],
                                 [op |-> "Discard", pb |-> b, k |-> k, n |-> k])
          ELSE Set(ResetSt(s), [op |-> "Discard", pb |-> b, k |-> k, n |-> b])

Bytes ==
    /\ ret = NoRet
    /\ Set(St, [op |-> "Bytes", pb |-> BufferedOf(St), n |-> BufferedOf(St)])

Reset ==
    /\ ret = NoRet
    /\ Set(ResetSt(St), [op |-> "Reset", pb |-> BufferedOf(St)])

ReadFrom(sc) ==
    /\ ret = NoRet
    /\ LET res == RF(St, sc, 0)
       IN Set(res.st, [op |-> "ReadFrom", pb |-> BufferedOf(St), n |-> res.n, err |-> res.err])

WriteTo(sc) ==
    /\ ret = NoRet
    /\ LET res == WT(St, sc)
       IN Set(res.st, [op |-> "WriteTo", pb |-> BufferedOf(St), n |-> res.n, err |-> res.err])

\* The result of an operation is part of the state it leads to; Norm forgets it, so that
\* operations are only explored from result-free states (the graph stays linear in the
\* number of (state, operation) pairs) and every labelled edge still carries its result.
Norm == ret # NoRet /\ ret' = NoRet /\ UNCHANGED <<size, r, w, empty, buf, depth>>

Next == \/ Norm
        \/ \E n \in WSizes : Write(n)
        \/ \E k \in RSizes : Read(k) \/ Peek(k) \/ Discard(k)
        \/ Bytes
        \/ Reset
        \/ WriteByte
        \/ ReadByte
        \/ \E sc \in RScripts : ReadFrom(sc)
        \/ \E sc \in WScripts : WriteTo(sc)

Spec == Init /\ [][Next]_vars

(* ---- invariants (C09) ---- *)
TypeOK == /\ size \in 0..MaxSize
          /\ r \in 0..(IF size = 0 THEN 0 ELSE size - 1)
          /\ w \in 0..(IF size = 0 THEN 0 ELSE size - 1)
          /\ empty \in BOOLEAN

\* Buffered + Available = Cap, IsEmpty iff Buffered = 0, IsFull iff Available = 0 (for Cap > 0)
Accounting == /\ BufferedOf(St) + AvailOf(St) = size
              /\ empty <=> BufferedOf(St) = 0
              /\ size > 0 => (IsFullOf(St) <=> AvailOf(St) = 0)

\* an empty buffer is always in the canonical position
EmptyCanon == empty => (r = 0 /\ w = 0)

\* the cells, read from r, hold exactly the FIFO content 0,1,..,Buffered-1 and nothing else
ContentOK == TrackCells =>
    \A j \in 0..(size - 1) :
        buf[(r + j) % size] = IF j < BufferedOf(St) THEN j ELSE -1

\* reported counts equal the bytes actually moved; only read-type operations consume
RetOK ==
    LET b == BufferedOf(St) IN
    CASE ret.op = "Write"     -> b = ret.pb + ret.k
      [] ret.op = "WriteByte" -> b = ret.pb + 1
      [] ret.op = "Read"      -> /\ b = ret.pb - ret.n
                                 /\ ret.n = (IF ret.k <= 0 THEN 0 ELSE Min(ret.k, ret.pb))
                                 /\ (ret.err = "ErrIsEmpty") <=> (ret.k > 0 /\ ret.pb = 0)
      [] ret.op = "ReadByte"  -> b = ret.pb - ret.n /\ ret.n = Min(1, ret.pb)
      [] ret.op = "Peek"      -> /\ b = ret.pb
                                 /\ ret.hl + ret.tl = (IF ret.k <= 0 THEN ret.pb ELSE Min(ret.k, ret.pb))
      [] ret.op = "Discard"   -> b = ret.pb - ret.n /\ ret.n = (IF ret.k <= 0 THEN 0 ELSE Min(ret.k, ret.pb))
      [] ret.op = "Bytes"     -> b = ret.pb /\ ret.n = b
      [] ret.op = "Reset"     -> b = 0
      [] ret.op = "ReadFrom"  -> b = ret.pb + ret.n
      [] ret.op = "WriteTo"   -> /\ b = ret.pb - ret.n
                                 /\ (ret.err = "nil") => b = 0
                                 /\ (ret.err = "ErrIsEmpty") <=> ret.pb = 0
      [] OTHER -> TRUE
=============================================================================
