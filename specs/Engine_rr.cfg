SPECIFICATION Spec
CONSTANTS NLoops = 2  MaxConns = 3  MaxRegs = 0  ReusePort = FALSE  LB = "rr"  Ticker = FALSE
          Sources = {"stop", "open", "close"}
INVARIANTS TypeOK OnShutdownOnce AllOpenedClosedBeforeReturn NothingRunsAfterReturn ListenersOutliveLoops RRBalanced
           MainLast InShutdownMeansDone LeakOnlyBehindExit QueuedIsInQueue
PROPERTIES Termination LoopsFinish
CHECK_DEADLOCK FALSE
