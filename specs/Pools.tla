------------------------------- MODULE Pools -------------------------------
(***************************************************************************)
(* pkg/pool/byteslice and pkg/pool/ringbuffer as an ownership ledger.      *)
(*                                                                         *)
(* allocCap[a]  capacity of backing array a (arrays are never freed in the *)
(*              model: the harness keeps every array alive)                *)
(* out          slices currently handed out: [a, off, len, cap]            *)
(* pooled       regions sitting in the size-class pools: [a, off, cls]     *)
(*              (a pointer to byte off of array a, assumed 2^cls long)     *)
(* held / idle  ring buffers handed out / sitting in the ring pool         *)
(*                                                                         *)
(* sync.Pool may drop anything at any time (Drop) and hands out any        *)
(* element of the class, or nothing, in which case Get allocates.          *)
(***************************************************************************)
EXTENDS Integers, Sequences, FiniteSets, TLC

CONSTANTS Sizes,      \* request sizes of Get
          ForeignCaps,\* capacities of slices not obtained from the pool that are Put
          MaxAllocs, MaxOut, Rings

VARIABLES allocCap, out, pooled, held, idle, ret
vars == <<allocCap, out, pooled, held, idle, ret>>

RECURSIVE Pow2(_)
Pow2(k) == IF k = 0 THEN 1 ELSE 2 * Pow2(k - 1)
RECURSIVE CeilLog2From(_, _)
CeilLog2From(n, k) == IF Pow2(k) >= n THEN k ELSE CeilLog2From(n, k + 1)
\* index(n) = bits.Len32(n-1): the smallest k with 2^k >= n
Index(n) == CeilLog2From(n, 0)
\* the class a slice of capacity c is filed under by Put
PutClass(c) == IF c = Pow2(Index(c)) THEN Index(c) ELSE Index(c) - 1

Overlap(a1, lo1, hi1, a2, lo2, hi2) == a1 = a2 /\ lo1 < hi2 /\ lo2 < hi1

Init == /\ allocCap = <<>> /\ out = {} /\ pooled = {}
        /\ held = {} /\ idle = {}
        /\ ret = [op |-> "none"]

NewAlloc == Len(allocCap) + 1

\* Get(size) served by a fresh allocation: make([]byte, size, 1<<idx)
GetFresh(size) ==
    /\ Len(allocCap) < MaxAllocs /\ Cardinality(out) < MaxOut
    /\ allocCap' = Append(allocCap, Pow2(Index(size)))
    /\ out' = out \cup {[a |-> NewAlloc, off |-> 0, len |-> size, cap |-> Pow2(Index(size))]}
    /\ ret' = [op |-> "Get", size |-> size, a |-> NewAlloc, off |-> 0, len |-> size, cap |-> Pow2(Index(size))]
    /\ UNCHANGED <<pooled, held, idle>>

\* Get(size) served from the pool: unsafe.Slice(ptr, 1<<idx)[:size]
GetRecycled(size, reg) ==
    /\ reg \in pooled /\ reg.cls = Index(size) /\ Cardinality(out) < MaxOut
    /\ pooled' = pooled \ {reg}
    /\ out' = out \cup {[a |-> reg.a, off |-> reg.off, len |-> size, cap |-> Pow2(reg.cls)]}
    /\ ret' = [op |-> "Get", size |-> size, a |-> reg.a, off |-> reg.off, len |-> size, cap |-> Pow2(reg.cls)]
    /\ UNCHANGED <<allocCap, held, idle>>

\* the holder of slice s returns s[k:] (k = 0: the slice itself) and forgets s
PutBack(s, k) ==
    /\ s \in out /\ k \in 0..s.cap
    /\ out' = out \ {s}
    /\ LET c == s.cap - k IN
       pooled' = IF c = 0 THEN pooled ELSE pooled \cup {[a |-> s.a, off |-> s.off + k, cls |-> PutClass(c)]}
    /\ ret' = [op |-> "Put", a |-> s.a, off |-> s.off + k, cap |-> s.cap - k]
    /\ UNCHANGED <<allocCap, held, idle>>

\* a slice that never came from the pool (any capacity) is Put
PutForeign(c) ==
    /\ Len(allocCap) < MaxAllocs
    /\ allocCap' = Append(allocCap, c)
    /\ pooled' = IF c = 0 THEN pooled ELSE pooled \cup {[a |-> NewAlloc, off |-> 0, cls |-> PutClass(c)]}
    /\ ret' = [op |-> "Put", a |-> NewAlloc, off |-> 0, cap |-> c]
    /\ UNCHANGED <<out, held, idle>>

\* sync.Pool forgets an element (GC)
Drop(reg) == /\ reg \in pooled /\ pooled' = pooled \ {reg}
             /\ ret' = [op |-> "Drop"] /\ UNCHANGED <<allocCap, out, held, idle>>

\* ring-buffer pool: Get hands out an idle ring or a new one; Put resets and files it
RingGet(x) == /\ x \in Rings /\ x \notin held
              /\ held' = held \cup {x} /\ idle' = idle \ {x}
              /\ ret' = [op |-> "RingGet", ring |-> x] /\ UNCHANGED <<allocCap, out, pooled>>
RingPut(x) == /\ x \in held
              /\ held' = held \ {x} /\ idle' = idle \cup {x}
              /\ ret' = [op |-> "RingPut", ring |-> x] /\ UNCHANGED <<allocCap, out, pooled>>

Next == \/ \E n \in Sizes : GetFresh(n)
        \/ \E n \in Sizes, reg \in pooled : GetRecycled(n, reg)
        \/ \E s \in out, k \in 0..2 : PutBack(s, k)
        \/ \E c \in ForeignCaps : PutForeign(c)
        \/ \E reg \in pooled : Drop(reg)
        \/ \E x \in Rings : RingGet(x) \/ RingPut(x)

Spec == Init /\ [][Next]_vars

(* ---- invariants (C12) ---- *)
\* slices handed out and not yet returned never share memory
NoAlias == \A s, t \in out : s = t \/ ~Overlap(s.a, s.off, s.off + s.cap, t.a, t.off, t.off + t.cap)
\* a pooled region never extends beyond the array it points into ...
PooledWithin == \A reg \in pooled : reg.off + Pow2(reg.cls) <= allocCap[reg.a]
\* ... nor into memory that is handed out, nor into another pooled region
PooledFree == /\ \A reg \in pooled, s \in out :
                    ~Overlap(reg.a, reg.off, reg.off + Pow2(reg.cls), s.a, s.off, s.off + s.cap)
              /\ \A p, q \in pooled : p = q \/ ~Overlap(p.a, p.off, p.off + Pow2(p.cls), q.a, q.off, q.off + Pow2(q.cls))
\* Get returns exactly the requested length and at least that capacity, inside its array
GetOK == ret.op = "Get" => /\ ret.len = ret.size /\ ret.cap >= ret.size
                           /\ ret.off + ret.cap <= allocCap[ret.a]
\* a ring is never held twice and never both held and idle
RingExclusive == held \cap idle = {}
=============================================================================
