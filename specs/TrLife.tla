------------------------------- MODULE TrLife -------------------------------
(***************************************************************************)
(* C04, C05 (confinement), C06, C17(b) and the system-level part of C03 on *)
(* recorded executions: callback life cycle per connection, goroutine      *)
(* confinement per event loop, shutdown completeness and finality, address *)
(* stability, exactly-once execution of asynchronous requests.             *)
(***************************************************************************)
EXTENDS TrBase

VARIABLES lc,      \* c -> [life, g, loop, h, praddr, plisten, localReq, peerShut, traffic, wakeTraffic, wakeCb, wakeIss]
          loopg,   \* loop index -> goroutine of its callbacks
          hs,      \* handles that have been opened
          pend,    \* handle -> a read(2) has returned data that OnTraffic has not been called for yet
          req,     \* asynchronous request -> [c, kind, accepted, cbs, nocb, closedAtIssue, afterStop]
          eng,     \* [booted, stopReq, onShutdown, runRet, opened, closed]
          failed   \* handles on which a system call failed with a non-retryable error
vars == <<l, viols, lc, loopg, hs, pend, req, eng, failed>>

NewC == [life |-> "none", g |-> 0, loop |-> -1, h |-> 0, praddr |-> "", plisten |-> "", localReq |-> FALSE, peerShut |-> "no",
         traffic |-> 0, wakeTraffic |-> 0, wakeCb |-> 0, wakeIss |-> 0]
NewE == [booted |-> FALSE, stopReq |-> FALSE, onShutdown |-> 0, runRet |-> FALSE, opened |-> 0, closed |-> 0, bootStop |-> FALSE,
         \* the ticker: configured?, number of the last tick begun, a tick is running, its goroutine, earliest time (ms) of the next
         ticker |-> FALSE, tickN |-> 0, tickBusy |-> FALSE, tickG |-> 0, tickDue |-> 0]
C(c) == Get(lc, c, NewC)

Init == /\ l = 1 /\ viols = <<>> /\ lc = Empty /\ loopg = Empty /\ hs = {} /\ pend = Empty /\ req = Empty /\ eng = NewE /\ failed = {}
        /\ TLCSet(1, 1) /\ TLCSet(2, <<>>)

Step(lc2, lg2, hs2, pd2, rq2, en2, vs) ==
    /\ l' = l + 1 /\ lc' = lc2 /\ loopg' = lg2 /\ hs' = hs2 /\ pend' = pd2 /\ req' = rq2 /\ eng' = en2 /\ viols' = vs /\ Mark
    /\ failed' = (IF Ev.ev = "Reset" THEN {}
                   ELSE IF Ev.ev = "Sys" /\ Ev.site \in {"el.read", "el.write", "el.writev", "c.write", "c.writev"} /\ Ev.h # 0
                           /\ Ev.err \notin {"nil", "EAGAIN", "EINTR"} THEN failed \cup {Ev.h} ELSE failed)
Same(vs) == Step(lc, loopg, hs, pend, req, eng, vs)
SetC(c, rec, vs) == Step(Put(lc, c, rec), loopg, hs, pend, req, eng, vs)

\* no callback of this engine may run once Run has returned
Final(vs, what) == Check(~eng.runRet, "NoCallbackAfterReturn", what, vs)

Step1 ==
    /\ More
    /\ LET e == Ev IN
       CASE e.ev = "Reset" -> Step(Empty, Empty, {}, Empty, Empty, [NewE EXCEPT !.ticker = ("ticker" \in DOMAIN e /\ e.ticker = TRUE)], viols)
         [] e.ev = "Boot" -> Step(lc, loopg, hs, pend, req, [eng EXCEPT !.booted = TRUE], viols)
         [] e.ev = "PeerDial" -> SetC(e.c, [C(e.c) EXCEPT !.praddr = e.laddr, !.plisten = e.raddr], viols)
         [] e.ev = "PeerShut" -> SetC(e.c, [C(e.c) EXCEPT !.peerShut = e.how], viols)
         [] e.ev = "Open" ->
              LET s == C(e.c)
                  v0 == Final(viols, <<"Open", e.c>>)
                  v1 == Check(s.life = "none", "OpenOnce", e.c, v0)
                  v2 == Check(e.h \notin hs, "OpenOncePerConnObject", <<e.c, e.h>>, v1)
                  \* all callbacks of one event loop run on one goroutine
                  v3 == Check(Get(loopg, e.loop, e.g) = e.g, "LoopConfinement", <<e.c, e.loop, e.g>>, v2)
                  v4 == Check(e.raddr = s.praddr /\ (e.laddr = s.plisten \/ s.plisten = "*"), "AddrTruthful", <<e.c, e.raddr, e.laddr>>, v3)
              IN Step(Put(lc, e.c, [s EXCEPT !.life = "open", !.g = e.g, !.loop = e.loop, !.h = e.h]),
                      Put(loopg, e.loop, e.g), hs \cup {e.h}, pend, req, [eng EXCEPT !.opened = @ + 1], v4)
         [] e.ev = "Sys" /\ e.site = "el.read" /\ e.n > 0 ->
              Step(lc, loopg, hs, Put(pend, e.h, TRUE), req, eng,
                   Check(~Get(pend, e.h, FALSE), "EveryReadDelivered", e.h, viols))
         [] e.ev = "Traffic" ->
              LET s == C(e.c)
                  fromRead == Get(pend, s.h, FALSE)
                  v0 == Final(viols, <<"Traffic", e.c>>)
                  v1 == Check(s.life = "open", "TrafficOnlyWhileOpen", <<e.c, s.life>>, v0)
                  v2 == Check(e.g = s.g, "ConnNeverChangesLoop", <<e.c, e.g, s.g>>, v1)
                  v3 == Check(e.raddr = s.praddr /\ (e.laddr = s.plisten \/ s.plisten = "*"), "AddrStable", <<e.c, e.raddr, e.laddr>>, v2)
                  \* an OnTraffic that does not follow a read is the effect of a Wake: never more than were issued
                  v4 == Check(fromRead \/ s.wakeTraffic + 1 <= s.wakeIss, "TrafficOnlyFromReadOrWake", <<e.c, s.wakeTraffic, s.wakeIss>>, v3)
              IN Step(Put(lc, e.c, [s EXCEPT !.traffic = @ + 1, !.wakeTraffic = IF fromRead THEN @ ELSE @ + 1]),
                      loopg, hs, Put(pend, s.h, FALSE), req, eng, v4)
         [] e.ev = "CloseReq" -> SetC(e.c, [C(e.c) EXCEPT !.localReq = TRUE], viols)
         [] e.ev = "Close" ->
              LET s == C(e.c)
                  v0 == Final(viols, <<"Close", e.c>>)
                  v1 == Check(s.life = "open", "CloseOnceIffOpen", <<e.c, s.life>>, v0)
                  v2 == Check(e.g = s.g, "ConnNeverChangesLoop", <<e.c, e.g, s.g>>, v1)
                  \* nil error only for a locally requested close (or shutdown); a peer-induced close reports an error
                  v3 == Check(e.err # "nil" \/ s.localReq \/ eng.stopReq, "CloseErrNilIffLocal", <<e.c, e.err, "no local request">>, v2)
                  v4 == Check(e.err # "nil" \/ s.peerShut = "no" \/ s.localReq \/ eng.stopReq, "CloseErrNilIffLocal", <<e.c, e.err, s.peerShut>>, v3)
                  v5 == Check(~Get(pend, s.h, FALSE), "EveryReadDelivered", <<e.c, "at close">>, v4)
              IN Step(Put(lc, e.c, [s EXCEPT !.life = "closed"]), loopg, hs, pend, req, [eng EXCEPT !.closed = @ + 1], v5)
         [] e.ev = "AIssue" ->
              LET s == C(e.c) IN
              Step(Put(lc, e.c, [s EXCEPT !.localReq = (@ \/ e.kind \in {"Close", "CloseCb"}),
                                          !.wakeIss = IF e.kind = "Wake" THEN @ + 1 ELSE @]),
                   loopg, hs, pend,
                   Put(req, e.a, [c |-> e.c, kind |-> e.kind, accepted |-> FALSE, cbs |-> 0, nocb |-> FALSE,
                                  closedAtIssue |-> (s.life = "closed"), afterStop |-> eng.stopReq]),
                   eng, viols)
         [] e.ev = "AIssued" /\ e.a \in DOMAIN req ->
              Step(lc, loopg, hs, pend, Put(req, e.a, [req[e.a] EXCEPT !.accepted = (e.err = "nil")]), eng, viols)
         [] e.ev = "ANoCb" /\ e.a \in DOMAIN req ->
              Step(lc, loopg, hs, pend, Put(req, e.a, [req[e.a] EXCEPT !.nocb = TRUE]), eng, viols)
         [] e.ev = "ACb" /\ e.a \in DOMAIN req ->
              LET r == req[e.a]
                  s == C(r.c)
                  v0 == Final(viols, <<"ACb", e.a>>)
                  v1 == Check(r.cbs = 0, "CallbackAtMostOnce", <<e.a, r.kind>>, v0)
                  v2 == Check(e.g = s.g \/ s.g = 0, "CallbackOnOwningLoop", <<e.a, e.g, s.g>>, v1)
                  \* a write that reaches an already closed connection completes with the closed-connection error
                  v3 == Check(~(r.closedAtIssue /\ r.kind \in {"AsyncWrite", "AsyncWritev"}) \/ e.err = "ErrClosed",
                              "AsyncOnClosedIsErrClosed", <<e.a, e.err>>, v2)
                  \* Wake / Close that reach a closed connection are no-ops
                  v4 == Check(~(r.closedAtIssue /\ r.kind \in {"Wake", "Close", "CloseCb"}) \/ e.err = "nil",
                              "WakeCloseOnClosedAreNoops", <<e.a, e.err>>, v3)
              IN Step(lc, loopg, hs, pend, Put(req, e.a, [r EXCEPT !.cbs = @ + 1]), eng, v4)
         [] e.ev = "WOp" ->
              \* a write operation that reports an error has closed the connection (it never leaves it open)
              Same(Check(e.err = "nil" \/ C(e.c).life = "closed", "WriteErrorClosesConn", <<e.c, e.op, e.err>>, viols))
         [] e.ev \in {"PeerFinTimeout", "ProbeFail"} /\ e.ev = "ProbeFail" ->
              Same(Check(FALSE, "EngineKeepsRunning", e.ev, viols))
         [] e.ev = "Quiesce" ->
              \* nothing in flight: the engine's count equals connections opened and not yet closed, and every
              \* request accepted while the engine was running has had its callback exactly once
              LET v1 == Check(e.count = eng.opened - eng.closed, "CountEqualsOpenAtQuiescence", <<e.count, eng.opened, eng.closed>>, viols)
                  lost == {a \in DOMAIN req : req[a].accepted /\ ~req[a].nocb /\ ~req[a].afterStop /\ req[a].cbs # 1}
                  v2 == Check(lost = {}, "AcceptedRunsExactlyOnce", lost, v1)
                  \* C18: a connection on which a system call failed with a non-retryable error has been closed
                  stillOpen == {c \in DOMAIN lc : lc[c].h \in failed /\ lc[c].life = "open"}
                  v3 == Check(stillOpen = {}, "FaultClosesItsConnection", stillOpen, v2)
              IN Same(v3)
         \* (the ticker is still alive when the shutdown is asked for: the tick that was due more than 5 s ago has begun)
         [] e.ev = "StopReq" -> Step(lc, loopg, hs, pend, req, [eng EXCEPT !.stopReq = TRUE, !.bootStop = (@ \/ e.src = "OnBoot")],
                                     Check(~(eng.ticker /\ ~eng.stopReq /\ eng.tickN >= 1 /\ ~eng.tickBusy /\ "ms" \in DOMAIN e) \/ eng.tickDue + 5000 >= e.ms,
                                           "TickerKeepsTicking", <<eng.tickN, eng.tickDue, IF "ms" \in DOMAIN e THEN e.ms ELSE 0>>, viols))
         [] e.ev = "StopRet" ->
              \* Stop returns nil only after the engine has fully shut down
              LET open == {c \in DOMAIN lc : lc[c].life = "open"} IN
              Same(Check(e.err # "nil" \/ (open = {} /\ eng.onShutdown = 1), "StopNilOnlyAfterFullShutdown", <<open, eng.onShutdown>>, viols))
         [] e.ev = "OnShutdown" ->
              Step(lc, loopg, hs, pend, req, [eng EXCEPT !.onShutdown = @ + 1],
                   Check(eng.onShutdown = 0, "OnShutdownOnce", eng.onShutdown + 1, Final(viols, "OnShutdown")))
         \* C19: once Run has returned the handle reports the shutdown (whatever ended the engine)
         [] e.ev = "AfterRun" -> Same(Check(e.validate = "ErrEngineInShutdown" /\ e.count = -1, "StoppedHandleReportsShutdown", <<e.validate, e.count>>, viols))
         \* C19: Register / Enroll / Dial deliver exactly one result, an error or a connection that can be used
         [] e.ev = "RegResult" -> Same(Check(e.err # "nil" \/ (e.fd >= 0 /\ e.usable), "RegisterYieldsUsableOrError", <<e.api, e.err, e.fd, e.usable, e.injected>>, viols))
         [] e.ev = "RegNoResult" -> Same(Check(FALSE, "RegisterYieldsOneResult", <<e.api, e.injected>>, viols))
         \* the ticker (documented: "fires immediately after the engine starts and will fire again following the
         \* duration specified by the delay return value"): one tick at a time, all on one goroutine, numbered
         \* without gaps, never before the delay returned by the previous one has elapsed (monotonic clock of the
         \* recording process, whole milliseconds: floor is monotone, so no slack is needed), none after Run returned
         [] e.ev = "Tick" ->
              LET v0 == Final(viols, "Tick")
                  v1 == Check(~eng.tickBusy /\ e.n = eng.tickN + 1, "TicksOneAtATime", <<e.n, eng.tickN, eng.tickBusy>>, v0)
                  v2 == Check(eng.tickN = 0 \/ e.g = eng.tickG, "TickerOneGoroutine", <<e.g, eng.tickG>>, v1)
                  v3 == Check(eng.tickN = 0 \/ e.ms >= eng.tickDue, "TickNotBeforeDelay", <<e.n, e.ms, eng.tickDue>>, v2)
              IN Step(lc, loopg, hs, pend, req, [eng EXCEPT !.tickN = e.n, !.tickBusy = TRUE, !.tickG = e.g], v3)
         [] e.ev = "TickEnd" ->
              Step(lc, loopg, hs, pend, req, [eng EXCEPT !.tickBusy = FALSE, !.tickDue = e.ms + e.delay],
                   Check(eng.tickBusy /\ e.n = eng.tickN, "TicksOneAtATime", <<e.n, eng.tickN, eng.tickBusy>>, Final(viols, "TickEnd")))
         \* a callback that goes on writing to the connection it has just closed (EventLoop.Close) is refused, and nothing
         \* reaches whatever owns the descriptor number by then ("never acting on another connection")
         [] e.ev = "StaleWrite" ->
              Same(Check(e.err # "nil" /\ e.errv # "nil" /\ e.n = 0 /\ e.nv = 0 /\ e.leaked = 0, "ClosedConnRejectsWrites",
                         <<e.c, e.n, e.err, e.nv, e.errv, e.leaked>>, viols))
         [] e.ev = "RunRet" ->
              LET open == {c \in DOMAIN lc : lc[c].life = "open"}
                  v1 == Check(e.err = "nil", "RunReturnsNil", e.err, viols)
                  v2 == Check(open = {}, "AllOpenedClosedBeforeReturn", open, v1)
                  \* a Shutdown action from OnBoot: Run returns at once without starting anything (no callbacks at all)
                  v3 == Check(IF eng.bootStop THEN eng.onShutdown = 0 /\ eng.opened = 0 ELSE eng.onShutdown = 1,
                              IF eng.bootStop THEN "BootShutdownStartsNothing" ELSE "OnShutdownOnce", eng.onShutdown, v2)
                  \* the ticker is started with the engine and joined by its shutdown: with WithTicker(true) at least the
                  \* immediate first tick has run, and no tick is still running, when Run returns
                  v4 == Check(~(eng.ticker /\ eng.booted /\ ~eng.bootStop /\ e.err = "nil") \/ (eng.tickN >= 1 /\ ~eng.tickBusy),
                              "TickerRanAndEnded", <<eng.tickN, eng.tickBusy>>, v3)
              IN Step(lc, loopg, hs, pend, req, [eng EXCEPT !.runRet = TRUE], v4)
         [] e.ev \in {"RunStuck", "PeersTimeout", "OpenUnknown", "TrafficUnknown", "CloseUnknown"} ->
              Same(Check(FALSE, IF e.ev = "RunStuck" THEN "RunReturnsInBoundedTime"
                                ELSE IF e.ev = "PeersTimeout" THEN "PeersServedInBoundedTime" ELSE "NeverOnOtherConn", e.ev, viols))
         \* a peer that half-closes sees the end of the connection in bounded time (the engine answers an orderly end of
         \* the stream by closing: OnClose is owed once, not only when the engine itself goes down)
         [] e.ev = "PeerReadTimeout" /\ "how" \in DOMAIN e /\ e.how = "fin" ->
              Same(Check(FALSE, "HalfCloseAnsweredInBoundedTime", e.c, viols))
         [] OTHER -> Same(viols)

Next == Step1 \/ FinishWith(<<lc, loopg, hs, pend, req, eng, failed>>)
=============================================================================
