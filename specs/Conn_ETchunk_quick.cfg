INIT Init
NEXT Next
CONSTANTS
  ET = TRUE
  Chunk = 2
  RB = 2
  SndCap = 2
  MaxIn = 2
  MaxOut = 2
  OutSizes = {1, 2}
  MaxOps = 2
  MaxAsync = 1
  OpenReply = {0, 1}
INVARIANTS NoFailedCheck InAccounting InPrefix AllOfferedBeforeEOFClose OutExact OutNoDropWhileOpen OutPrefix LTArmedIffBacklog OpenOnce CloseOnceIffOpen CloseErrNilIffLocal
CHECK_DEADLOCK FALSE
