INIT Init
NEXT Next
CONSTANTS
  MinRead = 512
  DefaultSize = 1024
  GrowThreshold = 4096
  MaxSize = 100000
  MaxDepth = 4
  UnitIsByte = TRUE
  TrackCells = FALSE
  ByteOps = TRUE
  InitCaps <- R_InitCaps
  WSizes <- R_WSizes
  RSizes <- R_RSizes
  RScripts <- R_RScripts
  WScripts <- R_WScripts
INVARIANTS TypeOK Accounting EmptyCanon RetOK
CHECK_DEADLOCK FALSE
