-------------------------------- MODULE TrIn --------------------------------
(***************************************************************************)
(* C01 on recorded executions: inbound stream integrity.                   *)
(* Per connection c (the peer's id): sent = bytes the peer has handed to   *)
(* its socket (logged before the write), rd = bytes the loop obtained from *)
(* read(2) on the connection (verif hook), cons = bytes the handler has    *)
(* consumed through Read / Next / Discard / WriteTo.  The handler verifies *)
(* every byte it obtains against the position-stamped stream at the       *)
(* offset it has counted (field ok).                                       *)
(***************************************************************************)
EXTENDS TrBase

VARIABLES st,     \* c -> [sent, shut, open, closed, h, cons, incb]
          rd      \* handle -> bytes read from the socket so far
vars == <<l, viols, st, rd>>

New == [sent |-> 0, shut |-> "no", open |-> FALSE, closed |-> FALSE, h |-> 0, cons |-> 0, incb |-> FALSE, total |-> -1]
S(c) == Get(st, c, New)
Rd(c) == Get(rd, S(c).h, 0)

Init == l = 1 /\ viols = <<>> /\ st = Empty /\ rd = Empty /\ TLCSet(1, 1) /\ TLCSet(2, <<>>)

Step(st2, rd2, vs) == /\ l' = l + 1 /\ st' = st2 /\ rd' = rd2 /\ viols' = vs /\ Mark

Consuming == {"Read", "Next", "Discard", "WriteTo"}

Step1 ==
    /\ More
    /\ LET e == Ev IN
       CASE e.ev = "Reset" -> Step(Empty, Empty, viols)
         [] e.ev = "PeerSend" -> Step(Put(st, e.c, [S(e.c) EXCEPT !.sent = e.upto]), rd, viols)
         [] e.ev = "PeerShut" -> Step(Put(st, e.c, [S(e.c) EXCEPT !.shut = e.how, !.total = e.sent]), rd, viols)
         [] e.ev = "Open" -> Step(Put(st, e.c, [S(e.c) EXCEPT !.open = TRUE, !.h = e.h]), rd, viols)
         [] e.ev = "Sys" /\ e.site = "el.read" /\ e.n > 0 -> Step(st, Put(rd, e.h, Get(rd, e.h, 0) + e.n), viols)
         [] e.ev = "Traffic" ->
              LET s == S(e.c)
                  v1 == Check(s.open /\ ~s.closed, "TrafficOnlyWhileOpen", e.c, viols)
                  \* consumed + InboundBuffered = bytes delivered so far (= bytes read from the socket)
                  v2 == Check(s.cons + e.ib = Rd(e.c), "InAccounting", <<e.c, s.cons, e.ib, Rd(e.c)>>, v1)
                  \* what was delivered is a prefix of what the peer sent
                  v3 == Check(Rd(e.c) <= s.sent, "InPrefix", <<e.c, Rd(e.c), s.sent>>, v2)
              IN Step(Put(st, e.c, [s EXCEPT !.incb = TRUE]), rd, v3)
         [] e.ev = "ROp" ->
              LET s == S(e.c)
                  cons2 == IF e.op \in Consuming THEN s.cons + e.n ELSE s.cons
                  \* the bytes obtained are exactly the next bytes of the peer's stream
                  v1 == Check(e.ok, "InContent", <<e.c, e.op, e.req, e.n, s.cons>>, viols)
                  v2 == Check(cons2 + e.ib = Rd(e.c), "InAccounting", <<e.c, e.op, cons2, e.ib, Rd(e.c)>>, v1)
                  v3 == Check(cons2 <= s.sent, "InPrefix", <<e.c, cons2, s.sent>>, v2)
              IN Step(Put(st, e.c, [s EXCEPT !.cons = cons2]), rd, v3)
         [] e.ev = "TrafficEnd" -> Step(Put(st, e.c, [S(e.c) EXCEPT !.incb = FALSE]), rd, viols)
         [] e.ev = "Close" ->
              LET s == S(e.c)
                  v1 == Check(s.cons + e.ib = Rd(e.c), "InAccounting", <<e.c, "Close", s.cons, e.ib, Rd(e.c)>>, viols)
                  \* orderly close by the peer: everything it sent has been offered (consumed or still readable)
                  v2 == Check(~(e.err = "EOF" /\ s.shut \in {"fin", "close"}) \/ Rd(e.c) = s.total,
                              "AllOfferedBeforeEOFClose", <<e.c, Rd(e.c), s.total>>, v1)
              IN Step(Put(st, e.c, [s EXCEPT !.closed = TRUE]), rd, v2)
         \* C12: two slices taken from the byte-slice pool one after the other are different memory
         [] e.ev = "PoolAlias" -> Step(st, rd, Check(FALSE, "PooledMemoryExclusive", <<e.c, e.size>>, viols))
         [] OTHER -> Step(st, rd, viols)

Next == Step1 \/ FinishWith(<<st, rd>>)
=============================================================================
