------------------------------ MODULE MCLList ------------------------------
EXTENDS LList
Kinds == {"zero", "one", "full"}
ReaderScripts(maxLen) ==
    UNION { { s \in [1..n -> Kinds \X {"nil", "EOF", "ERR"}] :
                /\ \A i \in 1..(n - 1) : s[i][2] = "nil"
                /\ s[n][2] # "nil" } : n \in 1..maxLen }
WriterScripts(maxLen) == {<<>>} \cup UNION { [1..n -> Kinds \X {"nil", "ERR"}] : n \in 1..maxLen }
\* scaled configuration: one unit = 128 bytes, MinRead = 4 units
S_Push    == {0, 1, 2, 3}
S_Read    == {-1, 0, 1, 2, 3, 5, 20}
S_Extras  == {<<>>, <<1>>, <<0, 2>>, <<2, 0, 1>>}
S_RScripts == ReaderScripts(2)
S_WScripts == WriterScripts(2)
\* byte-granular configuration with the real MinRead = 512
R_Push    == {0, 1, 3, 5, 511, 512, 513}
R_Read    == {-1, 0, 1, 2, 4, 511, 513, 2000}
R_Extras  == {<<>>, <<3>>, <<0, 5>>}
R_RScripts == ReaderScripts(2)
R_WScripts == WriterScripts(2)
=============================================================================
