---------------------------- MODULE WakeupProof ----------------------------
(* Machine-checked (TLAPS) version of the inductive argument of Wakeup.tla, for an arbitrary set of producers. *)
EXTENDS Wakeup, TLAPS

vars == <<q, flag, efd, lpc, ppc>>
Spec == Init /\ [][Next]_vars

THEOREM InitInv == Init => IndInv
  BY DEF Init, IndInv, TypeOK, FlagMeansWake, ClearMeansSeen

THEOREM StepInv == IndInv /\ [Next]_vars => IndInv'
  <1> SUFFICES ASSUME IndInv, [Next]_vars PROVE IndInv'
    OBVIOUS
  <1> USE DEF IndInv, TypeOK, FlagMeansWake, ClearMeansSeen
  <1>1. ASSUME NEW p \in Prod, Enq(p) PROVE IndInv'
    BY <1>1 DEF Enq
  <1>2. ASSUME NEW p \in Prod, Cas(p) PROVE IndInv'
    BY <1>2 DEF Cas
  <1>3. ASSUME NEW p \in Prod, Wr(p) PROVE IndInv'
    BY <1>3 DEF Wr
  <1>4. ASSUME Wake PROVE IndInv'
    BY <1>4 DEF Wake
  <1>5. ASSUME DrainOne PROVE IndInv'
    BY <1>5 DEF DrainOne
  <1>6. ASSUME DrainEnd PROVE IndInv'
    BY <1>6 DEF DrainEnd
  <1>7. ASSUME Store0 PROVE IndInv'
    BY <1>7 DEF Store0
  <1>8. ASSUME Recheck PROVE IndInv'
    BY <1>8 DEF Recheck
  <1>9. ASSUME UNCHANGED vars PROVE IndInv'
    BY <1>9 DEF vars
  <1> QED
    BY <1>1, <1>2, <1>3, <1>4, <1>5, <1>6, <1>7, <1>8, <1>9 DEF Next

THEOREM InvImplies == IndInv => NoLostWakeup
  BY DEF IndInv, TypeOK, FlagMeansWake, ClearMeansSeen, NoLostWakeup

THEOREM Safety == Spec => []NoLostWakeup
  <1>1. Spec => []IndInv
    BY InitInv, StepInv, PTL DEF Spec
  <1> QED
    BY <1>1, InvImplies, PTL
=============================================================================
