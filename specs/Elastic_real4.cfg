INIT Init
NEXT Next
CONSTANTS
  MinRead = 512
  DefaultSize = 1024
  GrowThreshold = 4096
  LMinRead = 512
  UnitIsByte = TRUE
  TrackCells = FALSE
  MaxSize = 100000
  MaxSegs = 6
  MaxList = 100000
  MaxDepth = 4
  PoolCaps <- R_PoolCaps
  StaticLimits <- R_Limits
  WSizes <- R_WSizes
  VLists <- R_VLists
  RSizes <- R_RSizes
  RScripts <- R_RScripts
  WScripts <- R_WScripts
INVARIANTS TypeOK NoEmptyNodes LazyRing RingAccounting RetOK
CHECK_DEADLOCK FALSE
