------------------------------- MODULE Addrs -------------------------------
(***************************************************************************)
(* Executable definition of listen-address parsing and option              *)
(* normalisation (C16).  The address grammar is a product of finite        *)
(* vocabularies; for each generated string the definition says which       *)
(* outcome classes are acceptable:                                         *)
(*   ok(scheme, endpoint)  - one of the seven schemes + endpoint as written*)
(*   invalid               - the invalid-network-address error             *)
(*   unsupported           - the unsupported-protocol error                *)
(*   fail                  - any error (url.Parse may pre-empt the named   *)
(*                           error, e.g. for a scheme-less host:port)      *)
(* TLC evaluates the table and writes it as JSON for the Go harness.       *)
(***************************************************************************)
EXTENDS Integers, Sequences, FiniteSets, TLC, Json

Seven == {"tcp", "tcp4", "tcp6", "udp", "udp4", "udp6", "unix"}
\* written scheme -> scheme after url.Parse (which lower-cases it)
Schemes == { <<"tcp", "tcp">>, <<"tcp4", "tcp4">>, <<"tcp6", "tcp6">>, <<"udp", "udp">>, <<"udp4", "udp4">>,
             <<"udp6", "udp6">>, <<"unix", "unix">>, <<"TCP", "tcp">>, <<"Udp6", "udp6">>,
             <<"tcp5", "tcp5">>, <<"http", "http">>, <<"sctp", "sctp">>, <<"unixgram", "unixgram">>, <<"", "">> }
Hosts == {"127.0.0.1", "0.0.0.0", "localhost", "example.com", "[::1]", "[::]", "[fe80::1%lo]", "[ff02::3%lo0]",
          "[fe80::1%eth%0]", ""}
Ports == {":9000", ":0", ":65535", ":99999", ""}
NetPaths == {"", "/", "/x"}
\* unix: (host part, path part, cleaned join as path.Join(host, path) gives it)
UnixParts == { <<"", "/tmp/gnet.sock", "/tmp/gnet.sock">>, <<"socket", "", "socket">>, <<"a.sock", "", "a.sock">>,
               <<"", "/a/../b", "/b">>, <<"", "//x", "/x">>, <<"", "/a/./b/", "/a/b">>, <<"dir", "/sock", "dir/sock">>,
               <<"", "", "">>, <<"", "/", "/">>, <<"", "/tmp/with%zone", "/tmp/with%zone">> }

NetVector(sc, h, p, path) ==
    LET s == sc[1] \o "://" \o h \o p \o path IN
    [addr |-> s,
     expect |-> IF sc[2] = "" THEN {"fail", "invalid"}
                ELSE IF sc[2] \notin Seven THEN {"unsupported"}
                ELSE IF h \o p = "" \/ path # "" THEN {"invalid"}
                ELSE {"ok"},
     scheme |-> sc[2], endpoint |-> h \o p]

UnixVector(sc, u) ==
    [addr |-> sc[1] \o "://" \o u[1] \o u[2],
     expect |-> IF u[3] = "" THEN {"invalid"} ELSE {"ok"},
     scheme |-> "unix", endpoint |-> u[3]]

\* strings without a scheme separator and other ill-formed inputs: never a panic; they fail, or (okraw) are
\* accepted with one of the seven schemes and the text after "://" returned exactly as written
Bare == {"", "127.0.0.1:9000", "localhost", ":9000", "tcp", "tcp:", "tcp:/", "://", "tcp://[::1", "tcp://]:80",
         "tcp://host:abc", "%", "%zz", "tcp://%", "unix://%", "tcp://ho st:80", "//127.0.0.1:80"}

NetSchemes  == {sc \in Schemes : sc[2] # "unix"}
AddrVectors ==
    {NetVector(sc, h, p, path) : sc \in NetSchemes, h \in Hosts, p \in Ports, path \in NetPaths}
    \cup {UnixVector(sc, u) : sc \in {s \in Schemes : s[2] = "unix"}, u \in UnixParts}
    \cup {[addr |-> b, expect |-> {"fail", "invalid", "unsupported", "okraw"}, scheme |-> "", endpoint |-> ""] : b \in Bare}

(* ---- option normalisation ---- *)
RECURSIVE P2(_, _)
P2(n, p) == IF p >= n THEN p ELSE P2(n, 2 * p)
CeilPow2(n) == IF n <= 2 THEN 2 ELSE P2(n, 2)
Default == 65536
NormCap(c) == IF c <= 0 THEN Default ELSE IF c <= 1024 THEN 1024 ELSE CeilPow2(c)
CapInputs == {-1, 0, 1, 2, 1023, 1024, 1025, 2047, 2048, 2049, 65535, 65536, 65537, 100000, 1048576, 1048577, 1000000000}
CapVectors == {[req |-> c, norm |-> NormCap(c)] : c \in CapInputs}
\* edge-triggered chunk: > 0 => ET on, chunk = CeilPow2; otherwise 1 MiB when ET was requested, unchanged when not
ChunkVectors == {[req |-> c, et |-> e,
                  etOut |-> (c > 0 \/ e),
                  chunk |-> IF c > 0 THEN CeilPow2(c) ELSE IF e THEN 1048576 ELSE c] :
                    c \in {-5, 0, 1, 2, 3, 1000, 1024, 1025, 65536, 65537, 1048577}, e \in BOOLEAN}
\* number of event loops: Multicore -> NumCPU, NumEventLoop > 0 overrides, clamp to 1..256
\* expect = -1 stands for min(number of CPUs, 256), which only the machine running the check knows
LoopVectors == {[multicore |-> m, num |-> n,
                 expect |-> IF n > 0 THEN (IF n > 256 THEN 256 ELSE n) ELSE IF m THEN -1 ELSE 1] :
                    m \in BOOLEAN, n \in {-3, 0, 1, 2, 16, 255, 256, 257, 1000, 100000}}

(* ---- socket-address conversions (C17a): net.Addr -> kernel form -> net.Addr is the identity ---- *)
IP4s == {<<0, 0, 0, 0>>, <<127, 0, 0, 1>>, <<255, 255, 255, 255>>, <<10, 1, 2, 3>>, <<192, 168, 0, 254>>}
Z12  == <<0, 0, 0, 0, 0, 0, 0, 0, 0, 0, 0, 0>>
IP6s == {Z12 \o <<0, 0, 0, 0>>, Z12 \o <<0, 0, 0, 1>>,
         <<254, 128, 0, 0, 0, 0, 0, 0, 0, 0, 0, 0, 0, 0, 0, 1>>,
         <<255, 2, 0, 0, 0, 0, 0, 0, 0, 0, 0, 0, 0, 0, 0, 3>>,
         <<32, 1, 13, 184, 0, 0, 0, 0, 0, 0, 0, 0, 0, 0, 171, 205>>,
         <<0, 0, 0, 0, 0, 0, 0, 0, 0, 0, 255, 255, 1, 2, 3, 4>>}        \* IPv4-mapped
SockPorts == {0, 1, 1023, 1024, 65535}
\* zone: "" none, "@lo" the loopback interface's name, decimal strings: interface indices that (normally) have no interface
Zones == {"", "@lo", "7", "12", "345", "4294967"}
BadIPs == {<<>>, <<1, 2, 3>>, <<1, 2, 3, 4, 5>>, <<1, 2, 3, 4, 5, 6, 7, 8, 9, 10, 11, 12, 13, 14, 15, 16, 17>>}
SockVectors ==
    {[kind |-> k, ip |-> ip, port |-> p, zone |-> "", expect |-> "same"] : k \in {"tcp", "udp"}, ip \in IP4s, p \in SockPorts}
    \cup {[kind |-> k, ip |-> ip, port |-> p, zone |-> z, expect |-> "same"] : k \in {"tcp", "udp"}, ip \in IP6s, p \in SockPorts, z \in Zones}
    \cup {[kind |-> k, ip |-> ip, port |-> 80, zone |-> "", expect |-> "nil"] : k \in {"tcp", "udp", "ip"}, ip \in BadIPs}
    \cup {[kind |-> "unix", net |-> n, name |-> nm, expect |-> IF n \in {"unix", "unixgram", "unixpacket"} THEN "same" ELSE "nil"] :
            n \in {"unix", "unixgram", "unixpacket", "foo", ""}, nm \in {"/tmp/a.sock", "rel.sock", "@abstract", ""}}
    \cup {[kind |-> "other", expect |-> "nil"]}

ASSUME JsonSerialize("addrs.json", [addrs |-> AddrVectors, caps |-> CapVectors, chunks |-> ChunkVectors, loops |-> LoopVectors, socks |-> SockVectors])
VARIABLE x
Init == x = 0
Next == x' = x /\ FALSE
=============================================================================
