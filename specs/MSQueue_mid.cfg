SPECIFICATION FairSpec
CONSTANTS
  Enqueuers = {1, 2}
  Dequeuers = {3, 4}
  NEnq = 1
  NDeq = 1
  LenReaders = {}
INVARIANTS TypeOK Linearizable ListIsAbs TailLag NoDup NoInvention PerProducerFIFO LengthLag QuiescentLength
PROPERTIES Terminates
CHECK_DEADLOCK FALSE
