INIT Init
NEXT Next
CONSTANTS
  ET = FALSE
  Chunk = 4
  RB = 2
  SndCap = 2
  MaxIn = 3
  MaxOut = 3
  OutSizes = {1, 2}
  MaxOps = 2
  MaxAsync = 1
  OpenReply = {0, 1}
INVARIANTS NoFailedCheck InAccounting InPrefix AllOfferedBeforeEOFClose OutExact OutNoDropWhileOpen OutPrefix LTArmedIffBacklog OpenOnce CloseOnceIffOpen CloseErrNilIffLocal
CHECK_DEADLOCK FALSE
