SPECIFICATION Spec
CONSTANTS NLoops = 1  MaxConns = 0  MaxRegs = 1  ReusePort = FALSE  LB = "any"  Ticker = FALSE
          Sources = {"stop"}
INVARIANTS RegsAnswered
CHECK_DEADLOCK FALSE
