SPECIFICATION FairSpec
CONSTANTS
  Script <- ScriptQ
  Thresh = 1
  SatInit = FALSE
  MaxLow = 1
INVARIANTS ExecAtMostOnce ExecOnlyAccepted NoLostWakeup HighPrioFIFO EdgeImpliesFlag CountersLag ShutdownIsFinal FlagMeansWake ClearMeansSeen
PROPERTIES EventuallyAllRun
CHECK_DEADLOCK FALSE
