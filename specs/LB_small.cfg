INIT Init
NEXT Next
CONSTANTS
  MaxLoops = 3
  Addrs = {"a", "b"}
  MaxAccepts = 6
INVARIANTS InRange RRFair HashFunctional
CHECK_DEADLOCK FALSE
