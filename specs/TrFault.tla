------------------------------- MODULE TrFault -------------------------------
(***************************************************************************)
(* C18 on recorded executions with one injected fault per engine life: a   *)
(* hard fault that hit a system call made on behalf of an open connection  *)
(* (read, write, writev, a change of its poll registration) ends that      *)
(* connection: by the time the life is quiescent an OnClose carrying that  *)
(* very error has been delivered.  Where the fault landed comes from       *)
(* strace's own log (event FaultHit, written when the injector is          *)
(* detached, i.e. before the Quiesce event).                               *)
(*   errs   error classes of the OnClose events of this life               *)
(*   owed   error classes some OnClose of this life must carry             *)
(***************************************************************************)
EXTENDS TrBase

VARIABLES errs, owed
vars == <<l, viols, errs, owed>>

Init == /\ l = 1 /\ viols = <<>> /\ errs = {} /\ owed = {} /\ TLCSet(1, 1) /\ TLCSet(2, <<>>)
Step(e2, o2, vs) == /\ l' = l + 1 /\ errs' = e2 /\ owed' = o2 /\ viols' = vs /\ Mark

Step1 ==
    /\ More
    /\ LET e == Ev IN
       CASE e.ev = "Reset" -> Step({}, {}, viols)
         [] e.ev = "Close" -> Step(errs \cup {e.err}, owed, viols)
         [] e.ev = "FaultHit" /\ "owes" \in DOMAIN e /\ e.owes # "" -> Step(errs, owed \cup {e.owes}, viols)
         [] e.ev = "Quiesce" -> Step(errs, owed, Check(owed \subseteq errs, "FaultClosesItsConnection", <<owed \ errs, errs>>, viols))
         [] OTHER -> Step(errs, owed, viols)

Next == Step1 \/ FinishWith(<<errs, owed>>)
=============================================================================
