--------------------------------- MODULE LB ---------------------------------
(***************************************************************************)
(* load_balancer.go: which event loop the next accepted connection goes    *)
(* to.  n loops (1-based here), counts[l] = connections currently served   *)
(* by loop l, rr = number of round-robin decisions taken so far, got[l] =  *)
(* connections ever assigned to l, memo = the hash policy's observed       *)
(* function (address -> loop).  The hash itself is an unknown function:    *)
(* any answer in range is allowed the first time, the same answer is       *)
(* required ever after.                                                    *)
(***************************************************************************)
EXTENDS Integers, Sequences, FiniteSets, TLC

CONSTANTS MaxLoops, Addrs, MaxAccepts
VARIABLES n, policy, counts, rr, got, memo, ret
vars == <<n, policy, counts, rr, got, memo, ret>>

Loops == 1..n
MinCount == CHOOSE m \in {counts[l] : l \in Loops} : \A l \in Loops : m <= counts[l]
Total(f) == LET RECURSIVE S(_)
                S(k) == IF k = 0 THEN 0 ELSE f[k] + S(k - 1)
            IN S(n)

Start(k, p) == /\ n' = k /\ policy' = p
               /\ counts' = [l \in 1..k |-> 0] /\ got' = [l \in 1..k |-> 0]
               /\ rr' = 0 /\ memo' = {} /\ ret' = [op |-> "Start"]

Init == /\ n \in 1..MaxLoops /\ policy \in {"rr", "lc", "hash"}
        /\ counts = [l \in 1..n |-> 0] /\ got = [l \in 1..n |-> 0]
        /\ rr = 0 /\ memo = {} /\ ret = [op |-> "Start"]

Assign(l) == /\ counts' = [counts EXCEPT ![l] = @ + 1]
             /\ got' = [got EXCEPT ![l] = @ + 1]
             /\ UNCHANGED <<n, policy>>

RRNext(l) == /\ policy = "rr" /\ l = (rr % n) + 1
             /\ rr' = rr + 1 /\ Assign(l) /\ UNCHANGED memo
             /\ ret' = [op |-> "Next", loop |-> l]
LCNext(l) == /\ policy = "lc" /\ l \in Loops /\ counts[l] = MinCount
             /\ Assign(l) /\ UNCHANGED <<rr, memo>>
             /\ ret' = [op |-> "Next", loop |-> l]
HashNext(a, l) == /\ policy = "hash" /\ l \in Loops
                  /\ \A p \in memo : p[1] = a => p[2] = l
                  /\ memo' = memo \cup {<<a, l>>}
                  /\ Assign(l) /\ UNCHANGED rr
                  /\ ret' = [op |-> "Next", loop |-> l]
Close(l) == /\ l \in Loops /\ counts[l] > 0
            /\ counts' = [counts EXCEPT ![l] = @ - 1]
            /\ UNCHANGED <<n, policy, rr, got, memo>>
            /\ ret' = [op |-> "Close", loop |-> l]

Bounded == Total(got) < MaxAccepts
Next == \/ \E l \in Loops : Bounded /\ (RRNext(l) \/ LCNext(l))
        \/ \E a \in Addrs, l \in Loops : Bounded /\ HashNext(a, l)
        \/ \E l \in Loops : Close(l)
Spec == Init /\ [][Next]_vars

(* ---- invariants (C15) ---- *)
InRange == ret.op = "Next" => ret.loop \in Loops
\* after k*N round-robin accepts every loop has received exactly k (and never differs by more than one in between)
RRFair == policy = "rr" => \A l \in Loops : got[l] = (rr \div n) + (IF l <= rr % n THEN 1 ELSE 0)
\* the hash policy is a function of the address
HashFunctional == \A p, q \in memo : p[1] = q[1] => p[2] = q[2]
=============================================================================
