---------------------------- MODULE ConnMatrix ----------------------------
(***************************************************************************)
(* conn_matrix.go (build tag gc_opt): the compacting registry of an event  *)
(* loop.  table[row][col] holds a connection (identified by its fd, 0 =    *)
(* nil), rowAlloc[row] says whether the row slice exists, f2g is the       *)
(* reverse index fd -> position, cg[fd] is the position stored in the      *)
(* connection itself (c.gfd), (row, col) is the next free slot, counts the *)
(* per-row population.  Bodies follow addConn / delConn / getConn /        *)
(* iterate line by line.  Ghost: live = the set of registered fds.         *)
(* conn_map.go (default build) is the trivial refinement: only live.       *)
(***************************************************************************)
EXTENDS Integers, Sequences, FiniteSets, TLC

CONSTANTS Rows, Cols,   \* 256 x 65536 in the code
          Fds,          \* universe of descriptor numbers
          MaxDepth

VARIABLES table, rowAlloc, f2g, cg, row, col, counts, live, ret, depth
vars == <<table, rowAlloc, f2g, cg, row, col, counts, live, ret, depth>>
NoRet == [op |-> "none"]
NilRow == [c \in 0..(Cols - 1) |-> 0]

M == [table |-> table, rowAlloc |-> rowAlloc, f2g |-> f2g, cg |-> cg, row |-> row, col |-> col, counts |-> counts]

(* addConn *)
AddOp(m, fd) ==
    IF m.row >= Rows THEN m     \* matrix full: the connection is silently not registered
    ELSE LET m1 == [m EXCEPT !.rowAlloc[m.row] = TRUE,
                             !.table[m.row][m.col] = fd,
                             !.cg[fd] = <<m.row, m.col>>,
                             !.f2g = [x \in DOMAIN m.f2g \cup {fd} |-> IF x = fd THEN <<m.row, m.col>> ELSE m.f2g[x]],
                             !.counts[m.row] = m.counts[m.row] + 1]
         IN IF m.col + 1 = Cols THEN [m1 EXCEPT !.row = m.row + 1, !.col = 0]
            ELSE [m1 EXCEPT !.col = m.col + 1]

\* the last live entry scanning backward from the end of the matrix down to (but excluding) position (r, c)
LastAfter(m, r, c) ==
    LET cand == { p \in (0..(Rows - 1)) \X (0..(Cols - 1)) :
                    /\ m.counts[p[1]] # 0 /\ m.rowAlloc[p[1]] /\ m.table[p[1]][p[2]] # 0
                    /\ (p[1] > r \/ (p[1] = r /\ p[2] > c)) }
    IN IF cand = {} THEN <<-1, -1>>
       ELSE CHOOSE p \in cand : \A q \in cand : (q[1] < p[1] \/ (q[1] = p[1] /\ q[2] <= p[2]))

(* delConn *)
DelOp(m, fd, noCompact) ==
    LET r == m.cg[fd][1]
        c == m.cg[fd][2]
        cnt == m.counts[r] - 1
        m1 == [m EXCEPT !.f2g = [x \in DOMAIN m.f2g \ {fd} |-> m.f2g[x]],
                        !.cg[fd] = <<0, 0>>,      \* (the released connection's own copy no longer matters)
                        !.counts[r] = cnt,
                        !.rowAlloc[r] = (cnt # 0),
                        !.table[r] = IF cnt = 0 THEN NilRow ELSE [m.table[r] EXCEPT ![c] = 0]]
        m2 == IF m1.row > r \/ m1.col > c THEN [m1 EXCEPT !.row = r, !.col = c] ELSE m1
    IN IF noCompact \/ ~m2.rowAlloc[r] THEN m2
       ELSE LET p == LastAfter(m2, r, c) IN
            IF p = <<-1, -1>> THEN m2
            ELSE LET mv  == m2.table[p[1]][p[2]]
                     pc  == m2.counts[p[1]] - 1
                     m3  == [m2 EXCEPT !.cg[mv] = <<r, c>>,
                                       !.f2g[mv] = <<r, c>>,
                                       !.table[r][c] = mv]
                     \* incCount(row,-1); incCount(r,+1); then clear the source
                     m4  == [m3 EXCEPT !.counts[p[1]] = m3.counts[p[1]] - 1]
                     m5  == [m4 EXCEPT !.counts[r] = m4.counts[r] + 1]
                     m6  == IF m5.counts[p[1]] = 0
                            THEN [m5 EXCEPT !.table[p[1]] = NilRow, !.rowAlloc[p[1]] = FALSE]
                            ELSE [m5 EXCEPT !.table[p[1]][p[2]] = 0]
                 IN [m6 EXCEPT !.row = p[1], !.col = p[2]]

(* getConn *)
GetOp(m, fd) ==
    IF fd \notin DOMAIN m.f2g THEN 0
    ELSE IF ~m.rowAlloc[m.f2g[fd][1]] THEN 0
    ELSE m.table[m.f2g[fd][1]][m.f2g[fd][2]]

(* iterate: row-major order over non-nil entries *)
Positions == [i \in 1..(Rows * Cols) |-> <<(i - 1) \div Cols, (i - 1) % Cols>>]
RECURSIVE IterS(_, _, _, _, _)
IterS(m, i, remove, seen, stop) ==      \* with removal of each visited entry, compaction disabled; stop > 0: the callback
                                        \* answers false at its stop-th visit and the walk ends there
    IF i > Rows * Cols \/ (stop > 0 /\ Len(seen) = stop) THEN [m |-> m, seen |-> seen]
    ELSE LET p == Positions[i]
             x == IF m.rowAlloc[p[1]] THEN m.table[p[1]][p[2]] ELSE 0
         IN IF x = 0 THEN IterS(m, i + 1, remove, seen, stop)
            ELSE IterS(IF remove THEN DelOp(m, x, TRUE) ELSE m, i + 1, remove, Append(seen, x), stop)
Iter(m, i, remove, seen) == IterS(m, i, remove, seen, 0)

Set(m, lv, rt) ==
    /\ table' = m.table /\ rowAlloc' = m.rowAlloc /\ f2g' = m.f2g /\ cg' = m.cg
    /\ row' = m.row /\ col' = m.col /\ counts' = m.counts /\ live' = lv /\ ret' = rt
    /\ (MaxDepth = 0 \/ depth < MaxDepth)
    /\ depth' = IF MaxDepth = 0 THEN 0 ELSE depth + 1

Init == /\ table = [r \in 0..(Rows - 1) |-> NilRow]
        /\ rowAlloc = [r \in 0..(Rows - 1) |-> FALSE]
        /\ f2g = <<>> /\ cg = [fd \in Fds |-> <<0, 0>>]
        /\ row = 0 /\ col = 0 /\ counts = [r \in 0..(Rows - 1) |-> 0]
        /\ live = {} /\ ret = NoRet /\ depth = 0

Count(m) == LET S(k) == k IN
            LET RECURSIVE Acc(_) 
                Acc(k) == IF k < 0 THEN 0 ELSE m.counts[k] + Acc(k - 1)
            IN Acc(Rows - 1)

Add(fd) ==
    /\ ret = NoRet /\ fd \notin live /\ row < Rows
    /\ Set(AddOp(M, fd), live \cup {fd}, [op |-> "Add", fd |-> fd])

Del(fd) ==
    /\ ret = NoRet /\ fd \in live
    /\ Set(DelOp(M, fd, FALSE), live \ {fd}, [op |-> "Del", fd |-> fd])

Get(fd) ==
    /\ ret = NoRet
    /\ Set(M, live, [op |-> "Get", fd |-> fd, got |-> GetOp(M, fd)])

Iterate(remove) ==
    /\ ret = NoRet
    /\ LET x == Iter(M, 1, remove, <<>>) IN
       Set(x.m, IF remove THEN {} ELSE live, [op |-> "Iterate", remove |-> remove, seen |-> x.seen, before |-> live])

\* a walk the callback ends early (a search): nothing is changed, and compaction is in force again afterwards -- the
\* registry behaves exactly as if the walk had never happened
IterateStop(k) ==
    /\ ret = NoRet /\ k \in 1..Cardinality(live)
    /\ LET x == IterS(M, 1, FALSE, <<>>, k) IN
       Set(M, live, [op |-> "IterateStop", k |-> k, seen |-> x.seen, before |-> live])

Norm == ret # NoRet /\ ret' = NoRet /\ UNCHANGED <<table, rowAlloc, f2g, cg, row, col, counts, live, depth>>

Next == \/ Norm
        \/ \E fd \in Fds : Add(fd) \/ Del(fd) \/ Get(fd)
        \/ \E b \in BOOLEAN : Iterate(b)
        \/ \E k \in 1..Cardinality(Fds) : IterateStop(k)

Spec == Init /\ [][Next]_vars

(* ---- invariants (C14) ---- *)
\* lookups are those of a plain map
Faithful == \A fd \in Fds : GetOp(M, fd) = (IF fd \in live THEN fd ELSE 0)
CountOK  == Count(M) = Cardinality(live)
\* compaction keeps the table dense: every live entry precedes the next-slot pointer, no holes
Dense == \A r \in 0..(Rows - 1), c \in 0..(Cols - 1) :
            LET before == r < row \/ (r = row /\ c < col) IN
            (rowAlloc[r] /\ table[r][c] # 0) <=> before
\* positions stored in the connection, in the reverse index and in the table agree
Coherent == \A fd \in live : /\ fd \in DOMAIN f2g /\ f2g[fd] = cg[fd]
                             /\ rowAlloc[cg[fd][1]] /\ table[cg[fd][1]][cg[fd][2]] = fd
RetOK == CASE ret.op = "Iterate" -> /\ {ret.seen[i] : i \in 1..Len(ret.seen)} = ret.before
                                    /\ Len(ret.seen) = Cardinality(ret.before)
                                    /\ (ret.remove => live = {} /\ Count(M) = 0 /\ row = 0 /\ col = 0)
           [] ret.op = "IterateStop" -> /\ Len(ret.seen) = ret.k
                                        /\ \A i, j \in 1..Len(ret.seen) : i # j => ret.seen[i] # ret.seen[j]
                                        /\ {ret.seen[i] : i \in 1..Len(ret.seen)} \subseteq ret.before
           [] ret.op = "Get" -> ret.got = (IF ret.fd \in live THEN ret.fd ELSE 0)
           [] OTHER -> TRUE
=============================================================================
