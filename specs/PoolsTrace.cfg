INIT TInit
NEXT TNext
CONSTANTS
  Sizes = {}
  ForeignCaps = {}
  MaxAllocs = 1000000
  MaxOut = 1000000
  Rings <- AllRings
INVARIANTS NoAlias PooledWithin PooledFree GetOK RingExclusive
POSTCONDITION Accepted
CHECK_DEADLOCK FALSE
