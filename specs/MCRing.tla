------------------------------ MODULE MCRing ------------------------------
(* Model-checking configurations of Ring.tla. *)
EXTENDS Ring

Kinds == {"zero", "one", "full"}
\* reader scripts: up to 3 answers; all but the last are (kind, nil), the last ends with EOF or ERR
ReaderScripts(maxLen) ==
    UNION { { s \in [1..n -> Kinds \X {"nil", "EOF", "ERR"}] :
                /\ \A i \in 1..(n - 1) : s[i][2] = "nil"
                /\ s[n][2] # "nil" } : n \in 1..maxLen }
\* writer scripts: answers for the (at most two) Write calls
WriterScripts == UNION { [1..n -> Kinds \X {"nil", "ERR"}] : n \in 1..2 }

\* exhaustive configuration, one model unit = 256 bytes
S_InitCaps == {0, 2, 4, 8}
S_WSizes   == {0, 1, 2, 3, 5, 9}
S_RSizes   == {-1, 0, 1, 2, 3, 7, 40}
S_RScripts == ReaderScripts(3)
S_WScripts == WriterScripts

\* quick variant: fewer scripts
Q_RScripts == ReaderScripts(2)

\* real constants, byte granularity, boundary argument sizes, bounded depth
R_InitCaps == {0, 2, 1024, 4096}
R_WSizes   == {0, 1, 511, 512, 513, 1023, 1024, 1025, 4095, 4097}
R_RSizes   == {-1, 0, 1, 511, 512, 1023, 1025, 5000}
R_RScripts == ReaderScripts(2)
R_WScripts == WriterScripts
=============================================================================
