------------------------------- MODULE Control -------------------------------
(***************************************************************************)
(* C19: the control API of an engine handle as a state machine.            *)
(*   never    - a handle that was never started (zero Engine)              *)
(*   running  - Run has booted the engine                                  *)
(*   stopping - shutdown has been requested (Stop with an expired context  *)
(*              returned the context's error) but has not completed; every *)
(*              call may observe either side                               *)
(*   stopped  - shutdown completed (Run has returned)                      *)
(* One action per control call; `ret` is the class of its result.  The     *)
(* state graph is replayed call by call on real engines (channel A).       *)
(***************************************************************************)
EXTENDS Integers, Sequences, FiniteSets, TLC

CONSTANT MaxDepth
VARIABLES st, ret, depth
vars == <<st, ret, depth>>
NoRet == [call |-> "none", res |-> "none"]

Init == st = "never" /\ ret = NoRet /\ depth = 0

Calls == {"Validate", "Count", "Dup", "DupListenerKnown", "DupListenerUnknown", "RegisterNeither", "RegisterAddr", "RegisterClosing",
          "ExecuteNil", "ExecuteOK", "EnrollNil", "ElRegisterNil"}
\* calls that need an EventLoop handle (obtained from a connection): only exist once the engine has run
LoopCalls == {"ExecuteNil", "ExecuteOK", "EnrollNil", "ElRegisterNil"}

\* result classes of a call in the three stable states
Res(call, s) ==
    CASE s = "never" ->
            (CASE call = "Count" -> "-1" [] OTHER -> "ErrEmptyEngine")
      [] s = "running" ->
            (CASE call = "Validate" -> "nil"
               [] call = "Count" -> "nonneg"
               [] call \in {"Dup", "DupListenerKnown"} -> "fd"
               [] call = "DupListenerUnknown" -> "ErrInvalidNetworkAddress"
               [] call = "RegisterNeither" -> "ErrInvalidNetworkAddress"
               [] call = "RegisterAddr" -> "one-result"
               \* a registration whose OnOpen closes the connection (the handler returns Close): still exactly one result
               [] call = "RegisterClosing" -> "one-result"
               [] call = "ExecuteNil" -> "ErrNilRunnable"
               [] call = "ExecuteOK" -> "ran-once"
               [] call = "EnrollNil" -> "ErrInvalidNetConn"
               [] call = "ElRegisterNil" -> "ErrInvalidNetworkAddress")
      [] s = "stopped" ->
            (CASE call = "Count" -> "-1" [] OTHER -> "ErrEngineInShutdown")

\* a runnable accepted while the engine is stopping may never run (C03 promises execution only while the engine
\* keeps running, C19 promises nothing about it): besides the two sides of the race, "accepted, not run"
StoppingOnly(c) == IF c = "ExecuteOK" THEN {"ran-0-times"} ELSE {}

Step(s2, c, r) == /\ ret = NoRet /\ depth < MaxDepth
                  /\ st' = s2 /\ ret' = [call |-> c, res |-> r] /\ depth' = depth + 1

Start == st = "never" /\ Step("running", "Start", "booted")
Call(c) == /\ c \in Calls /\ (c \in LoopCalls => st # "never")
           /\ IF st = "stopping"
              THEN \E r \in {Res(c, "running"), Res(c, "stopped")} \cup StoppingOnly(c) : Step(st, c, r)
              ELSE Step(st, c, Res(c, st))
\* Stop with a live context: nil once the engine has fully shut down
StopLive == \/ st = "never" /\ Step("never", "StopLive", "ErrEmptyEngine")
            \/ st \in {"running", "stopping"} /\ Step("stopped", "StopLive", "nil")
            \/ st = "stopping" /\ Step("stopped", "StopLive", "ErrEngineInShutdown")
            \/ st = "stopped" /\ Step("stopped", "StopLive", "ErrEngineInShutdown")
\* Stop with a context that has already ended: the context's error, the shutdown goes on regardless
StopExpired == \/ st = "never" /\ Step("never", "StopExpired", "ErrEmptyEngine")
               \/ st = "running" /\ Step("stopping", "StopExpired", "ctxErr")
               \/ st = "stopping" /\ \E r \in {"ctxErr", "ErrEngineInShutdown"} : Step("stopping", "StopExpired", r)
               \/ st = "stopped" /\ Step("stopped", "StopExpired", "ErrEngineInShutdown")
\* the shutdown completes on its own
Finish == st = "stopping" /\ ret = NoRet /\ st' = "stopped" /\ UNCHANGED <<ret, depth>>
Norm == ret # NoRet /\ ret' = NoRet /\ UNCHANGED <<st, depth>>

Next == Norm \/ Start \/ StopLive \/ StopExpired \/ Finish \/ \E c \in Calls : Call(c)
Spec == Init /\ [][Next]_vars

\* once stopped, always stopped; a never-started handle only starts through Start
Monotone == [][(st = "stopped" => st' = "stopped") /\ (st = "never" /\ st' # "never" => st' = "running")]_vars
StopTwiceHarmless == (ret.call \in {"StopLive", "StopExpired"} /\ ret.res = "ErrEngineInShutdown") => st \in {"stopping", "stopped"}
=============================================================================
