------------------------------ MODULE QueueLin ------------------------------
(***************************************************************************)
(* Abstract-level trace specification for C13: a history of call / return  *)
(* events of Enqueue, Dequeue (and Length / IsEmpty sampled when nothing   *)
(* is in flight) recorded from the real queue is accepted iff it has a     *)
(* linearisation: every operation takes effect atomically on a FIFO queue  *)
(* at some instant (the silent step Lin) between its call and its return.  *)
(* TLC searches the placements of the Lin steps.                           *)
(***************************************************************************)
EXTENDS Integers, Sequences, FiniteSets, TLC, Json

Trace == ndJsonDeserialize("trace.ndjson")
VARIABLES q, pend, l
vars == <<q, pend, l>>
Ev == Trace[l]
Is(e) == l <= Len(Trace) /\ Ev.ev = e /\ l' = l + 1
Mark == TLCSet(1, l')

Init == q = <<>> /\ pend = <<>> /\ l = 1 /\ TLCSet(1, 1)

\* pend: function from operation id to its record (kept as a function with a finite domain)
Dom == DOMAIN pend
With(id, rec) == [i \in Dom \cup {id} |-> IF i = id THEN rec ELSE pend[i]]
Without(id) == [i \in Dom \ {id} |-> pend[i]]

Reset == Is("Reset") /\ q' = <<>> /\ pend' = <<>> /\ Mark
Call == /\ Is("Call") /\ Ev.id \notin Dom
        /\ pend' = With(Ev.id, [typ |-> Ev.op, val |-> Ev.val, eff |-> FALSE, res |-> 0])
        /\ UNCHANGED q /\ Mark
\* the operation takes effect
Lin(id) == /\ id \in Dom /\ ~pend[id].eff
           /\ IF pend[id].typ = "enq"
              THEN q' = Append(q, pend[id].val) /\ pend' = With(id, [pend[id] EXCEPT !.eff = TRUE])
              ELSE IF q = <<>>
                   THEN q' = q /\ pend' = With(id, [pend[id] EXCEPT !.eff = TRUE, !.res = 0])
                   ELSE q' = Tail(q) /\ pend' = With(id, [pend[id] EXCEPT !.eff = TRUE, !.res = Head(q)])
           /\ UNCHANGED l
Ret == /\ Is("Ret") /\ Ev.id \in Dom /\ pend[Ev.id].eff
       /\ (pend[Ev.id].typ = "deq" => pend[Ev.id].res = Ev.res)
       /\ pend' = Without(Ev.id) /\ UNCHANGED q /\ Mark
\* Length / IsEmpty sampled while no operation is in flight
Quiesce == /\ Is("Quiesce") /\ Dom = {}
           /\ Ev.len = Len(q) /\ Ev.empty = (q = <<>>)
           /\ UNCHANGED <<q, pend>> /\ Mark

Next == Reset \/ Call \/ Ret \/ Quiesce \/ \E id \in Dom : Lin(id)
Accepted == IF TLCGet(1) = Len(Trace) + 1 THEN TRUE
            ELSE /\ PrintT(<<"TRACE_REJECTED_AT", TLCGet(1), Trace[TLCGet(1)]>>)
                 /\ FALSE
=============================================================================
