INIT Init
NEXT Next
CONSTANTS
  LMinRead = 512
  MaxSegs = 4
  MaxBytes = 100000
  MaxDepth = 5
  PushSizes <- R_Push
  ReadSizes <- R_Read
  Extras <- R_Extras
  RScripts <- R_RScripts
  WScripts <- R_WScripts
INVARIANTS TypeOK NoEmptyNodes RetOK
CHECK_DEADLOCK FALSE
