INIT Init
NEXT Next
CONSTANT Prod = {1, 2, 3}
INVARIANTS TypeOK FlagMeansWake ClearMeansSeen NoLostWakeup
CONSTRAINT QBound
CHECK_DEADLOCK FALSE
