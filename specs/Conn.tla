-------------------------------- MODULE Conn --------------------------------
(***************************************************************************)
(* One stream connection on its event loop: eventloop_unix.go (register0,  *)
(* open, read, write, close, wake), connection_unix.go (open, write,       *)
(* asyncWrite, Flush, the reader methods) and connection_linux.go          *)
(* (processIO), with an abstract kernel (receive queue, send buffer of     *)
(* SndCap bytes, level- or edge-triggered readiness) and an abstract peer. *)
(* Bytes are numbers: the inbound stream is 1..MaxIn, outbound data are    *)
(* the ids of the bytes accepted by write operations, so that loss,        *)
(* duplication and reordering are visible.                                 *)
(*                                                                         *)
(* One action per block of code between two points where something else    *)
(* can happen (a system call result, a handler decision).  The handler is  *)
(* an adversary: inside a callback it may consume any number of readable   *)
(* bytes, write, ReadFrom + Flush, close the connection through the event  *)
(* loop, and return None or Close.  User goroutines may post AsyncWrite /  *)
(* Wake / Close requests at any time.                                      *)
(*                                                                         *)
(* Named deviations of the code, modelled as such: CloseBestEffortFlush    *)
(* (output that does not fit at close is dropped), OpenWriteErrorIgnored   *)
(* is not reachable here (no write errors in this module; faults are       *)
(* ConnFault.tla's business).                                              *)
(***************************************************************************)
EXTENDS Integers, Sequences, FiniteSets, TLC

CONSTANTS ET,         \* edge-triggered I/O
          Chunk,      \* EdgeTriggeredIOChunk
          RB,         \* read buffer size of the loop
          SndCap,     \* capacity of the kernel send buffer
          MaxIn,      \* bytes the peer sends at most
          MaxOut,     \* bytes the write operations accept at most
          OutSizes,   \* sizes of single write operations
          MaxOps,     \* handler operations per callback
          MaxAsync,   \* asynchronous requests at most
          OpenReply   \* sizes the OnOpen reply may have (0 = none)

VARIABLES
    \* inbound
    psent, pfin,          \* peer: bytes sent, write side closed
    kq,                   \* kernel receive queue (count)
    rd,                   \* bytes read(2) has returned so far
    ring, win,            \* leftover bytes in inboundBuffer, bytes of the loop buffer still readable in this callback
    cons,                 \* bytes consumed by the handler
    isEOF,
    \* outbound (sequences of byte ids)
    nacc,                 \* bytes accepted so far (ids 1..nacc)
    ob, ksnd, pgot,       \* outboundBuffer, kernel send buffer, what the peer has received
    dropped,              \* bytes dropped by the best-effort flush at close
    armed,                \* write interest registered (LT)
    preading,             \* the peer is willing to read
    \* readiness edges (ET)
    eIn, eOut, eHup,
    \* life cycle
    life,                 \* "accepted" | "open" | "closed"
    fdOpen, closeErr, nOpen, nClose, localReq,
    \* loop control
    pc, todo, recv, sent, cbFrom, ops, tasks, nasync, lastn,
    nf,                   \* the handler has called ReadFrom and not yet Flush (it must before it returns)
    bad                   \* a check made inside an action failed (name of the check)
vars == <<psent, pfin, kq, rd, ring, win, cons, isEOF, nacc, ob, ksnd, pgot, dropped, armed, preading,
          eIn, eOut, eHup, life, fdOpen, closeErr, nOpen, nClose, localReq,
          pc, todo, recv, sent, cbFrom, ops, tasks, nasync, lastn, nf, bad>>

Min(a, b) == IF a < b THEN a ELSE b
Ids(a, b) == [i \in 1..(b - a + 1) |-> a + i - 1]     \* the sequence <<a, ..., b>>
Free == SndCap - Len(ksnd)
Opened == life = "open"

inVars   == <<psent, pfin, kq, rd, ring, win, cons, isEOF>>
outVars  == <<nacc, ob, ksnd, pgot, dropped, armed>>
edgeVars == <<eIn, eOut, eHup>>
lifeVars == <<life, fdOpen, closeErr, nOpen, nClose, localReq>>
ctlVars  == <<pc, todo, recv, sent, cbFrom, ops, tasks, nasync>>   \* (lastn is listed separately)

Init ==
    /\ psent = 0 /\ pfin = FALSE /\ kq = 0 /\ rd = 0 /\ ring = 0 /\ win = 0 /\ cons = 0 /\ isEOF = FALSE
    /\ nacc = 0 /\ ob = <<>> /\ ksnd = <<>> /\ pgot = <<>> /\ dropped = <<>> /\ armed = FALSE /\ preading \in BOOLEAN
    /\ eIn = FALSE /\ eOut = FALSE /\ eHup = FALSE
    /\ life = "accepted" /\ fdOpen = TRUE /\ closeErr = "none" /\ nOpen = 0 /\ nClose = 0 /\ localReq = FALSE
    /\ pc = "register" /\ todo = {} /\ recv = 0 /\ sent = 0 /\ cbFrom = "none" /\ ops = 0 /\ tasks = <<>> /\ nasync = 0
    /\ lastn = 0 /\ nf = FALSE /\ bad = "none"

Require(cond, name) == bad' = IF bad = "none" /\ ~cond THEN name ELSE bad

(* ------------------------------------------------------------------ environment *)
PeerSend(n) == /\ ~pfin /\ psent + n <= MaxIn /\ n > 0
               /\ psent' = psent + n /\ kq' = kq + n /\ eIn' = TRUE
               /\ UNCHANGED <<pfin, rd, ring, win, cons, isEOF, eOut, eHup, bad>> /\ UNCHANGED <<outVars, preading, lifeVars, ctlVars>>
PeerFin == /\ ~pfin /\ pfin' = TRUE /\ eIn' = TRUE /\ eHup' = TRUE
           /\ UNCHANGED <<psent, kq, rd, ring, win, cons, isEOF, eOut, bad>> /\ UNCHANGED <<outVars, preading, lifeVars, ctlVars>>
\* the peer takes bytes out of the kernel's send buffer; a full buffer that gets room raises a writable edge
PeerRead(n) == /\ preading /\ n \in 1..Len(ksnd)
               /\ pgot' = pgot \o SubSeq(ksnd, 1, n) /\ ksnd' = SubSeq(ksnd, n + 1, Len(ksnd))
               /\ eOut' = (eOut \/ Len(ksnd) = SndCap)
               /\ UNCHANGED <<nacc, ob, dropped, armed, preading, eIn, eHup, bad>> /\ UNCHANGED <<inVars, lifeVars, ctlVars>>
PeerToggle == /\ preading' = ~preading
              /\ UNCHANGED <<inVars, outVars, edgeVars, lifeVars, ctlVars, bad>>
\* a user goroutine posts a request (Trigger); the queue is FIFO here (its own protocol is Poller.tla's business)
Post(t) == /\ nasync < MaxAsync /\ nasync' = nasync + 1
           /\ tasks' = Append(tasks, t)
           /\ UNCHANGED <<pc, todo, recv, sent, cbFrom, ops, bad>> /\ UNCHANGED <<inVars, outVars, preading, edgeVars, lifeVars>>
UserAsync == \/ \E n \in OutSizes : nacc + n <= MaxOut /\ Post(<<"awrite", n>>)
             \/ Post(<<"wake", 0>>)
             \/ (Post(<<"close", 0>>) /\ TRUE)

(* ------------------------------------------------------------------ helpers: conn.write, eventloop.close *)
\* the kernel takes k bytes of the sequence s: they go to the send buffer
\* conn.write(data): append behind pending data, otherwise write directly and buffer what is left
WriteRes(data, k) ==   \* direct write accepted k bytes (0 = EAGAIN)
    [ksnd |-> ksnd \o SubSeq(data, 1, k),
     ob   |-> SubSeq(data, k + 1, Len(data)),
     armed |-> IF ET THEN armed ELSE (armed \/ k < Len(data))]
\* all k the kernel may accept in one conn.write: LT one write(2) (1..min, or 0 when full);
\* ET loops until everything is written or EAGAIN, i.e. min(len, free)
WriteKs(n) == IF Free = 0 THEN {0}
              ELSE IF ET THEN {Min(n, Free)} ELSE 1..Min(n, Free)

\* eventloop.close(c, err) as one step: OnClose, best-effort flush of the backlog, release, close(2)
DoClose(err) ==
    /\ life' = "closed" /\ nClose' = nClose + 1 /\ closeErr' = err /\ fdOpen' = FALSE
    /\ LET k == Min(Len(ob), Free) IN
       /\ ksnd' = ksnd \o SubSeq(ob, 1, k)
       /\ dropped' = dropped \o SubSeq(ob, k + 1, Len(ob))
       /\ ob' = <<>>
    /\ armed' = FALSE
    /\ UNCHANGED <<nOpen, localReq, nacc, pgot>>

(* ------------------------------------------------------------------ registration and OnOpen *)
\* register0 + open: OnOpen with a reply of r bytes and an action
Register(r, closeNow) ==
    /\ pc = "register" /\ nacc + r <= MaxOut
    /\ nOpen' = nOpen + 1
    /\ eOut' = (ET \/ eOut)                         \* ET registers read+write: the socket is writable at once
    /\ IF closeNow
       THEN \* the reply is written by conn.open, then the Close action closes the connection
            /\ LET k == Min(r, Free)
                   data == Ids(nacc + 1, nacc + r) IN
               /\ nacc' = nacc + r
               /\ life' = "closed" /\ nClose' = nClose + 1 /\ closeErr' = "nil" /\ fdOpen' = FALSE
               /\ ksnd' = ksnd \o SubSeq(data, 1, k) /\ dropped' = SubSeq(data, k + 1, r) /\ ob' = <<>> /\ armed' = FALSE
            /\ localReq' = TRUE /\ pc' = "wait"
            /\ UNCHANGED <<pgot>>
       ELSE /\ LET k == Min(r, Free)
                   data == Ids(nacc + 1, nacc + r) IN
               /\ nacc' = nacc + r
               /\ ksnd' = ksnd \o SubSeq(data, 1, k) /\ ob' = SubSeq(data, k + 1, r)
               /\ armed' = (~ET /\ k < r)
            /\ life' = "open" /\ pc' = "wait"
            /\ UNCHANGED <<fdOpen, closeErr, nClose, localReq, dropped, pgot>>
    /\ UNCHANGED <<eIn, eHup, preading, todo, recv, sent, cbFrom, ops, tasks, nasync, bad>> /\ UNCHANGED inVars

(* ------------------------------------------------------------------ the loop: epoll_wait and dispatch *)
ReadyIn  == IF ET THEN eIn ELSE (kq > 0 \/ pfin)
ReadyOut == IF ET THEN eOut ELSE (armed /\ Free > 0)
ReadyHup == ET /\ eHup
\* an I/O event of the connection is delivered (only while it is registered, i.e. open)
WaitIO ==
    /\ pc = "wait" /\ Opened /\ (ReadyIn \/ ReadyOut \/ ReadyHup)
    \* "I" remembers that the event set contained EPOLLIN, "HO" stands for an EPOLLRDHUP that came alone
    /\ todo' = IF ReadyHup /\ ~ReadyIn /\ ~ReadyOut THEN {"HO"}
                ELSE (IF ReadyOut THEN {"W"} ELSE {}) \cup (IF ReadyIn THEN {"R", "I"} ELSE {}) \cup (IF ReadyHup THEN {"H"} ELSE {})
    /\ eIn' = FALSE /\ eOut' = FALSE /\ eHup' = FALSE
    /\ pc' = "pio" /\ recv' = 0 /\ sent' = 0
    /\ UNCHANGED <<cbFrom, ops, tasks, nasync, bad>> /\ UNCHANGED <<inVars, outVars, preading, lifeVars>>
\* processIO: RDHUP alone closes at once; otherwise write, then read, then the RDHUP handling
PIO ==
    /\ pc = "pio"
    /\ IF ~Opened THEN pc' = "wait" /\ todo' = {} /\ UNCHANGED <<inVars, outVars, lifeVars, recv, sent, cbFrom, ops>>
       ELSE IF todo = {"HO"}
       THEN \* EPOLLRDHUP without any I/O event: the backlog is released, close with EOF
            /\ DoClose("EOF") /\ dropped' = dropped \o ob /\ pc' = "wait" /\ todo' = {}
            /\ UNCHANGED <<inVars, recv, sent, cbFrom, ops>>
       ELSE IF "W" \in todo THEN /\ pc' = (IF ob = <<>> THEN "pio" ELSE "w_sys") /\ todo' = todo \ {"W"} /\ sent' = 0
                                 /\ UNCHANGED <<inVars, outVars, lifeVars, recv, cbFrom, ops>>
       ELSE IF "R" \in todo THEN /\ pc' = "r_sys" /\ todo' = todo \ {"R"} /\ recv' = 0
                                 /\ UNCHANGED <<inVars, outVars, lifeVars, sent, cbFrom, ops>>
       ELSE IF "H" \in todo /\ "I" \notin todo
                            THEN \* EPOLLRDHUP without EPOLLIN: close directly
                                 /\ DoClose("EOF") /\ pc' = "wait" /\ todo' = {}
                                 /\ UNCHANGED <<inVars, recv, sent, cbFrom, ops>>
       ELSE IF "H" \in todo THEN \* EPOLLIN|EPOLLRDHUP: drain the socket until EOF
                                 /\ isEOF' = TRUE /\ pc' = "r_sys" /\ todo' = {} /\ recv' = 0
                                 /\ UNCHANGED <<psent, pfin, kq, rd, ring, win, cons, outVars, lifeVars, sent, cbFrom, ops>>
       ELSE pc' = "wait" /\ todo' = {} /\ UNCHANGED <<inVars, outVars, lifeVars, recv, sent, cbFrom, ops>>
    /\ UNCHANGED <<preading, edgeVars, tasks, nasync, bad>>

(* ------------------------------------------------------------------ eventloop.write *)
\* one write(2)/writev(2) of the backlog: k bytes accepted (EAGAIN when the send buffer is full)
WSys(k) ==
    /\ pc = "w_sys" /\ ob # <<>>
    /\ Require(fdOpen, "UseOnlyOwnedFd")
    /\ IF Free = 0
       THEN /\ k = 0 /\ UNCHANGED outVars /\ UNCHANGED sent
            /\ pc' = (IF cbFrom = "flush" THEN "cb" ELSE "pio")            \* EAGAIN: return nil
       ELSE /\ k \in 1..Min(Len(ob), Free)
            /\ ksnd' = ksnd \o SubSeq(ob, 1, k) /\ ob' = SubSeq(ob, k + 1, Len(ob)) /\ sent' = sent + k
            /\ UNCHANGED <<nacc, pgot, dropped>>
            /\ IF ET /\ Len(ob) > k /\ sent + k < Chunk
               THEN pc' = "w_sys" /\ UNCHANGED <<armed, tasks>>                      \* goto loop
               ELSE IF ~ET /\ Len(ob) = k
                    THEN armed' = FALSE /\ UNCHANGED tasks                           \* all sent: ModRead
                         /\ pc' = (IF cbFrom = "flush" THEN "cb" ELSE "pio")
                    ELSE IF ET /\ Len(ob) > k
                         THEN tasks' = Append(tasks, <<"write0", 0>>) /\ UNCHANGED armed   \* chunk limit: re-trigger
                              /\ pc' = (IF cbFrom = "flush" THEN "cb" ELSE "pio")
                         ELSE \* LT, backlog left (short write): the writable event stays armed if it was
                              /\ UNCHANGED <<armed, tasks>>
                              /\ pc' = (IF cbFrom = "flush" THEN "cb" ELSE "pio")
    /\ (Free = 0 => UNCHANGED <<armed, tasks>>) \/ Free > 0
    /\ UNCHANGED <<inVars, preading, edgeVars, lifeVars, todo, recv, cbFrom, ops, nasync>>

(* ------------------------------------------------------------------ eventloop.read *)
RSys ==
    /\ pc = "r_sys"
    /\ IF ~Opened THEN pc' = "pio" /\ UNCHANGED <<inVars, outVars, lifeVars, recv, cbFrom, ops, bad, lastn>>
       ELSE /\ Require(fdOpen, "UseOnlyOwnedFd")
            /\ IF kq > 0
               THEN LET n == Min(RB, kq) IN
                    /\ kq' = kq - n /\ rd' = rd + n /\ win' = n /\ recv' = recv + n /\ lastn' = n
                    /\ pc' = "cb" /\ cbFrom' = "read" /\ ops' = 0
                    /\ UNCHANGED <<psent, pfin, ring, cons, isEOF, outVars, lifeVars>>
               ELSE IF pfin
                    THEN \* read returns 0: close with EOF
                         /\ DoClose("EOF") /\ pc' = "pio" /\ UNCHANGED <<inVars, recv, cbFrom, ops, lastn>>
                    ELSE \* EAGAIN
                         /\ pc' = "pio" /\ UNCHANGED <<inVars, outVars, lifeVars, recv, cbFrom, ops, lastn>>
    /\ UNCHANGED <<preading, edgeVars, todo, sent, tasks, nasync>>

\* after OnTraffic returned None: leftovers, then loop / re-trigger / return
RAfter ==
    /\ pc = "r_after"
    /\ IF ~Opened
       THEN \* closed inside OnTraffic: the descriptor is gone, do not touch it
            /\ pc' = "pio" /\ UNCHANGED <<ring, win, tasks>>
       ELSE /\ ring' = ring + win /\ win' = 0
            /\ IF isEOF \/ (ET /\ recv < Chunk)
               THEN pc' = "r_sys" /\ UNCHANGED tasks
               ELSE IF ET /\ lastn = RB
                    THEN \* chunk limit reached on a full buffer: issue another read event manually
                         tasks' = Append(tasks, <<"read0", 0>>) /\ pc' = "pio"
                    ELSE pc' = "pio" /\ UNCHANGED tasks
    /\ UNCHANGED <<psent, pfin, kq, rd, cons, isEOF, outVars, preading, edgeVars, lifeVars, todo, recv, sent, cbFrom, ops, nasync, bad>>

(* ------------------------------------------------------------------ the handler inside OnTraffic *)
InCb == pc = "cb"
HConsume(k) ==   \* Read / Next / Discard / WriteTo of k bytes: inboundBuffer first, then the loop buffer
    /\ InCb /\ ops < MaxOps /\ k \in 1..(ring + win)
    /\ cons' = cons + k
    /\ ring' = IF k <= ring THEN ring - k ELSE 0
    /\ win'  = IF k <= ring THEN win ELSE win - (k - ring)
    /\ ops' = ops + 1
    /\ UNCHANGED <<psent, pfin, kq, rd, isEOF, outVars, preading, edgeVars, lifeVars, pc, todo, recv, sent, cbFrom, tasks, nasync, bad>>
HWrite(n, k) ==  \* Conn.Write / Writev of n bytes inside the callback
    /\ InCb /\ ops < MaxOps /\ Opened /\ nacc + n <= MaxOut /\ ~nf
    /\ Require(fdOpen, "UseOnlyOwnedFd")
    /\ nacc' = nacc + n /\ ops' = ops + 1
    /\ IF ob # <<>>
       THEN k = 0 /\ ob' = ob \o Ids(nacc + 1, nacc + n) /\ UNCHANGED <<ksnd, armed>>
       ELSE /\ k \in WriteKs(n)
            /\ LET res == WriteRes(Ids(nacc + 1, nacc + n), k) IN
               ksnd' = res.ksnd /\ ob' = res.ob /\ armed' = res.armed
    /\ UNCHANGED <<pgot, dropped, inVars, preading, edgeVars, lifeVars, pc, todo, recv, sent, cbFrom, tasks, nasync>>
HReadFrom(n) ==  \* Conn.ReadFrom: into the outbound buffer, nothing is written
    /\ InCb /\ ops < MaxOps /\ Opened /\ nacc + n <= MaxOut
    /\ nacc' = nacc + n /\ ob' = ob \o Ids(nacc + 1, nacc + n) /\ ops' = ops + 1 /\ nf' = TRUE
    /\ UNCHANGED <<ksnd, pgot, dropped, armed, inVars, preading, edgeVars, lifeVars, pc, todo, recv, sent, cbFrom, tasks, nasync, bad>>
HFlush ==        \* Conn.Flush = eventloop.write from inside the callback
    /\ InCb /\ (ops < MaxOps \/ nf) /\ Opened /\ cbFrom # "flush" /\ ob # <<>>
    /\ pc' = "w_sys" /\ sent' = 0 /\ ops' = ops + 1 /\ nf' = FALSE
    /\ todo' = todo \cup {IF cbFrom = "read" THEN "CBR" ELSE "CBW"}      \* remember which callback we are in
    /\ cbFrom' = "flush"
    /\ UNCHANGED <<inVars, outVars, preading, edgeVars, lifeVars, recv, tasks, nasync, bad>>
\* back in the callback after Flush
\* conn.Flush: in level-triggered mode data left after the write attempt needs the writable event
FlushBack ==
    /\ pc = "cb" /\ cbFrom = "flush"
    /\ cbFrom' = (IF "CBR" \in todo THEN "read" ELSE "wake") /\ todo' = todo \ {"CBR", "CBW"}
    /\ armed' = (armed \/ (~ET /\ Opened /\ ob # <<>>))
    /\ UNCHANGED <<nacc, ob, ksnd, pgot, dropped>>
    /\ UNCHANGED <<inVars, preading, edgeVars, lifeVars, pc, recv, sent, ops, tasks, nasync, bad>>
HElClose ==      \* EventLoop.Close(c) from inside the callback
    /\ InCb /\ cbFrom # "flush" /\ ops < MaxOps /\ Opened /\ ~nf
    /\ DoClose("nil") /\ localReq' = TRUE /\ ops' = ops + 1
    /\ UNCHANGED <<inVars, preading, edgeVars, pc, todo, recv, sent, cbFrom, tasks, nasync, bad>> /\ UNCHANGED nOpen
HReturn(closeAction) ==
    /\ InCb /\ cbFrom # "flush" /\ ~nf
    /\ IF closeAction /\ Opened
       THEN /\ DoClose("nil") /\ localReq' = TRUE
            /\ pc' = (IF cbFrom = "read" THEN "pio" ELSE "chores")
            /\ UNCHANGED <<inVars, nOpen>>
       ELSE /\ pc' = (IF cbFrom = "read" THEN "r_after" ELSE "chores")
            /\ UNCHANGED <<inVars, outVars, lifeVars>>
    /\ cbFrom' = "none"
    /\ UNCHANGED <<preading, edgeVars, todo, recv, sent, ops, tasks, nasync, bad>>

(* ------------------------------------------------------------------ chores: asynchronous tasks *)
WaitTask == /\ pc = "wait" /\ tasks # <<>> /\ pc' = "chores"
            /\ UNCHANGED <<inVars, outVars, preading, edgeVars, lifeVars, todo, recv, sent, cbFrom, ops, tasks, nasync, bad>>
RunTask(k) ==
    /\ pc = "chores"
    /\ IF tasks = <<>> THEN pc' = "wait" /\ k = 0 /\ UNCHANGED <<inVars, outVars, lifeVars, tasks, todo, recv, sent, cbFrom, ops, bad>>
       ELSE LET t == Head(tasks) IN
            /\ tasks' = Tail(tasks)
            /\ CASE t[1] = "awrite" ->
                      \* conn.asyncWrite: ErrClosed on a closed connection, conn.write otherwise
                      IF ~Opened THEN k = 0 /\ UNCHANGED <<inVars, outVars, lifeVars, pc, todo, recv, sent, cbFrom, ops, bad>>
                      ELSE /\ Require(fdOpen, "UseOnlyOwnedFd")
                           /\ nacc' = nacc + t[2]
                           /\ IF ob # <<>>
                              THEN k = 0 /\ ob' = ob \o Ids(nacc + 1, nacc + t[2]) /\ UNCHANGED <<ksnd, armed>>
                              ELSE /\ k \in WriteKs(t[2])
                                   /\ LET res == WriteRes(Ids(nacc + 1, nacc + t[2]), k) IN
                                      ksnd' = res.ksnd /\ ob' = res.ob /\ armed' = res.armed
                           /\ UNCHANGED <<pgot, dropped, inVars, lifeVars, pc, todo, recv, sent, cbFrom, ops>>
                 [] t[1] = "wake" ->
                      \* eventloop.wake: OnTraffic on an open connection, nothing otherwise
                      /\ k = 0
                      /\ IF Opened THEN pc' = "cb" /\ cbFrom' = "wake" /\ ops' = 0 ELSE UNCHANGED <<pc, cbFrom, ops>>
                      /\ UNCHANGED <<inVars, outVars, lifeVars, todo, recv, sent, bad>>
                 [] t[1] = "close" ->
                      /\ k = 0
                      /\ IF Opened THEN DoClose("nil") /\ localReq' = TRUE /\ UNCHANGED nOpen ELSE UNCHANGED <<outVars, lifeVars>>
                      /\ UNCHANGED <<inVars, pc, todo, recv, sent, cbFrom, ops, bad>>
                 [] t[1] = "read0" ->
                      /\ k = 0 /\ pc' = (IF Opened THEN "r_sys" ELSE "chores") /\ recv' = 0 /\ todo' = {"T"}
                      /\ UNCHANGED <<inVars, outVars, lifeVars, sent, cbFrom, ops, bad>>
                 [] t[1] = "write0" ->
                      /\ k = 0 /\ pc' = (IF Opened /\ ob # <<>> THEN "w_sys" ELSE "chores") /\ sent' = 0 /\ todo' = {"T"}
                      /\ UNCHANGED <<inVars, outVars, lifeVars, recv, cbFrom, ops, bad>>
    /\ UNCHANGED <<preading, edgeVars, nasync>>
\* a task that ran read / write comes back to the chores through "pio" with the marker T
TaskBack == /\ pc = "pio" /\ "T" \in todo /\ pc' = "chores" /\ todo' = {}
            /\ UNCHANGED <<inVars, outVars, preading, edgeVars, lifeVars, recv, sent, cbFrom, ops, tasks, nasync, bad>>

\* actions that leave lastn (size of the last read) and nf (ReadFrom not yet flushed) alone
Plain ==
    \/ \E n \in 1..MaxIn : PeerSend(n)
    \/ PeerFin \/ PeerToggle \/ UserAsync
    \/ \E n \in 1..SndCap : PeerRead(n)
    \/ \E r \in OpenReply, c \in BOOLEAN : Register(r, c)
    \/ WaitIO \/ (PIO /\ "T" \notin todo) \/ TaskBack \/ RAfter
    \/ \E k \in 0..SndCap : WSys(k)
    \/ \E k \in 1..MaxIn : HConsume(k)
    \/ \E n \in OutSizes, k \in 0..SndCap : HWrite(n, k)
    \/ FlushBack \/ HElClose
    \/ \E c \in BOOLEAN : HReturn(c)
    \/ WaitTask
    \/ \E k \in 0..SndCap : RunTask(k)
Next == \/ Plain /\ UNCHANGED <<lastn, nf>>
        \/ RSys /\ UNCHANGED nf
        \/ (\E n \in OutSizes : HReadFrom(n)) /\ UNCHANGED lastn
        \/ HFlush /\ UNCHANGED lastn

LoopStep == \/ /\ \/ (\E r \in OpenReply, c \in BOOLEAN : Register(r, c))
                  \/ WaitIO \/ (PIO /\ "T" \notin todo) \/ TaskBack \/ RAfter \/ (\E k \in 0..SndCap : WSys(k))
                  \/ WaitTask \/ (\E k \in 0..SndCap : RunTask(k))
                  \/ (\E c \in BOOLEAN : HReturn(c)) \/ FlushBack
               /\ UNCHANGED <<lastn, nf>>
            \/ RSys /\ UNCHANGED nf
            \/ HFlush /\ UNCHANGED lastn
Spec == Init /\ [][Next]_vars
FairSpec == Spec /\ WF_vars(LoopStep) /\ WF_vars((\E n \in 1..SndCap : PeerRead(n)) /\ UNCHANGED <<lastn, nf>>)

(* ------------------------------------------------------------------ properties *)
NoFailedCheck == bad = "none"                                   \* C07: no system call on a closed descriptor
\* C01
InAccounting == (pc \in {"cb"} \/ pc = "wait") => cons + ring + win = rd
InPrefix == rd <= psent /\ cons <= rd /\ rd + kq = psent
AllOfferedBeforeEOFClose == (life = "closed" /\ closeErr = "EOF") => rd = psent
\* C02: what the peer got, what is in flight and what is buffered is exactly what was accepted, in order
OutExact == pgot \o ksnd \o ob \o dropped = Ids(1, nacc) \/ (dropped # <<>>)
OutNoDropWhileOpen == Opened => dropped = <<>>
OutPrefix == \A i \in 1..Len(pgot) : pgot[i] = i
\* level-triggered: when the loop goes to sleep, write interest is armed iff there is a backlog
LTArmedIffBacklog == (~ET /\ pc = "wait" /\ Opened) => (armed <=> ob # <<>>)
\* C04
OpenOnce == nOpen <= 1
CloseOnceIffOpen == nClose <= nOpen /\ nClose <= 1
NothingAfterClose == (pc = "cb") => (Opened \/ cbFrom \in {"read", "wake", "flush"})
CloseErrNilIffLocal == life = "closed" => ((closeErr = "nil") => localReq)
\* liveness: a peer that keeps sending is served; accepted data are sent while the peer reads
Served == [](kq > 0 /\ Opened => <>(kq = 0 \/ ~Opened))
Drained == []((ob # <<>> /\ Opened) => <>(ob = <<>> \/ ~Opened \/ ~preading))
=============================================================================
