-------------------------------- MODULE TrLB --------------------------------
(***************************************************************************)
(* C15 on recorded engine lives: the decisions of the acceptor.  With the  *)
(* Round-Robin policy (the life's Reset event says so) the main reactor    *)
(* hands the connections it accepts to the sub-loops cyclically, starting  *)
(* with loop 0 -- the refinement of Engine.tla's Accept with LB = "rr"     *)
(* (invariant RRBalanced) to the one thing a recorded life shows of it:    *)
(* the loop index logged at the gate acc.accepted.  And whatever the       *)
(* policy, the connection is opened on the loop it was handed to.          *)
(*   rr      this life balances Round-Robin over n loops (0: it does not)  *)
(*   nxt     the loop the next accepted connection goes to                 *)
(*   given   handle -> loop index it was handed to                         *)
(***************************************************************************)
EXTENDS TrBase

VARIABLES rr, nxt, given
vars == <<l, viols, rr, nxt, given>>

Init == /\ l = 1 /\ viols = <<>> /\ rr = 0 /\ nxt = 0 /\ given = Empty
        /\ TLCSet(1, 1) /\ TLCSet(2, <<>>)
Step(r2, n2, g2, vs) == /\ l' = l + 1 /\ rr' = r2 /\ nxt' = n2 /\ given' = g2 /\ viols' = vs /\ Mark

Step1 ==
    /\ More
    /\ LET e == Ev IN
       CASE e.ev = "Reset" ->
              Step(IF "lb" \in DOMAIN e /\ e.lb = "rr" /\ ~e.reuseport THEN e.loops ELSE 0, 0, Empty, viols)
         [] e.ev = "Gate" /\ e.site = "acc.accepted" ->
              Step(rr, IF rr > 0 THEN (nxt + 1) % rr ELSE nxt, Put(given, e.h, e.idx),
                   Check(rr = 0 \/ e.idx = nxt, "RoundRobinCyclic", <<e.h, e.idx, nxt, rr>>, viols))
         \* the loop that registers the connection is the loop the acceptor chose
         [] e.ev = "Hook" /\ e.site = "el.registered" /\ e.h \in DOMAIN given ->
              Step(rr, nxt, given, Check(e.b = given[e.h], "OpenedOnAssignedLoop", <<e.h, e.b, given[e.h]>>, viols))
         [] OTHER -> Step(rr, nxt, given, viols)

Next == Step1 \/ FinishWith(<<rr, nxt, given>>)
=============================================================================
