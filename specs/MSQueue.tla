------------------------------ MODULE MSQueue ------------------------------
(***************************************************************************)
(* pkg/queue/lock_free_queue.go (Michael & Scott) at the granularity of    *)
(* single atomic operations: one action per load / CAS / counter update,   *)
(* which is also the granularity of the verif gates in the code, so that   *)
(* gated executions of the real queue can be validated step by step        *)
(* (MSQueueTrace.tla) and TLC behaviours replayed as schedules.            *)
(*                                                                         *)
(* Nodes are never recycled (Go's GC: no ABA): node ids are fresh.  A node *)
(* gets its id when it is linked.  Ghost state: absQ, the abstract FIFO,   *)
(* updated at the linearisation points (successful link CAS / successful   *)
(* head CAS / the load of next by a dequeue that then reports "empty").    *)
(***************************************************************************)
EXTENDS Integers, Sequences, FiniteSets, TLC

CONSTANTS Enqueuers, Dequeuers,   \* process ids (disjoint sets)
          NEnq, NDeq,             \* operations per process
          LenReaders              \* processes that call Length()/IsEmpty() (results only constrained at quiescence)

Procs == Enqueuers \cup Dequeuers

VARIABLES next, val, head, tail, length, nn,     \* the queue: next/val per node, head, tail, counter, #nodes
          pc, t, x, h, v, k,                      \* per process: program counter, locals, ops completed
          absQ, emptyW, bad, out                  \* ghost: abstract queue, empty witness, assertion flag, returned values
vars == <<next, val, head, tail, length, nn, pc, t, x, h, v, k, absQ, emptyW, bad, out>>

Init == /\ next = <<0>> /\ val = <<0>> /\ head = 1 /\ tail = 1 /\ length = 0 /\ nn = 1
        /\ pc = [p \in Procs |-> "idle"]
        /\ t = [p \in Procs |-> 0] /\ x = [p \in Procs |-> 0] /\ h = [p \in Procs |-> 0]
        /\ v = [p \in Procs |-> 0] /\ k = [p \in Procs |-> 0]
        /\ absQ = <<>> /\ emptyW = [p \in Procs |-> FALSE] /\ bad = FALSE /\ out = <<>>

Go(p, l) == pc' = [pc EXCEPT ![p] = l]
\* the value process p enqueues in its i-th operation (distinguishable per producer)
ValOf(p, i) == p * 100 + i

(* ---------------- Enqueue ---------------- *)
E_Start(p) == /\ p \in Enqueuers /\ pc[p] = "idle" /\ k[p] < NEnq
              /\ Go(p, "E_LoadTail")
              /\ UNCHANGED <<next, val, head, tail, length, nn, t, x, h, v, k, absQ, emptyW, bad, out>>
E_LoadTail(p) == /\ pc[p] = "E_LoadTail" /\ t' = [t EXCEPT ![p] = tail] /\ Go(p, "E_LoadNext")
                 /\ UNCHANGED <<next, val, head, tail, length, nn, x, h, v, k, absQ, emptyW, bad, out>>
E_LoadNext(p) == /\ pc[p] = "E_LoadNext" /\ x' = [x EXCEPT ![p] = next[t[p]]] /\ Go(p, "E_Recheck")
                 /\ UNCHANGED <<next, val, head, tail, length, nn, t, h, v, k, absQ, emptyW, bad, out>>
E_Recheck(p) == /\ pc[p] = "E_Recheck"
                /\ Go(p, IF t[p] # tail THEN "E_LoadTail" ELSE IF x[p] = 0 THEN "E_CasLink" ELSE "E_HelpSwing")
                /\ UNCHANGED <<next, val, head, tail, length, nn, t, x, h, v, k, absQ, emptyW, bad, out>>
\* cas(&tail.next, nil, n): success links a fresh node and is the linearisation point of Enqueue
E_CasLink(p) ==
    /\ pc[p] = "E_CasLink"
    /\ IF next[t[p]] = 0
       THEN /\ nn' = nn + 1
            /\ next' = Append([next EXCEPT ![t[p]] = nn + 1], 0)
            /\ val' = Append(val, ValOf(p, k[p] + 1))
            /\ absQ' = Append(absQ, ValOf(p, k[p] + 1))
            /\ x' = [x EXCEPT ![p] = nn + 1]           \* remember the new node for the swing
            /\ Go(p, "E_CasSwing")
       ELSE /\ Go(p, "E_LoadTail") /\ UNCHANGED <<next, val, nn, absQ, x>>
    /\ UNCHANGED <<head, tail, length, t, h, v, k, emptyW, bad, out>>
E_CasSwing(p) == /\ pc[p] = "E_CasSwing"
                 /\ tail' = IF tail = t[p] THEN x[p] ELSE tail
                 /\ Go(p, "E_IncLen")
                 /\ UNCHANGED <<next, val, head, length, nn, t, x, h, v, k, absQ, emptyW, bad, out>>
E_IncLen(p) == /\ pc[p] = "E_IncLen" /\ length' = length + 1
               /\ k' = [k EXCEPT ![p] = @ + 1] /\ Go(p, "idle")
               /\ UNCHANGED <<next, val, head, tail, nn, t, x, h, v, absQ, emptyW, bad, out>>
E_HelpSwing(p) == /\ pc[p] = "E_HelpSwing"
                  /\ tail' = IF tail = t[p] THEN x[p] ELSE tail
                  /\ Go(p, "E_LoadTail")
                  /\ UNCHANGED <<next, val, head, length, nn, t, x, h, v, k, absQ, emptyW, bad, out>>

(* ---------------- Dequeue ---------------- *)
D_Start(p) == /\ p \in Dequeuers /\ pc[p] = "idle" /\ k[p] < NDeq
              /\ Go(p, "D_LoadHead")
              /\ UNCHANGED <<next, val, head, tail, length, nn, t, x, h, v, k, absQ, emptyW, bad, out>>
D_LoadHead(p) == /\ pc[p] = "D_LoadHead" /\ h' = [h EXCEPT ![p] = head] /\ Go(p, "D_LoadTail")
                 /\ UNCHANGED <<next, val, head, tail, length, nn, t, x, v, k, absQ, emptyW, bad, out>>
D_LoadTail(p) == /\ pc[p] = "D_LoadTail" /\ t' = [t EXCEPT ![p] = tail] /\ Go(p, "D_LoadNext")
                 /\ UNCHANGED <<next, val, head, tail, length, nn, x, h, v, k, absQ, emptyW, bad, out>>
\* the load of head.next: if the call later answers "empty" this is where it takes effect
D_LoadNext(p) == /\ pc[p] = "D_LoadNext" /\ x' = [x EXCEPT ![p] = next[h[p]]]
                 /\ emptyW' = [emptyW EXCEPT ![p] = (absQ = <<>>)]
                 /\ Go(p, "D_Recheck")
                 /\ UNCHANGED <<next, val, head, tail, length, nn, t, h, v, k, absQ, bad, out>>
D_Recheck(p) == /\ pc[p] = "D_Recheck"
                /\ Go(p, IF h[p] # head THEN "D_LoadHead"
                         ELSE IF h[p] = t[p] THEN (IF x[p] = 0 THEN "D_RetNil" ELSE "D_HelpSwing")
                         ELSE "D_ReadVal")
                /\ UNCHANGED <<next, val, head, tail, length, nn, t, x, h, v, k, absQ, emptyW, bad, out>>
D_RetNil(p) == /\ pc[p] = "D_RetNil"
               /\ bad' = (bad \/ ~emptyW[p])
               /\ out' = Append(out, <<p, 0>>)
               /\ k' = [k EXCEPT ![p] = @ + 1] /\ Go(p, "idle")
               /\ UNCHANGED <<next, val, head, tail, length, nn, t, x, h, v, absQ, emptyW>>
D_HelpSwing(p) == /\ pc[p] = "D_HelpSwing"
                  /\ tail' = IF tail = t[p] THEN x[p] ELSE tail
                  /\ Go(p, "D_LoadHead")
                  /\ UNCHANGED <<next, val, head, length, nn, t, x, h, v, k, absQ, emptyW, bad, out>>
D_ReadVal(p) == /\ pc[p] = "D_ReadVal" /\ v' = [v EXCEPT ![p] = val[x[p]]] /\ Go(p, "D_CasHead")
                /\ UNCHANGED <<next, val, head, tail, length, nn, t, x, h, k, absQ, emptyW, bad, out>>
\* cas(&q.head, head, next): success is the linearisation point of a successful Dequeue
D_CasHead(p) ==
    /\ pc[p] = "D_CasHead"
    /\ IF head = h[p]
       THEN /\ head' = x[p]
            /\ bad' = (bad \/ absQ = <<>> \/ (absQ # <<>> /\ Head(absQ) # v[p]))
            /\ absQ' = IF absQ = <<>> THEN absQ ELSE Tail(absQ)
            /\ Go(p, "D_DecLen")
       ELSE /\ Go(p, "D_LoadHead") /\ UNCHANGED <<head, bad, absQ>>
    /\ UNCHANGED <<next, val, tail, length, nn, t, x, h, v, k, emptyW, out>>
D_DecLen(p) == /\ pc[p] = "D_DecLen" /\ length' = length - 1
               /\ out' = Append(out, <<p, v[p]>>)
               /\ k' = [k EXCEPT ![p] = @ + 1] /\ Go(p, "idle")
               /\ UNCHANGED <<next, val, head, tail, nn, t, x, h, v, absQ, emptyW, bad>>

Step(p) == \/ E_Start(p) \/ E_LoadTail(p) \/ E_LoadNext(p) \/ E_Recheck(p) \/ E_CasLink(p)
           \/ E_CasSwing(p) \/ E_IncLen(p) \/ E_HelpSwing(p)
           \/ D_Start(p) \/ D_LoadHead(p) \/ D_LoadTail(p) \/ D_LoadNext(p) \/ D_Recheck(p)
           \/ D_RetNil(p) \/ D_HelpSwing(p) \/ D_ReadVal(p) \/ D_CasHead(p) \/ D_DecLen(p)
Next == \E p \in Procs : Step(p)
Spec == Init /\ [][Next]_vars
FairSpec == Spec /\ \A p \in Procs : WF_vars(Step(p))

(* ---------------- properties (C13) ---------------- *)
TypeOK == /\ head \in 1..nn /\ tail \in 1..nn /\ Len(next) = nn /\ Len(val) = nn
\* every assertion made at a linearisation point held: a dequeued value was the head of the
\* abstract queue, "empty" was only answered when the abstract queue was empty at the witness point
Linearizable == ~bad
\* the list from head is exactly the abstract queue
RECURSIVE ListFrom(_)
ListFrom(n) == IF next[n] = 0 THEN <<>> ELSE <<val[next[n]]>> \o ListFrom(next[n])
ListIsAbs == ListFrom(head) = absQ
\* tail lags behind the last node by at most one
TailLag == next[tail] = 0 \/ next[next[tail]] = 0
\* nothing is returned twice, nothing is invented
Returned == {out[i][2] : i \in 1..Len(out)} \ {0}
NoDup == Cardinality({i \in 1..Len(out) : out[i][2] # 0}) = Cardinality(Returned)
NoInvention == \A w \in Returned : \E p \in Enqueuers, i \in 1..NEnq : w = ValOf(p, i)
\* values of one producer are obtained by one consumer in the order they were enqueued (`out` is in the order the
\* dequeue calls return: two consumers may return in the opposite order of their head CASes, which is what
\* Linearizable judges; the gnet poller has one consumer per queue)
PerProducerFIFO == \A i, j \in 1..Len(out) :
    (i < j /\ out[i][1] = out[j][1] /\ out[i][2] # 0 /\ out[j][2] # 0 /\ out[i][2] \div 100 = out[j][2] \div 100) => out[i][2] < out[j][2]
\* the counter lags the abstract length by the operations between link and increment / head CAS and decrement
LengthLag == length = Len(absQ) - Cardinality({p \in Procs : pc[p] \in {"E_CasSwing", "E_IncLen"}})
                                 + Cardinality({p \in Procs : pc[p] = "D_DecLen"})
Quiescent == \A p \in Procs : pc[p] = "idle"
QuiescentLength == Quiescent => length = Len(absQ)
AllDone == \A p \in Procs : pc[p] = "idle" /\ k[p] = (IF p \in Enqueuers THEN NEnq ELSE NDeq)
\* lock-freedom shows up as termination of the finite scripts under weak fairness
Terminates == <>[]AllDone
=============================================================================
