INIT TInit
NEXT TNext
CONSTANTS
  MaxLoops = 256
  Addrs = {}
  MaxAccepts = 1000000000
INVARIANTS InRange RRFair HashFunctional
POSTCONDITION Accepted
CHECK_DEADLOCK FALSE
