package gfd

import (
	"encoding/json"
	"fmt"
	"math"
	"os"
	"testing"

	"github.com/panjf2000/gnet/v2/internal/vsup"
)

// C20: packing (fd, loop, row, column) into a GFD and unpacking returns the same four values
// for the field-boundary vectors of specs/Tables.tla; UpdateIndexes changes row/column only.
func TestVerifGFDTable(t *testing.T) {
	raw, err := os.ReadFile(os.Getenv("VERIF_TABLES"))
	if err != nil {
		t.Fatal(err)
	}
	var tb struct {
		GFD []struct{ Fd, Loop, Row, Col int } `json:"gfd"`
	}
	if err := json.Unmarshal(raw, &tb); err != nil {
		t.Fatal(err)
	}
	rep := vsup.NewReport("gfd-table")
	fds := []int{1 << 32, 1<<40 + 7, math.MaxInt64 - 1, math.MaxInt64}
	check := func(fd, loop, row, col int) {
		rep.Eval(fmt.Sprint(fd, loop, row, col))
		g := NewGFD(fd, loop, row, col)
		if g.Fd() != fd || g.EventLoopIndex() != loop || g.ConnMatrixRow() != row || g.ConnMatrixColumn() != col {
			rep.Violation("gfd/roundtrip", fmt.Sprintf("NewGFD(%d,%d,%d,%d) unpacks to (%d,%d,%d,%d)", fd, loop, row, col, g.Fd(), g.EventLoopIndex(), g.ConnMatrixRow(), g.ConnMatrixColumn()), nil)
		}
		seq := g.Sequence()
		r2, c2 := (row+77)%256, (col+12345)%65536
		g.UpdateIndexes(r2, c2)
		if g.Fd() != fd || g.EventLoopIndex() != loop || g.ConnMatrixRow() != r2 || g.ConnMatrixColumn() != c2 || g.Sequence() != seq {
			rep.Violation("gfd/update", fmt.Sprintf("UpdateIndexes(%d,%d) on (%d,%d,%d,%d) gives (%d,%d,%d,%d)", r2, c2, fd, loop, row, col, g.Fd(), g.EventLoopIndex(), g.ConnMatrixRow(), g.ConnMatrixColumn()), nil)
		}
	}
	for _, v := range tb.GFD {
		check(v.Fd, v.Loop, v.Row, v.Col)
	}
	for _, fd := range fds {
		check(fd, 255, 255, 65535)
		check(fd, 0, 0, 0)
	}
	if err := rep.Write(); err != nil {
		t.Fatal(err)
	}
}
