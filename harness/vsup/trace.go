package vsup

import (
	"bufio"
	"encoding/json"
	"os"
	"sync"
)

// Trace is an ndjson event log (one JSON object per line) checked by a TLA+ trace specification.
type Trace struct {
	mu sync.Mutex
	f  *os.File
	w  *bufio.Writer
	N  int
}

// OpenTrace creates the trace file.
func OpenTrace(path string) (*Trace, error) {
	f, err := os.Create(path)
	if err != nil {
		return nil, err
	}
	return &Trace{f: f, w: bufio.NewWriterSize(f, 1<<16)}, nil
}

// Emit appends one event; the order of Emit calls is the order of the trace.
func (t *Trace) Emit(ev map[string]any) {
	b, err := json.Marshal(ev)
	if err != nil {
		panic(err)
	}
	t.mu.Lock()
	t.w.Write(b)
	t.w.WriteByte('\n')
	t.N++
	t.mu.Unlock()
}

func (t *Trace) Close() error {
	t.mu.Lock()
	defer t.mu.Unlock()
	if err := t.w.Flush(); err != nil {
		return err
	}
	return t.f.Close()
}
