package vsup

import (
	"bytes"
	"encoding/json"
	"os"
	"sync"
)

// Trace is an ndjson event log (one JSON object per line) checked by a TLA+ trace specification.
// Events are kept in memory and written by Close: Emit never makes a system call, so it can be
// called from an event-loop thread into which system-call faults are being injected.
type Trace struct {
	mu   sync.Mutex
	path string
	buf  bytes.Buffer
	N    int
}

// OpenTrace prepares the trace; the file is created by Close.
func OpenTrace(path string) (*Trace, error) {
	f, err := os.Create(path) // fail early if the location is not writable
	if err != nil {
		return nil, err
	}
	f.Close()
	t := &Trace{path: path}
	t.buf.Grow(1 << 22)
	return t, nil
}

// Emit appends one event; the order of Emit calls is the order of the trace.
func (t *Trace) Emit(ev map[string]any) {
	b, err := json.Marshal(ev)
	if err != nil {
		panic(err)
	}
	t.mu.Lock()
	t.buf.Write(b)
	t.buf.WriteByte('\n')
	t.N++
	t.mu.Unlock()
}

func (t *Trace) Close() error {
	t.mu.Lock()
	defer t.mu.Unlock()
	return os.WriteFile(t.path, t.buf.Bytes(), 0o644)
}
