package vsup

import "bytes"

// Fifo is the harnesses' own abstract byte queue (the property oracle): a plain deque of the
// bytes that must currently be observable, fed with position-stamped fresh bytes.
type Fifo struct {
	Data []byte
	id   int
	next int
}

func NewFifo(id int) *Fifo { return &Fifo{id: id} }

// Fresh returns n new stamped bytes (not yet queued).
func (f *Fifo) Fresh(n int) []byte {
	if n < 0 {
		n = 0
	}
	p := make([]byte, n)
	Fill(p, f.id, f.next)
	f.next += n
	return p
}

func (f *Fifo) Len() int           { return len(f.Data) }
func (f *Fifo) PushBack(p []byte)  { f.Data = append(f.Data, p...) }
func (f *Fifo) PushFront(p []byte) { f.Data = append(append([]byte{}, p...), f.Data...) }
func (f *Fifo) Drop(n int) {
	if n > len(f.Data) {
		n = len(f.Data)
	}
	f.Data = f.Data[n:]
}
func (f *Fifo) Reset() { f.Data = f.Data[:0] }

// IsPrefix reports whether p equals the first len(p) queued bytes; -1 if so, else the first differing index
// (len(f.Data) if p is longer than the queue).
func (f *Fifo) IsPrefix(p []byte) int {
	for i := range p {
		if i >= len(f.Data) {
			return i
		}
		if p[i] != f.Data[i] {
			return i
		}
	}
	return -1
}

// Equal reports whether p is exactly the queued content.
func (f *Fifo) Equal(p []byte) bool { return bytes.Equal(p, f.Data) }

// Join concatenates segments.
func Join(segs [][]byte) []byte {
	var out []byte
	for _, s := range segs {
		out = append(out, s...)
	}
	return out
}

// Kind/err decoding of scripted io.Reader / io.Writer answers <<kind, err>>.
func Answer(a any) (kind, err string) {
	s := Seq(a)
	return Str(s[0]), Str(s[1])
}

// Amount maps an answer kind to a byte count given what was offered and the scale of one model unit.
func Amount(kind string, offered, unit int) int {
	switch kind {
	case "zero":
		return 0
	case "one":
		if unit < offered {
			return unit
		}
		return offered
	case "half":
		return offered / 2
	}
	return offered
}
