package vsup

import (
	"bytes"
	"runtime"
	"strconv"
	"sync"
	"time"
)

// Goid returns the current goroutine's id (parsed from the stack header; test use only).
func Goid() int64 {
	var buf [64]byte
	n := runtime.Stack(buf[:], false)
	b := buf[:n]
	b = b[len("goroutine "):]
	i := bytes.IndexByte(b, ' ')
	id, _ := strconv.ParseInt(string(b[:i]), 10, 64)
	return id
}

// Parked describes a participant stopped at a gate.
type Parked struct {
	Proc int
	Site string
	Obj  any
	A    int
	ch   chan struct{}
}

// Sched is the gate scheduler (channel C): participant goroutines stop at every gate
// (vhook.Gate in the code under test, or Sched.Point in the harness); exactly one of them runs
// between two gates, chosen by the controller through Release.
type Sched struct {
	mu      sync.Mutex
	procs   map[int64]int // goroutine id -> participant number
	parked  map[int]*Parked
	done    map[int]bool
	live    int
	arrive  chan int // participant number that parked or finished
	Timeout time.Duration
}

func NewSched() *Sched {
	return &Sched{procs: map[int64]int{}, parked: map[int]*Parked{}, done: map[int]bool{}, arrive: make(chan int, 1024), Timeout: 5 * time.Second}
}

// Go starts participant p running f; it is parked at an initial gate ("begin") before f runs.
func (s *Sched) Go(p int, f func()) {
	s.mu.Lock()
	s.live++
	s.mu.Unlock()
	go func() {
		s.mu.Lock()
		s.procs[Goid()] = p
		s.mu.Unlock()
		s.Gate("begin", nil, 0)
		f()
		s.mu.Lock()
		s.done[p] = true
		s.live--
		delete(s.procs, Goid())
		s.mu.Unlock()
		s.arrive <- p
	}()
}

// Gate is the function to install with vhook.SetGate: goroutines that are not participants pass through.
func (s *Sched) Gate(site string, obj any, a int) {
	s.mu.Lock()
	p, ok := s.procs[Goid()]
	if !ok {
		s.mu.Unlock()
		return
	}
	pk := &Parked{Proc: p, Site: site, Obj: obj, A: a, ch: make(chan struct{})}
	s.parked[p] = pk
	s.mu.Unlock()
	s.arrive <- p
	<-pk.ch
}

// Point is a harness-level gate (e.g. before an operation starts).
func (s *Sched) Point(site string, a int) { s.Gate(site, nil, a) }

// WaitAll blocks until every started participant is parked or finished; n = number started.
// Returns false on timeout (a participant is blocked somewhere else: a real hang).
func (s *Sched) WaitAll(n int) bool {
	deadline := time.After(s.Timeout)
	for {
		s.mu.Lock()
		c := len(s.parked) + len(s.done)
		s.mu.Unlock()
		if c >= n {
			return true
		}
		select {
		case <-s.arrive:
		case <-deadline:
			return false
		}
	}
}

// At returns where participant p is parked (nil if running / finished).
func (s *Sched) At(p int) *Parked {
	s.mu.Lock()
	defer s.mu.Unlock()
	return s.parked[p]
}

// Done reports whether participant p has finished.
func (s *Sched) Done(p int) bool {
	s.mu.Lock()
	defer s.mu.Unlock()
	return s.done[p]
}

// ParkedProcs lists the parked participants in ascending order.
func (s *Sched) ParkedProcs() []int {
	s.mu.Lock()
	defer s.mu.Unlock()
	var out []int
	for p := range s.parked {
		out = append(out, p)
	}
	for i := 1; i < len(out); i++ {
		for j := i; j > 0 && out[j] < out[j-1]; j-- {
			out[j], out[j-1] = out[j-1], out[j]
		}
	}
	return out
}

// Release lets participant p run until its next gate or its end; returns false on timeout.
func (s *Sched) Release(p int) bool {
	s.mu.Lock()
	pk := s.parked[p]
	delete(s.parked, p)
	s.mu.Unlock()
	if pk == nil {
		return false
	}
	// drain stale arrivals
	for {
		select {
		case <-s.arrive:
			continue
		default:
		}
		break
	}
	close(pk.ch)
	// wait until p is parked at a new gate or has finished.  The decision is taken on the scheduler's state, not on
	// the arrival messages: a participant announces its arrival after it has registered as parked, so the message of
	// its previous stop may still be on its way when the controller, which saw the registration, releases it again
	deadline := time.After(s.Timeout)
	for {
		s.mu.Lock()
		np, dn := s.parked[p], s.done[p]
		s.mu.Unlock()
		if (np != nil && np != pk) || dn {
			return true
		}
		select {
		case <-s.arrive:
		case <-time.After(2 * time.Millisecond):
		case <-deadline:
			return false
		}
	}
}

// ReleaseNoWait lets participant p run without waiting for it to park again (it may block in the kernel).
func (s *Sched) ReleaseNoWait(p int) {
	s.mu.Lock()
	pk := s.parked[p]
	delete(s.parked, p)
	s.mu.Unlock()
	if pk != nil {
		close(pk.ch)
	}
}

// WaitProc waits until p is parked again or finished, up to d; returns true if it did.
func (s *Sched) WaitProc(p int, d time.Duration) bool {
	deadline := time.After(d)
	for {
		s.mu.Lock()
		_, pk := s.parked[p]
		dn := s.done[p]
		s.mu.Unlock()
		if pk || dn {
			return true
		}
		select {
		case <-s.arrive:
		case <-deadline:
			return false
		case <-time.After(time.Millisecond):
		}
	}
}
