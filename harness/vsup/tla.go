// Package vsup is the shared support library of the verification harnesses.
// It is never committed to panjf2000/gnet: vcheck overlays it at
// <repo>/internal/vsup at build time (go test -overlay).
package vsup

import (
	"fmt"
	"sort"
	"strconv"
	"strings"
)

// Parse parses the textual form of a TLA+ value as printed by TLC:
// integers, strings, booleans, <<sequences>>, {sets}, [records |-> ..],
// (functions :> ..  @@ ..) and model values (returned as strings).
// Sequences and sets become []any, records and functions map[string]any
// (function keys are rendered with Render).
func Parse(s string) (v any, err error) {
	defer func() {
		if r := recover(); r != nil {
			err = fmt.Errorf("tla parse %q: %v", s, r)
		}
	}()
	p := &parser{s: s}
	v = p.value()
	p.ws()
	if p.i != len(p.s) {
		panic(fmt.Sprintf("trailing input at %d", p.i))
	}
	return v, nil
}

// MustParse is Parse that panics.
func MustParse(s string) any {
	v, err := Parse(s)
	if err != nil {
		panic(err)
	}
	return v
}

type parser struct {
	s string
	i int
}

func (p *parser) ws() {
	for p.i < len(p.s) && (p.s[p.i] == ' ' || p.s[p.i] == '\n' || p.s[p.i] == '\t' || p.s[p.i] == '\r') {
		p.i++
	}
}

func (p *parser) has(t string) bool {
	p.ws()
	return strings.HasPrefix(p.s[p.i:], t)
}

func (p *parser) eat(t string) {
	if !p.has(t) {
		panic(fmt.Sprintf("expected %q at %d", t, p.i))
	}
	p.i += len(t)
}

func (p *parser) list(closer string) []any {
	out := []any{}
	if p.has(closer) {
		p.eat(closer)
		return out
	}
	for {
		out = append(out, p.value())
		if p.has(",") {
			p.eat(",")
			continue
		}
		p.eat(closer)
		return out
	}
}

func (p *parser) value() any {
	p.ws()
	if p.i >= len(p.s) {
		panic("unexpected end")
	}
	c := p.s[p.i]
	switch {
	case p.has("<<"):
		p.eat("<<")
		return p.list(">>")
	case c == '{':
		p.eat("{")
		return p.list("}")
	case c == '[':
		p.eat("[")
		m := map[string]any{}
		if p.has("]") {
			p.eat("]")
			return m
		}
		for {
			p.ws()
			j := p.i
			for p.i < len(p.s) && (isIdent(p.s[p.i])) {
				p.i++
			}
			k := p.s[j:p.i]
			p.eat("|->")
			m[k] = p.value()
			if p.has(",") {
				p.eat(",")
				continue
			}
			p.eat("]")
			return m
		}
	case c == '(':
		p.eat("(")
		m := map[string]any{}
		for {
			k := p.value()
			p.eat(":>")
			m[Render(k)] = p.value()
			if p.has("@@") {
				p.eat("@@")
				continue
			}
			p.eat(")")
			return m
		}
	case c == '"':
		p.i++
		var b strings.Builder
		for p.s[p.i] != '"' {
			if p.s[p.i] == '\\' {
				p.i++
				switch p.s[p.i] {
				case 'n':
					b.WriteByte('\n')
				case 't':
					b.WriteByte('\t')
				default:
					b.WriteByte(p.s[p.i])
				}
			} else {
				b.WriteByte(p.s[p.i])
			}
			p.i++
		}
		p.i++
		return b.String()
	case c == '-' || (c >= '0' && c <= '9'):
		j := p.i
		p.i++
		for p.i < len(p.s) && p.s[p.i] >= '0' && p.s[p.i] <= '9' {
			p.i++
		}
		n, err := strconv.Atoi(p.s[j:p.i])
		if err != nil {
			panic(err)
		}
		return n
	default:
		j := p.i
		for p.i < len(p.s) && isIdent(p.s[p.i]) {
			p.i++
		}
		if j == p.i {
			panic(fmt.Sprintf("unexpected %q at %d", c, p.i))
		}
		id := p.s[j:p.i]
		switch id {
		case "TRUE":
			return true
		case "FALSE":
			return false
		}
		return id
	}
}

func isIdent(c byte) bool {
	return c == '_' || (c >= 'a' && c <= 'z') || (c >= 'A' && c <= 'Z') || (c >= '0' && c <= '9')
}

// Render gives a canonical textual form of a parsed value (used for keys).
func Render(v any) string {
	switch x := v.(type) {
	case int:
		return strconv.Itoa(x)
	case string:
		return x
	case bool:
		if x {
			return "TRUE"
		}
		return "FALSE"
	case []any:
		parts := make([]string, len(x))
		for i, e := range x {
			parts[i] = Render(e)
		}
		return "<<" + strings.Join(parts, ",") + ">>"
	case map[string]any:
		keys := make([]string, 0, len(x))
		for k := range x {
			keys = append(keys, k)
		}
		sort.Strings(keys)
		parts := make([]string, len(keys))
		for i, k := range keys {
			parts[i] = k + ":" + Render(x[k])
		}
		return "[" + strings.Join(parts, ",") + "]"
	}
	return fmt.Sprint(v)
}

// Accessors that panic with a readable message (harness bugs, not verdicts).

func Int(v any) int {
	n, ok := v.(int)
	if !ok {
		panic(fmt.Sprintf("vsup.Int: %T %v", v, v))
	}
	return n
}

func Str(v any) string {
	s, ok := v.(string)
	if !ok {
		panic(fmt.Sprintf("vsup.Str: %T %v", v, v))
	}
	return s
}

func Bool(v any) bool {
	b, ok := v.(bool)
	if !ok {
		panic(fmt.Sprintf("vsup.Bool: %T %v", v, v))
	}
	return b
}

func Seq(v any) []any {
	switch x := v.(type) {
	case []any:
		return x
	case map[string]any: // a function with domain 1..n printed as a function
		out := make([]any, len(x))
		for k, e := range x {
			i, err := strconv.Atoi(k)
			if err != nil || i < 1 || i > len(x) {
				panic(fmt.Sprintf("vsup.Seq: not a sequence %v", v))
			}
			out[i-1] = e
		}
		return out
	}
	panic(fmt.Sprintf("vsup.Seq: %T %v", v, v))
}

func Rec(v any) map[string]any {
	m, ok := v.(map[string]any)
	if !ok {
		panic(fmt.Sprintf("vsup.Rec: %T %v", v, v))
	}
	return m
}

func Ints(v any) []int {
	s := Seq(v)
	out := make([]int, len(s))
	for i, e := range s {
		out[i] = Int(e)
	}
	return out
}
