package vsup

import (
	"encoding/json"
	"fmt"
	"os"
	"runtime"
	"sort"
	"strconv"
	"sync"
	"sync/atomic"
)

// Finding is one disagreement between the real code and the specification.
// Kind "violation": the disagreement is in a quantity the property talks about.
// Kind "nonconformance": mechanism-level difference only (reported, never an alarm).
type Finding struct {
	Kind   string   `json:"kind"`
	Sig    string   `json:"sig"`
	Detail string   `json:"detail"`
	Path   []string `json:"path,omitempty"`
	Count  int      `json:"count"`
}

// Report accumulates what a harness run covered; written as JSON to $VERIF_OUT.
type Report struct {
	mu          sync.Mutex
	Name        string
	Evaluations int64
	distinct    map[string]struct{}
	findings    map[string]*Finding
	Samples     []any
	Extra       map[string]any
}

func NewReport(name string) *Report {
	return &Report{Name: name, distinct: map[string]struct{}{}, findings: map[string]*Finding{}, Extra: map[string]any{}}
}

// Eval counts one evaluated case; key identifies it for the distinct count ("" = trivial, not counted as distinct).
func (r *Report) Eval(key string) {
	atomic.AddInt64(&r.Evaluations, 1)
	if key == "" {
		return
	}
	r.mu.Lock()
	r.distinct[key] = struct{}{}
	r.mu.Unlock()
}

func (r *Report) add(kind, sig, detail string, path []string) {
	r.mu.Lock()
	defer r.mu.Unlock()
	k := kind + "|" + sig
	if f, ok := r.findings[k]; ok {
		f.Count++
		if len(path) > 0 && (len(f.Path) == 0 || len(path) < len(f.Path)) {
			f.Path, f.Detail = path, detail
		}
		return
	}
	r.findings[k] = &Finding{Kind: kind, Sig: sig, Detail: detail, Path: path, Count: 1}
}

func (r *Report) Violation(sig, detail string, path []string) { r.add("violation", sig, detail, path) }
func (r *Report) Nonconformance(sig, detail string, path []string) {
	r.add("nonconformance", sig, detail, path)
}

// ViolationCount is the number of violations reported so far (a harness whose every case fails slowly cuts its run short).
func (r *Report) ViolationCount() int {
	r.mu.Lock()
	defer r.mu.Unlock()
	n := 0
	for _, f := range r.findings {
		if f.Kind == "violation" {
			n += f.Count
		}
	}
	return n
}

func (r *Report) Sample(v any) {
	r.mu.Lock()
	if len(r.Samples) < 6 {
		r.Samples = append(r.Samples, v)
	}
	r.mu.Unlock()
}

func (r *Report) Set(k string, v any) {
	r.mu.Lock()
	r.Extra[k] = v
	r.mu.Unlock()
}

func (r *Report) AddInt(k string, d int) {
	r.mu.Lock()
	n, _ := r.Extra[k].(int)
	r.Extra[k] = n + d
	r.mu.Unlock()
}

// Write stores the report; the harness test itself always passes (verdicts are vcheck's business).
func (r *Report) Write() error {
	r.mu.Lock()
	defer r.mu.Unlock()
	fs := make([]*Finding, 0, len(r.findings))
	for _, f := range r.findings {
		fs = append(fs, f)
	}
	sort.Slice(fs, func(i, j int) bool { return fs[i].Sig < fs[j].Sig })
	out := map[string]any{
		"name":                r.Name,
		"evaluations":         r.Evaluations,
		"distinct_nontrivial": len(r.distinct),
		"findings":            fs,
		"samples":             r.Samples,
		"extra":               r.Extra,
	}
	b, err := json.MarshalIndent(out, "", " ")
	if err != nil {
		return err
	}
	p := os.Getenv("VERIF_OUT")
	if p == "" {
		fmt.Println(string(b))
		return nil
	}
	return os.WriteFile(p, b, 0o644)
}

// Seed returns $VERIF_SEED (default 1).
func Seed() uint64 {
	n, err := strconv.ParseUint(os.Getenv("VERIF_SEED"), 10, 64)
	if err != nil {
		return 1
	}
	return n
}

// Thorough reports whether $VERIF_TIER is "thorough".
func Thorough() bool { return os.Getenv("VERIF_TIER") == "thorough" }

// EnvInt reads an integer environment variable with a default.
func EnvInt(name string, def int) int {
	n, err := strconv.Atoi(os.Getenv(name))
	if err != nil {
		return def
	}
	return n
}

// Rng is splitmix64.
type Rng struct{ s uint64 }

func NewRng(seed uint64) *Rng { return &Rng{s: seed*0x9E3779B97F4A7C15 + 0x1234567} }
func (r *Rng) Uint64() uint64 {
	r.s += 0x9E3779B97F4A7C15
	z := r.s
	z = (z ^ (z >> 30)) * 0xBF58476D1CE4E5B9
	z = (z ^ (z >> 27)) * 0x94D049BB133111EB
	return z ^ (z >> 31)
}
func (r *Rng) Intn(n int) int {
	if n <= 0 {
		return 0
	}
	return int(r.Uint64() % uint64(n))
}
func (r *Rng) Pick(xs []int) int { return xs[r.Intn(len(xs))] }

// Stamp is the position-stamped byte stream generator: byte i of stream id.
func Stamp(id int, i int) byte {
	x := uint64(id)*0x9E3779B97F4A7C15 + uint64(i)*0xD1B54A32D192ED03
	x ^= x >> 29
	x *= 0xBF58476D1CE4E5B9
	x ^= x >> 32
	return byte(x)
}

// Fill fills p with stream id starting at position off.
func Fill(p []byte, id, off int) {
	for i := range p {
		p[i] = Stamp(id, off+i)
	}
}

// Match checks p against stream id at off; returns index of first mismatch or -1.
func Match(p []byte, id, off int) int {
	for i := range p {
		if p[i] != Stamp(id, off+i) {
			return i
		}
	}
	return -1
}

// CoverReplay replays, for every edge of the graph (or a seeded sample of at most max edges),
// the BFS path to its source followed by the edge itself. run is called once per path with
// the initial state and the list of edge indices; it must build a fresh real object.
func CoverReplay(g *Graph, max int, seed uint64, run func(path []int)) (replayed int) {
	idx := make([]int, 0, len(g.Edges))
	for i, e := range g.Edges {
		if g.Depth[e.From] >= 0 {
			idx = append(idx, i)
		}
	}
	if max > 0 && len(idx) > max {
		rng := NewRng(seed)
		for i := len(idx) - 1; i > 0; i-- {
			j := rng.Intn(i + 1)
			idx[i], idx[j] = idx[j], idx[i]
		}
		idx = idx[:max]
	}
	// parse all nodes up front (not thread-safe lazily)
	for n := range g.Raw {
		if g.Depth[n] >= 0 {
			g.Node(n)
		}
	}
	var wg sync.WaitGroup
	ch := make(chan int, 1024)
	nw := runtime.GOMAXPROCS(0)
	for w := 0; w < nw; w++ {
		wg.Add(1)
		go func() {
			defer wg.Done()
			for ei := range ch {
				path := append(g.PathTo(g.Edges[ei].From), ei)
				run(path)
			}
		}()
	}
	for _, ei := range idx {
		ch <- ei
	}
	close(ch)
	wg.Wait()
	return len(idx)
}

// PathLabels renders a path for reports.
func (g *Graph) PathLabels(path []int) []string {
	out := make([]string, len(path))
	for i, ei := range path {
		out[i] = g.EdgeLabel(ei)
	}
	return out
}
