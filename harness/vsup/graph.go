package vsup

import (
	"bufio"
	"fmt"
	"os"
	"regexp"
	"strings"
)

// State is a TLC state: variable name -> parsed value.
type State map[string]any

// Edge is one labelled transition of the TLC state graph.
type Edge struct {
	From, To int // node indices
	Action   string
	Args     []any
}

// Graph is the state graph dumped by `tlc -dump dot,actionlabels`.
type Graph struct {
	Nodes []State
	Raw   []string // unparsed labels (parsed lazily)
	Init  []int
	Edges []Edge
	Out   [][]int // node -> indices into Edges
	// BFS tree
	Parent []int // edge index leading to node in the BFS tree, -1 for roots / unreachable
	Depth  []int
}

var varRe = regexp.MustCompile(`(?m)^(?:/\\ )?([A-Za-z_][A-Za-z0-9_]*) = `)

func unescape(s string) string {
	var b strings.Builder
	for i := 0; i < len(s); i++ {
		if s[i] == '\\' && i+1 < len(s) {
			i++
			switch s[i] {
			case 'n':
				b.WriteByte('\n')
			default:
				b.WriteByte(s[i])
			}
			continue
		}
		b.WriteByte(s[i])
	}
	return b.String()
}

// ParseState parses the text of a state as TLC prints it.
func ParseState(txt string) (State, error) {
	st := State{}
	locs := varRe.FindAllStringSubmatchIndex(txt, -1)
	for k, l := range locs {
		name := txt[l[2]:l[3]]
		end := len(txt)
		if k+1 < len(locs) {
			end = locs[k+1][0]
		}
		v, err := Parse(strings.TrimSpace(txt[l[1]:end]))
		if err != nil {
			return nil, err
		}
		st[name] = v
	}
	return st, nil
}

// quoted reads a dot quoted string starting at s[i]=='"'; returns content (still escaped) and index after closing quote.
func quoted(s string, i int) (string, int) {
	j := i + 1
	for j < len(s) {
		if s[j] == '\\' {
			j += 2
			continue
		}
		if s[j] == '"' {
			break
		}
		j++
	}
	return s[i+1 : j], j + 1
}

// LoadGraph reads a dot file written by TLC.
func LoadGraph(path string) (*Graph, error) {
	f, err := os.Open(path)
	if err != nil {
		return nil, err
	}
	defer f.Close()
	g := &Graph{}
	ids := map[string]int{}
	id := func(s string) int {
		if n, ok := ids[s]; ok {
			return n
		}
		n := len(g.Raw)
		ids[s] = n
		g.Raw = append(g.Raw, "")
		return n
	}
	sc := bufio.NewScanner(f)
	sc.Buffer(make([]byte, 1<<20), 1<<28)
	for sc.Scan() {
		line := sc.Text()
		if len(line) == 0 || !(line[0] == '-' || (line[0] >= '0' && line[0] <= '9')) {
			continue
		}
		sp := strings.IndexByte(line, ' ')
		if sp < 0 {
			continue
		}
		a := line[:sp]
		rest := line[sp+1:]
		if strings.HasPrefix(rest, "-> ") {
			rest = rest[3:]
			sp2 := strings.IndexByte(rest, ' ')
			b := rest[:sp2]
			li := strings.Index(rest, `label="`)
			lab, _ := quoted(rest, li+6)
			lab = unescape(lab)
			e := Edge{From: id(a), To: id(b)}
			if p := strings.IndexByte(lab, '('); p >= 0 && strings.HasSuffix(lab, ")") {
				e.Action = lab[:p]
				args, err := Parse("<<" + lab[p+1:len(lab)-1] + ">>")
				if err != nil {
					return nil, err
				}
				e.Args = args.([]any)
			} else {
				e.Action = lab
			}
			g.Edges = append(g.Edges, e)
			continue
		}
		li := strings.Index(rest, `label="`)
		if li < 0 {
			continue
		}
		lab, after := quoted(rest, li+6)
		n := id(a)
		g.Raw[n] = lab
		if strings.Contains(rest[after:], "filled") {
			g.Init = append(g.Init, n)
		}
	}
	if err := sc.Err(); err != nil {
		return nil, err
	}
	g.Nodes = make([]State, len(g.Raw))
	g.Out = make([][]int, len(g.Raw))
	for i, e := range g.Edges {
		g.Out[e.From] = append(g.Out[e.From], i)
	}
	// BFS
	g.Parent = make([]int, len(g.Raw))
	g.Depth = make([]int, len(g.Raw))
	for i := range g.Parent {
		g.Parent[i] = -1
		g.Depth[i] = -1
	}
	q := append([]int{}, g.Init...)
	for _, n := range q {
		g.Depth[n] = 0
	}
	for len(q) > 0 {
		n := q[0]
		q = q[1:]
		for _, ei := range g.Out[n] {
			t := g.Edges[ei].To
			if g.Depth[t] < 0 {
				g.Depth[t] = g.Depth[n] + 1
				g.Parent[t] = ei
				q = append(q, t)
			}
		}
	}
	return g, nil
}

// Node returns the parsed state of node n.
func (g *Graph) Node(n int) State {
	if g.Nodes[n] == nil {
		st, err := ParseState(unescape(g.Raw[n]))
		if err != nil {
			panic(fmt.Sprintf("state %d: %v", n, err))
		}
		g.Nodes[n] = st
	}
	return g.Nodes[n]
}

// PathTo returns the BFS-tree path (edge indices) from an initial state to node n.
func (g *Graph) PathTo(n int) []int {
	var rev []int
	for g.Parent[n] >= 0 {
		rev = append(rev, g.Parent[n])
		n = g.Edges[g.Parent[n]].From
	}
	for i, j := 0, len(rev)-1; i < j; i, j = i+1, j-1 {
		rev[i], rev[j] = rev[j], rev[i]
	}
	return rev
}

// Root returns the initial state the BFS path to n starts from.
func (g *Graph) Root(n int) int {
	for g.Parent[n] >= 0 {
		n = g.Edges[g.Parent[n]].From
	}
	return n
}

// EdgeLabel renders an edge as Action(args).
func (g *Graph) EdgeLabel(ei int) string {
	e := g.Edges[ei]
	parts := make([]string, len(e.Args))
	for i, a := range e.Args {
		parts[i] = Render(a)
	}
	return e.Action + "(" + strings.Join(parts, ",") + ")"
}
