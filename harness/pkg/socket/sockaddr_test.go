package socket

// C17(a): conversion vectors evaluated by TLC from specs/Addrs.tla: net.Addr -> unix.Sockaddr -> net.Addr
// must be the identity on address, port and zone; invalid IP lengths and unsupported networks give nil.

import (
	"encoding/json"
	"fmt"
	"net"
	"os"
	"testing"

	"golang.org/x/sys/unix"

	"github.com/panjf2000/gnet/v2/internal/vsup"
)

type fakeAddr struct{}

func (fakeAddr) Network() string { return "fake" }
func (fakeAddr) String() string  { return "fake" }

func TestVerifSockaddrTable(t *testing.T) {
	raw, err := os.ReadFile(os.Getenv("VERIF_TABLES"))
	if err != nil {
		t.Fatal(err)
	}
	var tb struct {
		Socks []struct {
			Kind   string `json:"kind"`
			IP     []int  `json:"ip"`
			Port   int    `json:"port"`
			Zone   string `json:"zone"`
			Net    string `json:"net"`
			Name   string `json:"name"`
			Expect string `json:"expect"`
		} `json:"socks"`
	}
	if err := json.Unmarshal(raw, &tb); err != nil {
		t.Fatal(err)
	}
	rep := vsup.NewReport("sockaddr-table")
	lo := "lo"
	if ifi, err := net.InterfaceByIndex(1); err == nil {
		lo = ifi.Name
	}
	// every converted address is kept and looked at again after all the other conversions: it must still be
	// the same address (the conversions share pooled scratch memory)
	type keptAddr struct {
		back net.Addr
		ip   net.IP
		port int
		zone string
		name string
		key  string
	}
	var kept []keptAddr
	same := func(k keptAddr) bool {
		switch b := k.back.(type) {
		case *net.TCPAddr:
			return b.IP.Equal(k.ip) && b.Port == k.port && b.Zone == k.zone
		case *net.UDPAddr:
			return b.IP.Equal(k.ip) && b.Port == k.port && b.Zone == k.zone
		case *net.UnixAddr:
			return b.Name == k.name
		}
		return false
	}
	for _, v := range tb.Socks {
		key := fmt.Sprint(v)
		rep.Eval(key)
		func() {
			defer func() {
				if r := recover(); r != nil {
					rep.Violation("sockaddr/panic", fmt.Sprintf("%s: panic %v", key, r), nil)
				}
			}()
			ip := make(net.IP, len(v.IP))
			for i, b := range v.IP {
				ip[i] = byte(b)
			}
			zone := v.Zone
			if zone == "@lo" {
				zone = lo
			} else if zone != "" {
				var idx int
				fmt.Sscan(zone, &idx)
				if _, err := net.InterfaceByIndex(idx); err == nil {
					return // this index happens to name an interface on this host; the vector assumes it does not
				}
			}
			var in net.Addr
			switch v.Kind {
			case "tcp":
				in = &net.TCPAddr{IP: ip, Port: v.Port, Zone: zone}
			case "udp":
				in = &net.UDPAddr{IP: ip, Port: v.Port, Zone: zone}
			case "ip":
				in = &net.IPAddr{IP: ip, Zone: zone}
			case "unix":
				in = &net.UnixAddr{Name: v.Name, Net: v.Net}
			default:
				in = fakeAddr{}
			}
			sa := NetAddrToSockaddr(in)
			if v.Expect == "nil" {
				if sa != nil {
					rep.Violation("sockaddr/notnil", fmt.Sprintf("NetAddrToSockaddr(%v) = %#v, want nil", in, sa), nil)
				}
				return
			}
			if sa == nil {
				rep.Violation("sockaddr/nil", fmt.Sprintf("NetAddrToSockaddr(%v) = nil", in), nil)
				return
			}
			var back net.Addr
			if v.Kind == "udp" {
				back = SockaddrToUDPAddr(sa)
			} else {
				back = SockaddrToTCPOrUnixAddr(sa)
			}
			ok := false
			switch b := back.(type) {
			case *net.TCPAddr:
				ok = b.IP.Equal(ip) && b.Port == v.Port && b.Zone == zone
			case *net.UDPAddr:
				ok = b.IP.Equal(ip) && b.Port == v.Port && b.Zone == zone
			case *net.UnixAddr:
				ok = b.Name == v.Name
			}
			if ok {
				// (the expectation is held in memory of its own: strings.Clone-like copies)
				kept = append(kept, keptAddr{back: back, ip: append(net.IP(nil), ip...), port: v.Port, zone: string(append([]byte(nil), zone...)), name: string(append([]byte(nil), v.Name...)), key: key})
			}
			if !ok {
				rep.Violation("sockaddr/roundtrip", fmt.Sprintf("%v (zone %q) -> %#v -> %v (%q)", in, zone, sa, back, fmt.Sprintf("%#v", back)), nil)
			}
			// the kernel form carries port and zone index
			if s6, is6 := sa.(*unix.SockaddrInet6); is6 && zone == lo && s6.ZoneId != 1 {
				rep.Violation("sockaddr/zoneid", fmt.Sprintf("%v: ZoneId %d, want 1", in, s6.ZoneId), nil)
			}
		}()
	}
	// every interface of this (network namespace's) host as a zone name: the kernel form carries its index, and the
	// way back gives the name again
	if ifs, err := net.Interfaces(); err == nil {
		for _, ifi := range ifs {
			for _, kind := range []string{"tcp", "udp"} {
				ip := net.ParseIP("fe80::2")
				var in net.Addr = &net.TCPAddr{IP: ip, Port: 4242, Zone: ifi.Name}
				if kind == "udp" {
					in = &net.UDPAddr{IP: ip, Port: 4242, Zone: ifi.Name}
				}
				rep.Eval("zone-" + kind + "-" + ifi.Name)
				sa := NetAddrToSockaddr(in)
				s6, ok := sa.(*unix.SockaddrInet6)
				if !ok || int(s6.ZoneId) != ifi.Index {
					rep.Violation("sockaddr/zoneid", fmt.Sprintf("%v: kernel form %#v, want zone id %d (interface %s)", in, sa, ifi.Index, ifi.Name), nil)
					continue
				}
				var back net.Addr
				if kind == "udp" {
					back = SockaddrToUDPAddr(sa)
				} else {
					back = SockaddrToTCPOrUnixAddr(sa)
				}
				if back == nil || back.String() != in.String() {
					rep.Violation("sockaddr/roundtrip", fmt.Sprintf("%v -> %#v -> %v", in, sa, back), nil)
				}
			}
		}
		rep.Set("interfaces_as_zones", len(ifs))
	}
	for _, k := range kept {
		if !same(k) {
			rep.Violation("sockaddr/unstable", fmt.Sprintf("%s: the converted address changed after later conversions: now %v (%q)", k.key, k.back, fmt.Sprintf("%#v", k.back)), nil)
			break
		}
	}
	rep.Set("kept_and_rechecked", len(kept))
	if len(tb.Socks) > 0 {
		rep.Sample(tb.Socks[0])
	}
	if err := rep.Write(); err != nil {
		t.Fatal(err)
	}
}
