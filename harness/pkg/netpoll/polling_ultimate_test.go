//go:build poll_opt

package netpoll

func runPolling(p *Poller) error { return p.Polling() }
func efdOf(p *Poller) int        { return p.epa.FD }
