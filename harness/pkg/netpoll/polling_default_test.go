//go:build !poll_opt

package netpoll

func runPolling(p *Poller) error {
	return p.Polling(func(fd int, ev IOEvent, flags IOFlags) error { return nil })
}
func efdOf(p *Poller) int { return p.efd }
