package netpoll

// Channel C for C03: the real Poller (Trigger / Polling of the current epoll variant) under the gate
// scheduler.  Every labelled edge of the TLC state graph of specs/Poller.tla is executed as a schedule;
// after every step the real wake-up flag, queue contents, counters, executed tasks and the kernel's
// readiness of the epoll descriptor are compared with the model state.  When a schedule has run to
// its end (all producers returned, loop parked in front of epoll_wait(-1), kernel not ready) every
// accepted task must have run exactly once: otherwise the wake-up was lost (state witness).

import (
	"encoding/binary"
	"fmt"
	"os"
	"reflect"
	"sync/atomic"
	"testing"
	"time"
	"unsafe"

	"golang.org/x/sys/unix"

	"github.com/panjf2000/gnet/v2/internal/vhook"
	"github.com/panjf2000/gnet/v2/internal/vsup"
	errorx "github.com/panjf2000/gnet/v2/pkg/errors"
	"github.com/panjf2000/gnet/v2/pkg/queue"
)

type prun struct {
	p      *Poller
	s      *vsup.Sched
	execs  [][2]int
	acc    map[[2]int]bool // tasks whose Trigger returned nil
	accMu  chan struct{}
	script map[int][]string
	polled chan error
}

// queueFields reads the unexported head pointer and length of a lockFreeQueue through reflection/unsafe.
type qview struct {
	head   unsafe.Pointer
	tail   unsafe.Pointer
	length int32
}
type nview struct {
	value *queue.Task
	next  unsafe.Pointer
}

func view(q queue.AsyncTaskQueue) *qview {
	return (*qview)(reflect.ValueOf(q).UnsafePointer())
}

func contents(q queue.AsyncTaskQueue) (ids [][2]int, length int) {
	v := view(q)
	n := (*nview)(atomic.LoadPointer(&v.head))
	for {
		nx := (*nview)(atomic.LoadPointer(&n.next))
		if nx == nil {
			break
		}
		if id, ok := nx.value.Param.([2]int); ok {
			ids = append(ids, id)
		} else {
			ids = append(ids, [2]int{-1, -1})
		}
		n = nx
	}
	return ids, int(atomic.LoadInt32(&v.length))
}

func (r *prun) ready() bool {
	fds := []unix.PollFd{{Fd: int32(r.p.fd), Events: unix.POLLIN}}
	n, _ := unix.Poll(fds, 0)
	return n > 0
}

func (r *prun) kind(proc int, at *vsup.Parked) string {
	if at == nil {
		return "done"
	}
	switch at.Site {
	case "start":
		return "ST"
	case "begin":
		return "begin"
	case "q.len":
		if proc == 0 {
			if at.Obj == any(r.p.urgentAsyncTaskQueue) {
				return "KU"
			}
			return "KL"
		}
		return "LK"
	case "q.inc":
		return "INC"
	case "q.dec":
		if at.Obj == any(r.p.urgentAsyncTaskQueue) {
			return "DU"
		}
		return "DL"
	case "p.cas":
		return "CAS"
	case "p.efdwrite":
		return "WR"
	case "p.wait":
		return "W"
	case "p.store0":
		return "S0"
	case "p.recheck":
		return "RC"
	}
	return "" // queue-internal micro step
}

// advance releases proc and lets it run through queue-internal gates to its next visible gate (or its end).
func (r *prun) advance(proc int) bool {
	if !r.s.Release(proc) {
		return false
	}
	for {
		at := r.s.At(proc)
		if at == nil || r.kind(proc, at) != "" {
			return true
		}
		if !r.s.Release(proc) {
			return false
		}
	}
}

func (r *prun) producer(id int) func() {
	return func() {
		for i, pr := range r.script[id] {
			r.s.Point("start", 0)
			prio := queue.HighPriority
			if pr[0] == 'L' {
				prio = queue.LowPriority
			}
			stops := len(pr) == 2 // "HS" / "LS": the task answers ErrEngineShutdown
			tk := [2]int{id, i + 1}
			err := r.p.Trigger(prio, func(a any) error {
				r.execs = append(r.execs, a.([2]int))
				if stops {
					return errorx.ErrEngineShutdown
				}
				return nil
			}, tk)
			if err == nil {
				<-r.accMu
				r.acc[tk] = true
				r.accMu <- struct{}{}
			}
		}
	}
}

func newPrun(script map[int][]string, thresh int) (*prun, error) {
	p, err := OpenPoller()
	if err != nil {
		return nil, err
	}
	p.highPriorityEventsThreshold = int32(thresh)
	if vsup.EnvInt("VERIF_SAT", 0) == 1 {
		// the eventfd's counter at its maximum (the state after 2^64-2 unread wake-ups): the next write fails with
		// EAGAIN.  The readiness edge this write raises is consumed here, so that the run starts with none pending
		var b [8]byte
		binary.LittleEndian.PutUint64(b[:], 0xfffffffffffffffe)
		if _, err := unix.Write(efdOf(p), b[:]); err != nil {
			return nil, err
		}
		evs := make([]unix.EpollEvent, 4)
		if n, err := unix.EpollWait(p.fd, evs, 0); err != nil || n != 1 {
			return nil, fmt.Errorf("saturating the eventfd: epoll_wait returned %d, %v", n, err)
		}
	}
	r := &prun{p: p, s: vsup.NewSched(), acc: map[[2]int]bool{}, accMu: make(chan struct{}, 1), script: script, polled: make(chan error, 1)}
	r.accMu <- struct{}{}
	return r, nil
}

func (r *prun) start() bool {
	vhook.SetGate(r.s.Gate)
	n := 1
	r.s.Go(0, func() { r.polled <- runPolling(r.p) })
	for id := range r.script {
		r.s.Go(id, r.producer(id))
		n++
	}
	if !r.s.WaitAll(n) {
		return false
	}
	ok := r.advance(0) // loop: from "begin" to the gate in front of epoll_wait
	for id := range r.script {
		ok = ok && r.advance(id)
	}
	return ok
}

// stop ends Polling with a shutdown task and closes the poller.
func (r *prun) stop() {
	vhook.SetGate(nil)
	for _, p := range r.s.ParkedProcs() {
		r.s.ReleaseNoWait(p)
	}
	_ = r.p.Trigger(queue.HighPriority, func(any) error { return errorx.ErrEngineShutdown }, nil)
	select {
	case <-r.polled:
	case <-time.After(time.Second):
	}
	_ = r.p.Close()
}

// enabled lists the participants that can take a step: parked producers, and the loop unless it would block.
func (r *prun) enabled() []int {
	var out []int
	for _, p := range r.s.ParkedProcs() {
		if p == 0 {
			at := r.s.At(0)
			if r.kind(0, at) == "W" && at.A < 0 && !r.ready() {
				continue // epoll_wait(-1) with nothing ready: blocked
			}
		}
		out = append(out, p)
	}
	return out
}

// finish runs the schedule to its end with seeded choices and applies the oracle.
func (r *prun) finish(rng *vsup.Rng, rep *vsup.Report, path []string) {
	for steps := 0; steps < 100000; steps++ {
		en := r.enabled()
		if len(en) == 0 {
			break
		}
		if !r.advance(en[rng.Intn(len(en))]) {
			rep.Violation("poller/hang", "a participant did not reach its next gate while running alone", path)
			return
		}
	}
	// all producers returned, loop parked in front of epoll_wait(-1), kernel says not ready
	for id := range r.script {
		if !r.s.Done(id) {
			rep.Violation("poller/hang", fmt.Sprintf("producer %d never returned from Trigger", id), path)
			return
		}
	}
	seen := map[[2]int]int{}
	stopped := false
	for _, e := range r.execs {
		seen[e]++
		stopped = stopped || len(r.script[e[0]][e[1]-1]) == 2
	}
	if stopped && !r.s.Done(0) {
		rep.Violation("poller/shutdown-lost", fmt.Sprintf("a task answered ErrEngineShutdown but Polling did not return: it went on (tasks run: %v) and is waiting for events again", r.execs), path)
	}
	if !stopped && r.s.Done(0) {
		rep.Violation("poller/polling-returned", "Polling returned although no task asked for it", path)
	}
	for tk, n := range seen {
		if n > 1 {
			rep.Violation("poller/exec-twice", fmt.Sprintf("task %v ran %d times", tk, n), path)
		}
		if !r.acc[tk] {
			rep.Violation("poller/exec-unaccepted", fmt.Sprintf("task %v ran although its Trigger did not succeed", tk), path)
		}
	}
	for tk := range r.acc {
		if seen[tk] == 0 && !stopped {
			u, _ := contents(r.p.urgentAsyncTaskQueue)
			l, _ := contents(r.p.asyncTaskQueue)
			rep.Violation("poller/lost-wakeup", fmt.Sprintf("task %v was accepted but never ran: loop parked before epoll_wait(-1), epoll descriptor not ready, wakeupCall=%d, urgent queue %v, low queue %v", tk, atomic.LoadInt32(&r.p.wakeupCall), u, l), path)
			break
		}
	}
	last := map[int]int{}
	for _, e := range r.execs {
		if r.script[e[0]][e[1]-1][0] == 'H' {
			if e[1] < last[e[0]] {
				rep.Violation("poller/high-prio-order", fmt.Sprintf("high-priority task %v ran after task %d of the same producer", e, last[e[0]]), path)
			}
			last[e[0]] = e[1]
		}
	}
}

func toScript(v any) map[int][]string {
	out := map[int][]string{}
	switch m := v.(type) {
	case map[string]any:
		for k, s := range m {
			var id int
			fmt.Sscan(k, &id)
			for _, x := range vsup.Seq(s) {
				out[id] = append(out[id], vsup.Str(x))
			}
		}
	case []any:
		for i, s := range m {
			for _, x := range vsup.Seq(s) {
				out[i+1] = append(out[i+1], vsup.Str(x))
			}
		}
	}
	return out
}

func TestVerifPollerCover(t *testing.T) {
	g, err := vsup.LoadGraph(os.Getenv("VERIF_GRAPH"))
	if err != nil {
		t.Fatal(err)
	}
	script := toScript(vsup.MustParse(os.Getenv("VERIF_SCRIPT")))
	thresh := vsup.EnvInt("VERIF_THRESH", 1)
	rep := vsup.NewReport("poller-cover")
	rng := vsup.NewRng(vsup.Seed())
	idx := make([]int, 0, len(g.Edges))
	for i, e := range g.Edges {
		if g.Depth[e.From] >= 0 {
			idx = append(idx, i)
		}
	}
	if max := vsup.EnvInt("VERIF_MAX_EDGES", 0); max > 0 && len(idx) > max {
		for i := len(idx) - 1; i > 0; i-- {
			j := rng.Intn(i + 1)
			idx[i], idx[j] = idx[j], idx[i]
		}
		idx = idx[:max]
	}
	for _, ei := range idx {
		if rep.ViolationCount() >= 40 {
			rep.Set("cut_short", "40 schedules ended in a violation: the remaining ones were not run")
			break
		}
		path := append(g.PathTo(g.Edges[ei].From), ei)
		labels := g.PathLabels(path)
		r, err := newPrun(script, thresh)
		if err != nil {
			t.Fatal(err)
		}
		ok := r.start()
		for si, e := range path {
			if !ok {
				rep.Violation("poller/hang", "a participant did not reach its next gate while running alone", labels[:si])
				break
			}
			ed := g.Edges[e]
			from, to := g.Node(ed.From), g.Node(ed.To)
			proc := 0
			wantPc := vsup.Str(from["cpc"])
			if len(ed.Args) > 0 {
				proc = vsup.Int(ed.Args[0])
				wantPc = vsup.Str(vsup.Seq(from["ppc"])[proc-1])
			}
			at := r.s.At(proc)
			if k := r.kind(proc, at); k != wantPc {
				rep.Nonconformance("poller/gate", fmt.Sprintf("model step %s from %s but participant %d is at %q", g.EdgeLabel(e), wantPc, proc, k), labels[:si+1])
				break
			}
			if proc == 0 && wantPc == "W" {
				if vsup.Bool(from["edge"]) != r.ready() {
					rep.Nonconformance("poller/kernel-edge", fmt.Sprintf("before %s: model edge=%v, kernel readiness of the epoll descriptor=%v", g.EdgeLabel(e), from["edge"], r.ready()), labels[:si+1])
					break
				}
			}
			ok = r.advance(proc)
			if !ok {
				continue
			}
			// compare the real state with the model state
			u, ulen := contents(r.p.urgentAsyncTaskQueue)
			l, llen := contents(r.p.asyncTaskQueue)
			mism := ""
			cmpq := func(name string, real [][2]int, model any) {
				ms := vsup.Seq(model)
				if len(ms) != len(real) {
					mism += fmt.Sprintf(" %s=%v model %v;", name, real, model)
					return
				}
				for i, x := range ms {
					xs := vsup.Ints(x)
					if xs[0] != real[i][0] || xs[1] != real[i][1] {
						mism += fmt.Sprintf(" %s=%v model %v;", name, real, model)
						return
					}
				}
			}
			cmpq("uq", u, to["uq"])
			cmpq("lq", l, to["lq"])
			cmpq("execs", r.execs, to["execs"])
			if ulen != vsup.Int(to["ulen"]) || llen != vsup.Int(to["llen"]) {
				mism += fmt.Sprintf(" counters (%d,%d) model (%v,%v);", ulen, llen, to["ulen"], to["llen"])
			}
			if int(atomic.LoadInt32(&r.p.wakeupCall)) != vsup.Int(to["wakeup"]) {
				mism += fmt.Sprintf(" wakeupCall=%d model %v;", r.p.wakeupCall, to["wakeup"])
			}
			if r.ready() != vsup.Bool(to["edge"]) {
				mism += fmt.Sprintf(" kernel readiness %v model edge %v;", r.ready(), to["edge"])
			}
			if mism != "" {
				rep.Nonconformance("poller/state", "after "+g.EdgeLabel(e)+":"+mism, labels[:si+1])
				break
			}
		}
		if ok {
			r.finish(rng, rep, labels)
		}
		r.stop()
		rep.Eval(fmt.Sprintf("%d|%s", g.Edges[ei].From, g.EdgeLabel(ei)))
		if len(path) > 10 {
			rep.Sample(labels)
		}
	}
	rep.Set("schedules", len(idx))
	if err := rep.Write(); err != nil {
		t.Fatal(err)
	}
}

// TestVerifPollerRandom: seeded random schedules with larger scripts, including more than
// MaxAsyncTasksAtOneTime low-priority tasks (budget branch) and a threshold that diverts.
func TestVerifPollerRandom(t *testing.T) {
	rep := vsup.NewReport("poller-random")
	rng := vsup.NewRng(vsup.Seed() + 99)
	runs := vsup.EnvInt("VERIF_SCHEDULES", 200)
	for i := 0; i < runs; i++ {
		script := map[int][]string{}
		np := 1 + rng.Intn(3)
		for p := 1; p <= np; p++ {
			n := 1 + rng.Intn(4)
			if i%10 == 9 && p == 1 {
				n = MaxAsyncTasksAtOneTime + 2 + rng.Intn(20)
			}
			for k := 0; k < n; k++ {
				if rng.Intn(2) == 0 || (i%10 == 9 && p == 1) {
					script[p] = append(script[p], "L")
				} else {
					script[p] = append(script[p], "H")
				}
			}
		}
		thresh := []int{1, 2, 3, MaxPollEventsCap}[rng.Intn(4)]
		if i%3 == 0 {
			// ordering scenario: one producer issues only high-priority requests while the urgent queue
			// hovers around a small threshold
			script[1] = nil
			for k := 0; k < 3+rng.Intn(4); k++ {
				script[1] = append(script[1], "H")
			}
			thresh = 1 + rng.Intn(2)
		}
		r, err := newPrun(script, thresh)
		if err != nil {
			t.Fatal(err)
		}
		var path []string
		if r.start() {
			// PCT-style priorities with occasional demotion
			prio := map[int]int{}
			for p := 0; p <= np; p++ {
				prio[p] = rng.Intn(1000)
			}
			okk := true
			for steps := 0; okk && steps < 200000; steps++ {
				en := r.enabled()
				if len(en) == 0 {
					break
				}
				best := en[0]
				for _, p := range en {
					if prio[p] > prio[best] {
						best = p
					}
				}
				if rng.Intn(10) == 0 {
					prio[best] = rng.Intn(1000) - 1000
				}
				if len(path) < 80 {
					path = append(path, fmt.Sprintf("%d:%s", best, r.kind(best, r.s.At(best))))
				}
				okk = r.advance(best)
			}
			if okk {
				r.finish(rng, rep, path)
			} else {
				rep.Violation("poller/hang", "a participant did not reach its next gate while running alone", path)
			}
		}
		r.stop()
		rep.Eval(fmt.Sprintf("run%d", i))
	}
	if err := rep.Write(); err != nil {
		t.Fatal(err)
	}
}

// TestVerifPollerPreempt: systematic schedules with a bounded number of context switches.  For small scripts every
// schedule of the shape "producer A runs a steps, producer B runs b steps, the loop runs c steps, B finishes, A
// finishes, the loop finishes" (a, b, c over all their values) is executed on the real poller and judged by the same
// state witness.  Unlike the graph replay it does not depend on the gates matching the model step for step, so it
// still explores a tree whose gates have moved.
func TestVerifPollerPreempt(t *testing.T) {
	rep := vsup.NewReport("poller-preempt")
	rng := vsup.NewRng(vsup.Seed() + 7)
	scripts := []map[int][]string{
		{1: {"H"}, 2: {"L"}}, {1: {"L"}, 2: {"H"}}, {1: {"H"}, 2: {"H"}}, {1: {"L"}, 2: {"L"}},
		{1: {"H", "H"}, 2: {"L"}}, {1: {"H", "L"}, 2: {"L"}},
	}
	maxC := vsup.EnvInt("VERIF_PREEMPT_LOOP_STEPS", 14)
	runs := 0
	for si, script := range scripts {
		for _, thresh := range []int{1, 2} {
			for _, first := range []int{1, 2} {
				second := 3 - first
				// a = steps of the first producer before the switch (100 = all of it)
				for _, a := range []int{1000, 2, 4, 6, 9, 12} {
					for b := 0; b <= 18; b++ {
						for c := 0; c <= maxC; c++ {
							if a != 1000 && (b%3 != 0 || c%2 == 1) {
								continue // the two-preemption family is sampled more thinly
							}
							r, err := newPrun(script, thresh)
							if err != nil {
								t.Fatal(err)
							}
							path := []string{fmt.Sprintf("script %d thresh %d: P%d x%d, P%d x%d, loop x%d, rest", si, thresh, first, a, second, b, c)}
							ok := r.start()
							// producers are stepped gate by gate (also through the queue's internal gates: the window
							// between a producer's reading of a length and its linking of the node matters), the loop
							// from one of its own gates to the next
							run := func(proc, n int) {
								for k := 0; ok && k < n; k++ {
									can := false
									for _, p := range r.enabled() {
										can = can || p == proc
									}
									if !can {
										return
									}
									if proc == 0 {
										ok = r.advance(proc)
									} else {
										ok = r.s.Release(proc)
									}
								}
							}
							if ok {
								run(first, a)
								run(second, b)
								run(0, c)
								run(second, 1000)
								run(first, 1000)
							}
							if ok {
								r.finish(rng, rep, path)
							} else {
								rep.Violation("poller/hang", "a participant did not reach its next gate while running alone", path)
							}
							r.stop()
							runs++
							rep.Eval(fmt.Sprintf("s%d-t%d-f%d-a%d-b%d-c%d", si, thresh, first, a, b, c%4))
						}
					}
				}
			}
		}
	}
	rep.Set("schedules", runs)
	if err := rep.Write(); err != nil {
		t.Fatal(err)
	}
}
