package ringbuffer

// Channel B for C12 (ring-buffer pool): Get must hand out an empty ring held by nobody else.

import (
	"fmt"
	"os"
	"runtime"
	"sync"
	"testing"

	"github.com/panjf2000/gnet/v2/internal/vsup"
)

func TestVerifRingPoolTrace(t *testing.T) {
	tr, err := vsup.OpenTrace(os.Getenv("VERIF_TRACE"))
	if err != nil {
		t.Fatal(err)
	}
	rep := vsup.NewReport("ringpool-trace")
	seed := vsup.Seed()
	var mu sync.Mutex
	ids := map[*RingBuffer]int{}
	idOf := func(b *RingBuffer) int {
		if id, ok := ids[b]; ok {
			return id
		}
		ids[b] = len(ids) + 1
		return ids[b]
	}
	for hno := 0; hno < vsup.EnvInt("VERIF_HISTORIES", 30); hno++ {
		mu.Lock()
		tr.Emit(map[string]any{"ev": "Reset"})
		mu.Unlock()
		p := &Pool{}
		if hno == 0 {
			// the whole ladder of capacities once, 64 bytes to 128 MiB: rings of every size go back to the pool and
			// come out of it empty and exclusive
			for k := 6; k <= 27; k++ {
				b := p.Get()
				tr.Emit(map[string]any{"ev": "RingGet", "ring": idOf(b), "empty": b.IsEmpty(), "buffered": b.Buffered(), "cap": b.Cap()})
				_, _ = b.Write(make([]byte, 1<<uint(k)))
				_, _ = b.Discard(1 << uint(k-1))
				tr.Emit(map[string]any{"ev": "RingPut", "ring": idOf(b)})
				func() {
					defer func() {
						if r := recover(); r != nil {
							rep.Violation("ringpool/put-panic", fmt.Sprintf("Put of a ring buffer of capacity %d: %v", b.Cap(), r), nil)
						}
					}()
					p.Put(b)
				}()
				rep.Eval(fmt.Sprintf("ladder-%d", k))
			}
		}
		workers := 1 + 3*(hno%2)
		var wg sync.WaitGroup
		for w := 0; w < workers; w++ {
			wg.Add(1)
			go func(w int) {
				defer wg.Done()
				rng := vsup.NewRng(seed*7919 + uint64(hno)*31 + uint64(w))
				var mine []*RingBuffer
				for s := 0; s < 80; s++ {
					switch c := rng.Intn(10); {
					case c < 5 && len(mine) < 4:
						b := p.Get()
						mu.Lock()
						tr.Emit(map[string]any{"ev": "RingGet", "ring": idOf(b), "empty": b.IsEmpty(), "buffered": b.Buffered(), "cap": b.Cap()})
						mu.Unlock()
						// use it: leave data and a moved cursor behind
						data := make([]byte, 1+rng.Intn(3000))
						_, _ = b.Write(data)
						if rng.Intn(2) == 0 {
							_, _ = b.Discard(rng.Intn(len(data)))
						}
						mine = append(mine, b)
						rep.Eval("get")
					case c < 9 && len(mine) > 0:
						i := rng.Intn(len(mine))
						b := mine[i]
						mine = append(mine[:i], mine[i+1:]...)
						mu.Lock()
						tr.Emit(map[string]any{"ev": "RingPut", "ring": idOf(b)})
						mu.Unlock()
						p.Put(b)
						rep.Eval("put")
					case workers == 1:
						runtime.GC()
					}
				}
				for _, b := range mine {
					mu.Lock()
					tr.Emit(map[string]any{"ev": "RingPut", "ring": idOf(b)})
					mu.Unlock()
					p.Put(b)
				}
			}(w)
		}
		wg.Wait()
		rep.Eval("history")
	}
	if err := tr.Close(); err != nil {
		t.Fatal(err)
	}
	rep.Set("events", tr.N)
	if err := rep.Write(); err != nil {
		t.Fatal(err)
	}
}
