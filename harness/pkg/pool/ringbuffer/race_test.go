package ringbuffer

// C05 adjunct (race detector): several goroutines -- as the event loops do -- take rings from one pool, use them and
// give them back, often enough for the pool's self-calibration (every 42000 returns of one size class) to run while the
// others are inside Get / Put.

import (
	"sync"
	"testing"

	"github.com/panjf2000/gnet/v2/internal/vsup"
)

func TestVerifRingPoolRace(t *testing.T) {
	rep := vsup.NewReport("ringpool-race")
	p := &Pool{}
	rounds := vsup.EnvInt("VERIF_POOL_ROUNDS", 30000)
	var wg sync.WaitGroup
	for g := 0; g < 3; g++ {
		wg.Add(1)
		go func(g int) {
			defer wg.Done()
			data := make([]byte, 100+g)
			for i := 0; i < rounds; i++ {
				b := p.Get()
				_, _ = b.Write(data)
				p.Put(b)
			}
		}(g)
	}
	wg.Wait()
	rep.Eval("rounds")
	rep.Set("returns", 3*rounds)
	if err := rep.Write(); err != nil {
		t.Fatal(err)
	}
}
