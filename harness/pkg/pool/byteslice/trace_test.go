package byteslice

// Channel B for C12: seeded histories of Get / Put (whole slice, re-sliced tail, foreign slice of odd
// capacity, zero capacity), across garbage collections and from several goroutines, on a private
// Pool; every event is logged with the region normalised to (array id, offset, len, cap) and the
// log is validated by TLC against specs/PoolsTrace.tla.  The harness keeps every backing array
// alive, so addresses are never recycled by the collector.

import (
	"fmt"
	"os"
	"runtime"
	"sort"
	"sync"
	"testing"
	"unsafe"

	"github.com/panjf2000/gnet/v2/internal/vsup"
)

type arr struct {
	base uintptr
	cap  int
	keep []byte
	id   int
}

type ledger struct {
	mu   sync.Mutex
	arrs []*arr // sorted by base
	tr   *vsup.Trace
	rep  *vsup.Report
	n    int
}

func (l *ledger) find(p uintptr) *arr {
	i := sort.Search(len(l.arrs), func(i int) bool { return l.arrs[i].base > p })
	if i == 0 {
		return nil
	}
	a := l.arrs[i-1]
	if p < a.base+uintptr(a.cap) {
		return a
	}
	return nil
}

// register records a backing array first seen now; returns it.
func (l *ledger) register(b []byte) *arr {
	full := b[:cap(b)]
	a := &arr{base: uintptr(unsafe.Pointer(unsafe.SliceData(full))), cap: cap(b), keep: full}
	l.n++
	a.id = l.n
	i := sort.Search(len(l.arrs), func(i int) bool { return l.arrs[i].base > a.base })
	l.arrs = append(l.arrs, nil)
	copy(l.arrs[i+1:], l.arrs[i:])
	l.arrs[i] = a
	return a
}

type held struct {
	b     []byte
	stamp int
}

func fillCanary(b []byte, stamp int, limit int) {
	full := b[:cap(b)]
	if limit < len(full) { // never write beyond the backing array we know
		full = full[:limit]
	}
	for i := range full {
		full[i] = vsup.Stamp(stamp, i)
	}
}
func checkCanary(b []byte, stamp int) bool {
	full := b[:cap(b)]
	return vsup.Match(full, stamp, 0) < 0
}

var sizes = []int{1, 2, 3, 4, 5, 7, 8, 9, 63, 64, 65, 100, 511, 512, 513, 1000, 1024, 1025, 4095, 4096, 4097, 65536, 65537, 1 << 20}

func (l *ledger) get(p *Pool, size int, stamp int) held {
	b := p.Get(size)
	l.mu.Lock()
	defer l.mu.Unlock()
	ptr := uintptr(unsafe.Pointer(unsafe.SliceData(b)))
	a := l.find(ptr)
	fresh := a == nil
	if fresh {
		a = l.register(b)
	}
	// memory handed out must not carry a live canary of someone else: verified by TLC through NoAlias;
	// here we only record what we see
	l.tr.Emit(map[string]any{"ev": "Get", "size": size, "a": a.id, "off": int(ptr - a.base), "len": len(b), "cap": cap(b), "fresh": fresh, "canary": true})
	room := a.cap - int(ptr-a.base)
	if cap(b) > room {
		l.rep.Violation("pools/bytepool/out-of-bounds", fmt.Sprintf("Get(%d) returned a slice of capacity %d at offset %d of a backing array of %d bytes", size, cap(b), int(ptr-a.base), a.cap), nil)
		b = b[:0:room]
	}
	fillCanary(b, stamp, room)
	return held{b, stamp}
}

func (l *ledger) put(p *Pool, h held, k int) {
	ok := checkCanary(h.b, h.stamp)
	b := h.b[:cap(h.b)][k:]
	b = b[:0:len(b)] // re-sliced tail with its own capacity
	l.mu.Lock()
	ptr := uintptr(unsafe.Pointer(unsafe.SliceData(h.b[:cap(h.b)]))) + uintptr(k)
	a := l.find(uintptr(unsafe.Pointer(unsafe.SliceData(h.b[:cap(h.b)]))))
	l.tr.Emit(map[string]any{"ev": "Put", "a": a.id, "off": int(ptr - a.base), "cap": cap(h.b) - k, "foreign": false, "canary": ok})
	l.mu.Unlock()
	if cap(h.b)-k == 0 {
		p.Put(nil)
		return
	}
	p.Put(h.b[k:cap(h.b)])
}

func (l *ledger) putForeign(p *Pool, c int) {
	b := make([]byte, c/2, c)
	l.mu.Lock()
	if c > 0 {
		a := l.register(b)
		l.tr.Emit(map[string]any{"ev": "Put", "a": a.id, "off": 0, "cap": c, "foreign": true, "canary": true})
	} else {
		l.n++
		l.tr.Emit(map[string]any{"ev": "Put", "a": l.n, "off": 0, "cap": 0, "foreign": true, "canary": true})
	}
	l.mu.Unlock()
	p.Put(b)
}

func TestVerifBytePoolTrace(t *testing.T) {
	tr, err := vsup.OpenTrace(os.Getenv("VERIF_TRACE"))
	if err != nil {
		t.Fatal(err)
	}
	rep := vsup.NewReport("bytepool-trace")
	seed := vsup.Seed()
	histories := vsup.EnvInt("VERIF_HISTORIES", 40)
	steps := vsup.EnvInt("VERIF_STEPS", 60)
	for hno := 0; hno < histories; hno++ {
		tr.Emit(map[string]any{"ev": "Reset"})
		l := &ledger{tr: tr, rep: rep}
		p := &Pool{}
		workers := 1
		if hno%3 == 2 {
			workers = 4
		}
		var wg sync.WaitGroup
		for w := 0; w < workers; w++ {
			wg.Add(1)
			go func(w int) {
				defer wg.Done()
				rng := vsup.NewRng(seed*1000003 + uint64(hno)*131 + uint64(w))
				var mine []held
				for s := 0; s < steps; s++ {
					switch c := rng.Intn(10); {
					case c < 4 && len(mine) < 5:
						size := sizes[rng.Intn(len(sizes))]
						if rng.Intn(4) == 0 {
							size = 1 + rng.Intn(3000)
						}
						mine = append(mine, l.get(p, size, hno*100000+w*10000+s))
						rep.Eval("get")
					case c < 7 && len(mine) > 0:
						i := rng.Intn(len(mine))
						h := mine[i]
						mine = append(mine[:i], mine[i+1:]...)
						k := 0
						switch rng.Intn(4) {
						case 0:
							k = rng.Intn(cap(h.b) + 1) // re-sliced tail, possibly empty
						case 1:
							if cap(h.b) > 1 {
								k = 1
							}
						}
						l.put(p, h, k)
						rep.Eval("put")
					case c < 8:
						caps := []int{0, 1, 3, 5, 6, 7, 12, 100, 1000, 1023, 1025, 5000}
						l.putForeign(p, caps[rng.Intn(len(caps))])
						rep.Eval("putforeign")
					case c < 9 && workers == 1:
						runtime.GC()
					}
				}
				for _, h := range mine {
					l.put(p, h, 0)
				}
			}(w)
		}
		wg.Wait()
		rep.Eval("history-" + string(rune('a'+hno%26)))
	}
	if err := tr.Close(); err != nil {
		t.Fatal(err)
	}
	rep.Set("events", tr.N)
	rep.Set("histories", histories)
	if err := rep.Write(); err != nil {
		t.Fatal(err)
	}
}
