package byteslice

import (
	"encoding/json"
	"fmt"
	"os"
	"testing"

	"github.com/panjf2000/gnet/v2/internal/vsup"
)

// C20: the byte-slice pool's size-class function against the class table of specs/Tables.tla.
func TestVerifIndexTable(t *testing.T) {
	raw, err := os.ReadFile(os.Getenv("VERIF_TABLES"))
	if err != nil {
		t.Fatal(err)
	}
	var tb struct {
		Small []struct{ N, Class int } `json:"small"`
		Big   []struct {
			K, D   int
			ClassK int `json:"classk"`
		} `json:"big"`
	}
	if err := json.Unmarshal(raw, &tb); err != nil {
		t.Fatal(err)
	}
	rep := vsup.NewReport("index-table")
	for _, s := range tb.Small {
		if s.N >= 1 {
			rep.Eval(fmt.Sprint(s.N))
			if got := int(index(uint32(s.N))); got != s.Class {
				rep.Violation("byteslice/index", fmt.Sprintf("index(%d) = %d, want %d", s.N, got, s.Class), nil)
			}
		}
	}
	for _, b := range tb.Big {
		if b.ClassK >= 0 && b.K <= 30 {
			n := 1<<uint(b.K) + b.D
			rep.Eval(fmt.Sprint(n))
			if got := int(index(uint32(n))); got != b.ClassK {
				rep.Violation("byteslice/index", fmt.Sprintf("index(%d) = %d, want %d", n, got, b.ClassK), nil)
			}
		}
	}
	// class k on (2^(k-1), 2^k]: exhaustive up to 2^31 in the thorough tier, to 2^24 otherwise
	top := 24
	if vsup.Thorough() {
		top = 31
	}
	for k := 1; k <= top; k++ {
		for n := uint64(1)<<uint(k-1) + 1; n <= uint64(1)<<uint(k); n++ {
			if index(uint32(n)) != uint32(k) {
				rep.Violation("byteslice/index", fmt.Sprintf("index(%d) = %d, want %d", n, index(uint32(n)), k), nil)
				break
			}
		}
		rep.Eval(fmt.Sprint("class", k))
	}
	// Get honours the class: len = size, cap = 2^class
	for _, size := range []int{1, 2, 3, 4, 5, 1023, 1024, 1025, 65535, 65536, 65537} {
		b := (&Pool{}).Get(size)
		if len(b) != size || cap(b) < size || cap(b) != 1<<index(uint32(size)) {
			rep.Violation("byteslice/get", fmt.Sprintf("Get(%d): len %d cap %d", size, len(b), cap(b)), nil)
		}
	}
	if err := rep.Write(); err != nil {
		t.Fatal(err)
	}
}
