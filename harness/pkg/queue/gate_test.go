package queue

// Channel C for C13: the real lockFreeQueue under the gate scheduler.
//  - TestVerifQueueCover: every labelled edge of the TLC state graph of specs/MSQueue.tla (one
//    action per atomic operation) is replayed as a schedule of the real queue; after every step
//    the real pointers / counter are compared with the model state (mechanism-level conformance);
//    the call/return history of every schedule is written for the linearisability check
//    (specs/QueueLin.tla) and the quiescent Length/IsEmpty are checked directly.
//  - TestVerifQueueRandom: seeded random schedules (PCT-style priorities) of larger scripts.
//  - TestVerifQueueStress: ungated multi-goroutine histories in small windows.

import (
	"fmt"
	"os"
	"sync"
	"sync/atomic"
	"testing"
	"unsafe"

	"github.com/panjf2000/gnet/v2/internal/vhook"
	"github.com/panjf2000/gnet/v2/internal/vsup"
)

type qrun struct {
	q     *lockFreeQueue
	s     *vsup.Sched
	nodes []*node // index = id-1
	tr    *vsup.Trace
	trmu  sync.Mutex
	opid  int64
}

func (r *qrun) idOf(n *node) int {
	if n == nil {
		return 0
	}
	for i, m := range r.nodes {
		if m == n {
			return i + 1
		}
	}
	return -1
}

// learn follows the list from every known node and numbers nodes in link order.
func (r *qrun) learn() {
	for i := 0; i < len(r.nodes); i++ {
		nx := (*node)(atomic.LoadPointer(&r.nodes[i].next))
		if nx != nil && r.idOf(nx) < 0 {
			r.nodes = append(r.nodes, nx)
		}
	}
}

func (r *qrun) loc(obj any) string {
	p, ok := obj.(*unsafe.Pointer)
	if !ok {
		return "?"
	}
	switch p {
	case &r.q.head:
		return "head"
	case &r.q.tail:
		return "tail"
	}
	for _, n := range r.nodes {
		if p == &n.next {
			return "next"
		}
	}
	return "next?" // next field of a node not linked yet cannot be reached by the code
}

func valOf(p, i int) int { return p*100 + i }

func (r *qrun) emit(ev map[string]any) {
	r.trmu.Lock()
	r.tr.Emit(ev)
	r.trmu.Unlock()
}

// worker scripts
func (r *qrun) enqueuer(p, n int) func() {
	return func() {
		for i := 1; i <= n; i++ {
			r.s.Point("start", 0)
			id := atomic.AddInt64(&r.opid, 1)
			r.emit(map[string]any{"ev": "Call", "id": id, "op": "enq", "val": valOf(p, i)})
			r.q.Enqueue(&Task{Param: valOf(p, i)})
			r.emit(map[string]any{"ev": "Ret", "id": id, "res": 0})
		}
	}
}
func (r *qrun) dequeuer(p, n int) func() {
	return func() {
		for i := 1; i <= n; i++ {
			r.s.Point("start", 0)
			id := atomic.AddInt64(&r.opid, 1)
			r.emit(map[string]any{"ev": "Call", "id": id, "op": "deq", "val": 0})
			t := r.q.Dequeue()
			res := 0
			if t != nil {
				res = t.Param.(int)
			}
			r.emit(map[string]any{"ev": "Ret", "id": id, "res": res})
		}
	}
}

var gateOf = map[string][2]string{
	"E_Start": {"start", ""}, "D_Start": {"start", ""},
	"E_LoadTail": {"q.load", "tail"}, "E_LoadNext": {"q.load", "next"}, "E_Recheck": {"q.load", "tail"},
	"E_CasLink": {"q.cas", "next"}, "E_CasSwing": {"q.cas", "tail"}, "E_HelpSwing": {"q.cas", "tail"}, "E_IncLen": {"q.inc", ""},
	"D_LoadHead": {"q.load", "head"}, "D_LoadTail": {"q.load", "tail"}, "D_LoadNext": {"q.load", "next"}, "D_Recheck": {"q.load", "head"},
	"D_HelpSwing": {"q.cas", "tail"}, "D_ReadVal": {"q.val", ""}, "D_CasHead": {"q.cas", "head"}, "D_DecLen": {"q.dec", ""},
}

func (r *qrun) snapshot() (head, tail, length int, next []int) {
	r.learn()
	head = r.idOf((*node)(atomic.LoadPointer(&r.q.head)))
	tail = r.idOf((*node)(atomic.LoadPointer(&r.q.tail)))
	length = int(atomic.LoadInt32(&r.q.length))
	for _, n := range r.nodes {
		next = append(next, r.idOf((*node)(atomic.LoadPointer(&n.next))))
	}
	return
}

func newRun(tr *vsup.Trace) *qrun {
	r := &qrun{q: NewLockFreeQueue().(*lockFreeQueue), s: vsup.NewSched(), tr: tr}
	r.nodes = []*node{(*node)(r.q.head)}
	return r
}

// finish lets everybody run to completion (seeded choices), then checks quiescence directly.
func (r *qrun) finish(nprocs int, rng *vsup.Rng, rep *vsup.Report, path []string) bool {
	for {
		ps := r.s.ParkedProcs()
		if len(ps) == 0 {
			break
		}
		if !r.s.Release(ps[rng.Intn(len(ps))]) {
			rep.Violation("queue/hang", "a queue operation did not reach its next atomic step or return while running alone", path)
			return false
		}
	}
	// quiescent: Length / IsEmpty must agree with what is left; then drain
	ln, empty := int(r.q.Length()), r.q.IsEmpty()
	r.emit(map[string]any{"ev": "Quiesce", "len": ln, "empty": empty})
	left := 0
	for {
		id := atomic.AddInt64(&r.opid, 1)
		r.emit(map[string]any{"ev": "Call", "id": id, "op": "deq", "val": 0})
		t := r.q.Dequeue()
		res := 0
		if t != nil {
			res = t.Param.(int)
		}
		r.emit(map[string]any{"ev": "Ret", "id": id, "res": res})
		if t == nil {
			break
		}
		left++
	}
	if ln != left || empty != (left == 0) {
		rep.Violation("queue/quiescent-length", fmt.Sprintf("with no operation in flight Length()=%d IsEmpty()=%v but %d tasks were in the queue", ln, empty, left), path)
	}
	if int(r.q.Length()) != 0 || !r.q.IsEmpty() {
		rep.Violation("queue/quiescent-length", fmt.Sprintf("after draining: Length()=%d IsEmpty()=%v", r.q.Length(), r.q.IsEmpty()), path)
	}
	return true
}

func TestVerifQueueCover(t *testing.T) {
	g, err := vsup.LoadGraph(os.Getenv("VERIF_GRAPH"))
	if err != nil {
		t.Fatal(err)
	}
	tr, err := vsup.OpenTrace(os.Getenv("VERIF_TRACE"))
	if err != nil {
		t.Fatal(err)
	}
	nenq, ndeq := vsup.EnvInt("VERIF_NENQ", 1), vsup.EnvInt("VERIF_NDEQ", 2)
	enqs, deqs := []int{1, 2}, []int{3}
	if vsup.EnvInt("VERIF_DEQUEUERS", 1) == 2 {
		deqs = []int{3, 4}
	}
	rep := vsup.NewReport("queue-cover")
	rng := vsup.NewRng(vsup.Seed())
	// edges: sequential replay (one gate scheduler at a time: vhook's gate is process-wide)
	idx := make([]int, 0, len(g.Edges))
	for i, e := range g.Edges {
		if g.Depth[e.From] >= 0 {
			idx = append(idx, i)
		}
	}
	max := vsup.EnvInt("VERIF_MAX_EDGES", 0)
	if max > 0 && len(idx) > max {
		for i := len(idx) - 1; i > 0; i-- {
			j := rng.Intn(i + 1)
			idx[i], idx[j] = idx[j], idx[i]
		}
		idx = idx[:max]
	}
	for _, ei := range idx {
		path := append(g.PathTo(g.Edges[ei].From), ei)
		labels := g.PathLabels(path)
		tr.Emit(map[string]any{"ev": "Reset"})
		r := newRun(tr)
		vhook.SetGate(r.s.Gate)
		n := 0
		for _, p := range enqs {
			r.s.Go(p, r.enqueuer(p, nenq))
			n++
		}
		for _, p := range deqs {
			r.s.Go(p, r.dequeuer(p, ndeq))
			n++
		}
		ok := r.s.WaitAll(n)
		for _, p := range append(append([]int{}, enqs...), deqs...) { // from "begin" to the first "start"
			ok = ok && r.s.Release(p)
		}
		conform := true
		for si, e := range path {
			if !ok {
				break
			}
			ed := g.Edges[e]
			if ed.Action == "D_RetNil" {
				continue // the real call has already returned (no atomic operation of its own)
			}
			p := vsup.Int(ed.Args[0])
			want := gateOf[ed.Action]
			at := r.s.At(p)
			r.learn()
			if at == nil || at.Site != want[0] || (want[1] != "" && r.loc(at.Obj) != want[1]) {
				where := "finished"
				if at != nil {
					where = at.Site + "@" + r.loc(at.Obj)
				}
				rep.Nonconformance("queue/gate", fmt.Sprintf("model step %s but process %d is at %s", g.EdgeLabel(e), p, where), labels[:si+1])
				conform = false
				break
			}
			if !r.s.Release(p) {
				rep.Violation("queue/hang", "a queue operation did not reach its next atomic step or return while running alone", labels[:si+1])
				ok = false
				break
			}
			to := g.Node(ed.To)
			h, tl, ln, nx := r.snapshot()
			mn := vsup.Ints(to["next"])
			same := h == vsup.Int(to["head"]) && tl == vsup.Int(to["tail"]) && ln == vsup.Int(to["length"]) && len(nx) == len(mn)
			for i := 0; same && i < len(nx); i++ {
				same = nx[i] == mn[i]
			}
			if !same {
				rep.Nonconformance("queue/state", fmt.Sprintf("after %s: real (head,tail,length,next)=(%d,%d,%d,%v); model (%d,%d,%d,%v)", g.EdgeLabel(e), h, tl, ln, nx, vsup.Int(to["head"]), vsup.Int(to["tail"]), vsup.Int(to["length"]), mn), labels[:si+1])
				conform = false
				break
			}
		}
		_ = conform
		if ok {
			r.finish(n, rng, rep, labels)
		}
		vhook.SetGate(nil)
		rep.Eval(fmt.Sprintf("%d|%s", g.Edges[ei].From, g.EdgeLabel(ei)))
		if len(path) > 12 {
			rep.Sample(labels)
		}
	}
	if err := tr.Close(); err != nil {
		t.Fatal(err)
	}
	rep.Set("schedules", len(idx))
	rep.Set("events", tr.N)
	if err := rep.Write(); err != nil {
		t.Fatal(err)
	}
}

// TestVerifQueueRandom: random gated schedules of larger scripts (3 enqueuers x 3, 3 dequeuers x 3).
func TestVerifQueueRandom(t *testing.T) {
	tr, err := vsup.OpenTrace(os.Getenv("VERIF_TRACE"))
	if err != nil {
		t.Fatal(err)
	}
	rep := vsup.NewReport("queue-random")
	rng := vsup.NewRng(vsup.Seed() + 17)
	runs := vsup.EnvInt("VERIF_SCHEDULES", 300)
	for i := 0; i < runs; i++ {
		tr.Emit(map[string]any{"ev": "Reset"})
		r := newRun(tr)
		vhook.SetGate(r.s.Gate)
		ne, nd, ops := 2+rng.Intn(2), 1+rng.Intn(3), 1+rng.Intn(3)
		n := 0
		for p := 1; p <= ne; p++ {
			r.s.Go(p, r.enqueuer(p, ops))
			n++
		}
		for p := 11; p < 11+nd; p++ {
			r.s.Go(p, r.dequeuer(p, ops))
			n++
		}
		ok := r.s.WaitAll(n)
		// PCT-style: random priorities, a few priority change points
		prio := map[int]int{}
		for _, p := range r.s.ParkedProcs() {
			prio[p] = rng.Intn(1000)
		}
		steps := 0
		var sched []string
		for ok {
			ps := r.s.ParkedProcs()
			if len(ps) == 0 {
				break
			}
			best := ps[0]
			for _, p := range ps {
				if prio[p] > prio[best] {
					best = p
				}
			}
			if rng.Intn(12) == 0 {
				prio[best] = rng.Intn(1000) - 1000 // demote: forces a preemption here
			}
			if at := r.s.At(best); at != nil && len(sched) < 60 {
				sched = append(sched, fmt.Sprintf("%d:%s", best, at.Site))
			}
			if !r.s.Release(best) {
				rep.Violation("queue/hang", "a queue operation did not reach its next atomic step or return while running alone", sched)
				ok = false
			}
			steps++
		}
		if ok {
			r.finish(n, rng, rep, sched)
		}
		vhook.SetGate(nil)
		rep.Eval(fmt.Sprintf("run%d-%d-%d-%d", i, ne, nd, ops))
	}
	if err := tr.Close(); err != nil {
		t.Fatal(err)
	}
	rep.Set("events", tr.N)
	if err := rep.Write(); err != nil {
		t.Fatal(err)
	}
}

// TestVerifQueueStress: free-running goroutines, short windows so that TLC can search a linearisation.
func TestVerifQueueStress(t *testing.T) {
	tr, err := vsup.OpenTrace(os.Getenv("VERIF_TRACE"))
	if err != nil {
		t.Fatal(err)
	}
	rep := vsup.NewReport("queue-stress")
	windows := vsup.EnvInt("VERIF_WINDOWS", 300)
	var opid int64
	var mu sync.Mutex
	emit := func(ev map[string]any) { mu.Lock(); tr.Emit(ev); mu.Unlock() }
	for w := 0; w < windows; w++ {
		emit(map[string]any{"ev": "Reset"})
		q := NewLockFreeQueue()
		var wg sync.WaitGroup
		start := make(chan struct{})
		for p := 1; p <= 3; p++ {
			wg.Add(2)
			go func(p int) {
				defer wg.Done()
				<-start
				for i := 1; i <= 2; i++ {
					id := atomic.AddInt64(&opid, 1)
					emit(map[string]any{"ev": "Call", "id": id, "op": "enq", "val": valOf(p, i)})
					q.Enqueue(&Task{Param: valOf(p, i)})
					emit(map[string]any{"ev": "Ret", "id": id, "res": 0})
				}
			}(p)
			go func(p int) {
				defer wg.Done()
				<-start
				for i := 1; i <= 2; i++ {
					id := atomic.AddInt64(&opid, 1)
					emit(map[string]any{"ev": "Call", "id": id, "op": "deq", "val": 0})
					t := q.Dequeue()
					res := 0
					if t != nil {
						res = t.Param.(int)
					}
					emit(map[string]any{"ev": "Ret", "id": id, "res": res})
				}
			}(p)
		}
		close(start)
		wg.Wait()
		emit(map[string]any{"ev": "Quiesce", "len": int(q.Length()), "empty": q.IsEmpty()})
		rep.Eval(fmt.Sprint("window", w%50))
	}
	if err := tr.Close(); err != nil {
		t.Fatal(err)
	}
	rep.Set("events", tr.N)
	if err := rep.Write(); err != nil {
		t.Fatal(err)
	}
}
