package math

// C20: the vector and interval tables evaluated by TLC from specs/Tables.tla are checked against the
// real functions; intervals are swept exhaustively over the signed 32-bit range (thorough) or sampled.

import (
	"encoding/json"
	"fmt"
	"os"
	"runtime"
	"sync"
	"testing"

	"github.com/panjf2000/gnet/v2/internal/vsup"
)

type tables struct {
	Small []struct {
		N       int  `json:"n"`
		IsPow2  bool `json:"ispow2"`
		Ceil    int  `json:"ceil"`
		Floor   int  `json:"floor"`
		Closest int  `json:"closest"`
		Class   int  `json:"class"`
	} `json:"small"`
	Big []struct {
		K, D     int
		IsPow2   bool `json:"ispow2"`
		CeilK    int  `json:"ceilk"`
		FloorK   int  `json:"floork"`
		ClosestK int  `json:"closestk"`
		ClassK   int  `json:"classk"`
	} `json:"big"`
	Neg []struct {
		K, D   int
		IsPow2 bool `json:"ispow2"`
		Ceil   int  `json:"ceil"`
	} `json:"neg"`
	Intervals []struct{ K int } `json:"intervals"`
}

func call(f func(int) int, n int) (v int, panicked bool) {
	defer func() {
		if recover() != nil {
			panicked = true
		}
	}()
	return f(n), false
}

func TestVerifMathTables(t *testing.T) {
	raw, err := os.ReadFile(os.Getenv("VERIF_TABLES"))
	if err != nil {
		t.Fatal(err)
	}
	var tb tables
	if err := json.Unmarshal(raw, &tb); err != nil {
		t.Fatal(err)
	}
	rep := vsup.NewReport("math-tables")
	bad := func(fn string, n int, got any, want any) {
		rep.Violation("math/"+fn, fmt.Sprintf("%s(%d) = %v, want %v", fn, n, got, want), nil)
	}
	one := func(n int, isp bool, ceil, floor, closest int) {
		rep.Eval(fmt.Sprint("n", n))
		if IsPowerOfTwo(n) != isp {
			bad("IsPowerOfTwo", n, IsPowerOfTwo(n), isp)
		}
		if v, p := call(CeilToPowerOfTwo, n); p || v != ceil {
			bad("CeilToPowerOfTwo", n, fmt.Sprint(v, " panic=", p), ceil)
		}
		if v, p := call(FloorToPowerOfTwo, n); p || v != floor {
			bad("FloorToPowerOfTwo", n, fmt.Sprint(v, " panic=", p), floor)
		}
		if n >= 1 && closest >= 0 {
			if v, p := call(ClosestPowerOfTwo, n); p || v != closest {
				bad("ClosestPowerOfTwo", n, fmt.Sprint(v, " panic=", p), closest)
			}
		}
	}
	for _, s := range tb.Small {
		one(s.N, s.IsPow2, s.Ceil, s.Floor, s.Closest)
	}
	for _, b := range tb.Big {
		n := 1<<uint(b.K) + b.D
		closest := 1 << uint(b.ClosestK)
		if b.CeilK > 62 { // no power of two >= n fits an int: Ceil (and hence Closest) must panic
			if _, p := call(CeilToPowerOfTwo, n); !p {
				bad("CeilToPowerOfTwo", n, "no panic", "panic")
			}
			if v, p := call(FloorToPowerOfTwo, n); p || v != 1<<uint(b.FloorK) {
				bad("FloorToPowerOfTwo", n, v, 1<<uint(b.FloorK))
			}
			rep.Eval(fmt.Sprint("n", n))
			continue
		}
		one(n, b.IsPow2, 1<<uint(b.CeilK), 1<<uint(b.FloorK), closest)
	}
	// negative arguments down to the smallest int
	for _, v := range tb.Neg {
		n := -(1 << uint(v.K)) + v.D
		one(n, v.IsPow2, v.Ceil, n, -1)
	}
	if len(tb.Neg) == 0 {
		t.Fatal("no negative vectors in the table")
	}
	// interval table: Ceil = 2^k on (2^(k-1), 2^k]; Floor = 2^k on [2^k, 2^(k+1));
	// Closest = 2^k on [2^k - 2^(k-2), 2^k + 2^(k-1)) (the tie 2^(k-1)+2^(k-2) goes up)
	rng := vsup.NewRng(vsup.Seed())
	exhaustive := vsup.Thorough()
	var wg sync.WaitGroup
	sem := make(chan struct{}, runtime.GOMAXPROCS(0))
	for _, iv := range tb.Intervals {
		k := iv.K
		if k > 62 {
			continue
		}
		wg.Add(1)
		sem <- struct{}{}
		go func(k int, seed uint64) {
			defer wg.Done()
			defer func() { <-sem }()
			r := vsup.NewRng(seed)
			p := 1 << uint(k)
			check := func(n int) {
				if n > p/2 && n <= p {
					if v, pn := call(CeilToPowerOfTwo, n); pn || v != p {
						bad("CeilToPowerOfTwo", n, v, p)
					}
				}
				if n >= p && (k == 62 || n < 2*p) && n > 2 {
					if v, pn := call(FloorToPowerOfTwo, n); pn || v != p {
						bad("FloorToPowerOfTwo", n, v, p)
					}
				}
				if k >= 2 && k < 62 && n >= p-p/4 && n < p+p/2 {
					if v, pn := call(ClosestPowerOfTwo, n); pn || v != p {
						bad("ClosestPowerOfTwo", n, v, p)
					}
				}
				if IsPowerOfTwo(n) != (n == p || n == p/2 || (k < 62 && n == 2*p)) {
					bad("IsPowerOfTwo", n, IsPowerOfTwo(n), n == p)
				}
			}
			lo, hi := p/2+1, p+p/2-1
			if k == 62 {
				hi = p + (p - 1) // up to MaxInt64
			}
			count := 0
			if exhaustive && k <= 31 || k <= 22 {
				for n := lo; n <= hi && n > 0; n++ {
					check(n)
					count++
				}
			} else {
				for i := 0; i < 200000; i++ {
					n := lo + int(r.Uint64()%uint64(hi-lo+1))
					check(n)
					count++
				}
				for _, n := range []int{lo, lo + 1, p - 1, p, p + 1, hi - 1, hi, p - p/4 - 1, p - p/4, p + p/2 - 1} {
					if n >= lo && n <= hi {
						check(n)
					}
				}
			}
			rep.AddInt("interval_points", count)
			rep.Eval(fmt.Sprint("interval", k))
		}(k, rng.Uint64())
	}
	wg.Wait()
	rep.Sample(map[string]any{"n": "2^33+1", "floor": FloorToPowerOfTwo(1<<33 + 1), "ceil": CeilToPowerOfTwo(1<<33 + 1)})
	if err := rep.Write(); err != nil {
		t.Fatal(err)
	}
}
