package elastic

// Channel A for C10: transition-cover replay of specs/Elastic.tla on a real elastic.Buffer
// (which embeds elastic.RingBuffer).  Verdict oracle: the harness's own deque of stamped bytes.

import (
	"errors"
	"fmt"
	"io"
	"os"
	"runtime"
	"testing"

	"github.com/panjf2000/gnet/v2/internal/vsup"
	"github.com/panjf2000/gnet/v2/pkg/buffer/ring"
	rbPool "github.com/panjf2000/gnet/v2/pkg/pool/ringbuffer"
)

var errScripted = errors.New("scripted failure")

type elGhost struct {
	b     *Buffer
	q     *vsup.Fifo
	scale int
	rep   *vsup.Report
	g     *vsup.Graph
	path  []int
	step  int
	dead  bool
}

func (h *elGhost) labels() []string { return h.g.PathLabels(h.path[:h.step+1]) }
func (h *elGhost) viol(op, what, detail string) {
	h.rep.Violation("elastic/"+op+"/"+what, detail, h.labels())
	h.dead = true
}
func (h *elGhost) nonconf(op, what, detail string) {
	h.rep.Nonconformance("elastic/"+op+"/"+what, detail, h.labels())
}

func errClass(err error) string {
	switch {
	case err == nil:
		return "nil"
	case err == io.EOF:
		return "EOF"
	case err == io.ErrShortBuffer:
		return "ErrShortBuffer"
	case err == io.ErrShortWrite:
		return "ErrShortWrite"
	case err == ring.ErrIsEmpty:
		return "ErrIsEmpty"
	case err == errScripted:
		return "ERR"
	}
	return "other:" + err.Error()
}

type elReader struct {
	h      *elGhost
	script []any
	i      int
	given  []byte
}

func (r *elReader) Read(p []byte) (int, error) {
	kind, e := "zero", "EOF"
	if r.i < len(r.script) {
		kind, e = vsup.Answer(r.script[r.i])
		r.i++
	}
	m := vsup.Amount(kind, len(p), r.h.scale)
	d := r.h.q.Fresh(m)
	copy(p, d)
	r.given = append(r.given, d...)
	switch e {
	case "EOF":
		return m, io.EOF
	case "ERR":
		return m, errScripted
	}
	return m, nil
}

type elWriter struct {
	h      *elGhost
	script []any
	i      int
	taken  []byte
	shy    bool // it took less than it was offered, or failed, at least once
}

func (w *elWriter) Write(p []byte) (int, error) {
	kind, e := "full", "nil"
	if w.i < len(w.script) {
		kind, e = vsup.Answer(w.script[w.i])
		w.i++
	}
	m := vsup.Amount(kind, len(p), w.h.scale)
	if m < len(p) || e == "ERR" {
		w.shy = true
	}
	w.taken = append(w.taken, p[:m]...)
	if e == "ERR" {
		return m, errScripted
	}
	return m, nil
}

// prime makes the ring-buffer pool hand out a ring of capacity c to the next Get of this goroutine.
func prime(c int) {
	_ = rbPool.Get()
	rbPool.Put(ring.New(c))
}

func (h *elGhost) apply(e vsup.Edge, to vsup.State) {
	op := e.Action
	defer func() {
		if r := recover(); r != nil {
			h.viol(op, "panic", fmt.Sprint(r))
		}
	}()
	ret := vsup.Rec(to["ret"])
	b, q := h.b, h.q
	B := q.Len()
	sc := func(k int) int {
		if k <= 0 {
			return k
		}
		return k * h.scale
	}
	expN := func() int { return vsup.Int(ret["n"]) * h.scale }
	wasNil := b.ringBuffer.rb == nil
	switch op {
	case "Write":
		if b.ringBuffer.rb == nil {
			prime(vsup.Int(e.Args[1]) * h.scale)
		}
		p := q.Fresh(sc(vsup.Int(e.Args[0])))
		keep := append([]byte{}, p...)
		n, err := b.Write(p)
		if n != len(p) || err != nil {
			h.viol(op, "count", fmt.Sprintf("Write(%d) = %d,%v", len(p), n, err))
		}
		q.PushBack(keep)
		for i := range p {
			p[i] ^= 0xff
		}
	case "Writev":
		if b.ringBuffer.rb == nil {
			prime(vsup.Int(e.Args[1]) * h.scale)
		}
		var bs [][]byte
		total := 0
		for _, l := range vsup.Ints(e.Args[0]) {
			s := q.Fresh(l * h.scale)
			bs = append(bs, s)
			q.PushBack(s)
			total += len(s)
		}
		n, err := b.Writev(bs)
		if n != total || err != nil {
			h.viol(op, "count", fmt.Sprintf("Writev(%d bytes) = %d,%v", total, n, err))
		}
		for _, s := range bs {
			for i := range s {
				s[i] ^= 0xff
			}
		}
	case "ReadFrom":
		if b.ringBuffer.rb == nil {
			prime(vsup.Int(e.Args[1]) * h.scale)
		}
		rd := &elReader{h: h, script: vsup.Seq(e.Args[0])}
		n, err := b.ReadFrom(rd)
		q.PushBack(rd.given)
		if int(n) != len(rd.given) {
			h.viol(op, "count", fmt.Sprintf("ReadFrom reported %d, the reader supplied %d", n, len(rd.given)))
		}
		if int(n) != expN() || errClass(err) != vsup.Str(ret["err"]) {
			h.nonconf(op, "result", fmt.Sprintf("ReadFrom = %d,%s; model %d,%s", n, errClass(err), expN(), ret["err"]))
		}
	case "Read":
		k := sc(vsup.Int(e.Args[0]))
		if k < 0 {
			k = 0
		}
		p := make([]byte, k)
		n, err := b.Read(p)
		if n < 0 || n > k {
			h.viol(op, "count", fmt.Sprintf("Read(len %d) = %d", k, n))
			return
		}
		if i := q.IsPrefix(p[:n]); i >= 0 {
			h.viol(op, "content", fmt.Sprintf("Read(len %d) = %d: byte %d is not the next byte of the queue", k, n, i))
			return
		}
		q.Drop(n)
		if k > 0 && B > 0 && n == 0 {
			// (short reads are a Reader's right; nothing at all out of a buffer that holds bytes is not)
			h.viol(op, "stuck", fmt.Sprintf("Read(len %d) = 0,%s with %d bytes buffered", k, errClass(err), B))
			return
		}
		if n != expN() || errClass(err) != vsup.Str(ret["err"]) {
			h.nonconf(op, "result", fmt.Sprintf("Read(len %d) = %d,%s; model %d,%s", k, n, errClass(err), expN(), ret["err"]))
		}
	case "Peek":
		k := sc(vsup.Int(e.Args[0]))
		bs, err := b.Peek(k)
		want := B
		if k > 0 {
			want = k
		}
		if k > B {
			if err == nil {
				h.viol(op, "count", fmt.Sprintf("Peek(%d) succeeded with %d bytes buffered", k, B))
			}
			break
		}
		if err != nil {
			h.viol(op, "count", fmt.Sprintf("Peek(%d) = %v with %d bytes buffered", k, err, B))
			break
		}
		got := vsup.Join(bs)
		if len(got) != want || string(got) != string(q.Data[:want]) {
			h.viol(op, "content", fmt.Sprintf("Peek(%d) returned %d bytes (want the first %d of %d) or wrong bytes", k, len(got), want, B))
			break
		}
		var ls []int
		for _, s := range bs {
			if len(s) > 0 {
				ls = append(ls, len(s)/h.scale)
			}
		}
		if fmt.Sprint(ls) != fmt.Sprint(vsup.Ints(ret["parts"])) && !(len(ls) == 0 && len(vsup.Ints(ret["parts"])) == 0) {
			h.nonconf(op, "segments", fmt.Sprintf("Peek(%d) segments %v; model %v", k, ls, ret["parts"]))
		}
	case "Discard":
		k := sc(vsup.Int(e.Args[0]))
		n, _ := b.Discard(k)
		want := 0
		if k > 0 {
			want = k
			if B < k {
				want = B
			}
		}
		if n != want {
			h.viol(op, "count", fmt.Sprintf("Discard(%d) = %d with %d buffered", k, n, B))
			if n < 0 || n > B {
				return
			}
		}
		q.Drop(n)
	case "WriteTo":
		wr := &elWriter{h: h, script: vsup.Seq(e.Args[0])}
		n, err := b.WriteTo(wr)
		if int(n) != len(wr.taken) {
			h.viol(op, "count", fmt.Sprintf("WriteTo reported %d, the writer accepted %d", n, len(wr.taken)))
		}
		if i := q.IsPrefix(wr.taken); i >= 0 {
			h.viol(op, "content", fmt.Sprintf("WriteTo: byte %d handed to the writer is not the queue's", i))
			return
		}
		q.Drop(len(wr.taken))
		// a writer that takes whatever it is offered gets everything that is buffered
		if !wr.shy && B > 0 && (q.Len() != 0 || err != nil) {
			h.viol(op, "incomplete", fmt.Sprintf("WriteTo to a writer that accepts everything moved %d of %d buffered bytes (err %v)", len(wr.taken), B, err))
		}
		if int(n) != expN() || errClass(err) != vsup.Str(ret["err"]) {
			h.nonconf(op, "result", fmt.Sprintf("WriteTo = %d,%s; model %d,%s", n, errClass(err), expN(), ret["err"]))
		}
	case "Reset":
		b.Reset(vsup.Int(e.Args[0]) * h.scale)
		q.Reset()
	case "Release":
		hadRing := b.ringBuffer.rb != nil
		b.Release()
		q.Reset()
		if hadRing {
			// the ring went back to the pool: whoever takes it next (this goroutine, on this P) must find it empty
			r := rbPool.Get()
			if !r.IsEmpty() || r.Buffered() != 0 {
				h.viol(op, "dirty-ring", fmt.Sprintf("the ring handed back by Release comes out of the pool holding %d bytes", r.Buffered()))
				r.Reset()
			}
			rbPool.Put(r)
		}
	default:
		panic("unknown action " + op)
	}
	if wasNil && b.ringBuffer.rb != nil && vsup.Bool(to["alloc"]) &&
		b.ringBuffer.Cap() != vsup.Int(vsup.Rec(to["rb"])["size"])*h.scale && !h.dead {
		// the pool did not hand out the ring the model chose (sync.Pool is free to do so):
		// the rest of this path is not the model's behaviour; stop following it
		h.rep.AddInt("pool_misses", 1)
		h.dead = true
		return
	}
	h.post(op, to)
}

func (h *elGhost) post(op string, to vsup.State) {
	b, q := h.b, h.q
	if b.Buffered() != q.Len() {
		h.viol(op, "buffered", fmt.Sprintf("Buffered()=%d, queue holds %d bytes", b.Buffered(), q.Len()))
		return
	}
	if b.IsEmpty() != (q.Len() == 0) {
		h.viol(op, "isempty", fmt.Sprintf("IsEmpty()=%v with %d bytes queued", b.IsEmpty(), q.Len()))
	}
	bs, err := b.Peek(-1)
	if err != nil || !q.Equal(vsup.Join(bs)) {
		h.viol(op, "content", fmt.Sprintf("Peek(all) (%v, %d bytes) differs from the queue (%d bytes)", err, len(vsup.Join(bs)), q.Len()))
		return
	}
	// representation vs model (non-conformance only)
	mrb := vsup.Rec(to["rb"])
	malloc := vsup.Bool(to["alloc"])
	if (b.ringBuffer.rb != nil) != malloc {
		h.nonconf(op, "alloc", fmt.Sprintf("ring allocated=%v; model %v", b.ringBuffer.rb != nil, malloc))
		return
	}
	msum := 0
	for _, l := range vsup.Ints(to["segs"]) {
		msum += l * h.scale
	}
	if b.listBuffer.Buffered() != msum || b.listBuffer.Len() != len(vsup.Ints(to["segs"])) {
		h.nonconf(op, "list", fmt.Sprintf("list part %d bytes in %d segments; model %d in %v", b.listBuffer.Buffered(), b.listBuffer.Len(), msum, to["segs"]))
	}
	if malloc && b.ringBuffer.Cap() != vsup.Int(mrb["size"])*h.scale {
		h.nonconf(op, "ringcap", fmt.Sprintf("ring capacity %d; model %d", b.ringBuffer.Cap(), vsup.Int(mrb["size"])*h.scale))
	}
	if b.maxStaticBytes != vsup.Int(to["ms"])*h.scale {
		h.nonconf(op, "limit", fmt.Sprintf("maxStaticBytes %d; model %d", b.maxStaticBytes, vsup.Int(to["ms"])*h.scale))
	}
}

// aftermath: whatever state the path ended in, everything the buffer holds comes out through Read, in order, a few
// bytes at a time (destinations smaller than the segments, ending on and off their boundaries).
func (h *elGhost) aftermath() {
	h.step = len(h.path) - 1
	b, q := h.b, h.q
	defer func() {
		if r := recover(); r != nil {
			h.viol("Aftermath", "panic", fmt.Sprint(r))
		}
	}()
	sizes := []int{3 * h.scale, h.scale, 2 * h.scale}
	for i := 0; q.Len() > 0; i++ {
		p := make([]byte, sizes[i%len(sizes)])
		n, err := b.Read(p)
		if n == 0 {
			h.viol("Aftermath", "stuck", fmt.Sprintf("Read(len %d) = 0,%s with %d bytes still held", len(p), errClass(err), q.Len()))
			return
		}
		if j := q.IsPrefix(p[:n]); j >= 0 {
			h.viol("Aftermath", "content", fmt.Sprintf("Read(len %d) = %d: byte %d is not the next byte of the queue", len(p), n, j))
			return
		}
		q.Drop(n)
		if b.Buffered() != q.Len() {
			h.viol("Aftermath", "buffered", fmt.Sprintf("Buffered()=%d, queue holds %d bytes", b.Buffered(), q.Len()))
			return
		}
	}
	if !b.IsEmpty() {
		h.viol("Aftermath", "drain", "drained through Read, yet IsEmpty() is false")
	}
}

func TestVerifElasticCover(t *testing.T) {
	g, err := vsup.LoadGraph(os.Getenv("VERIF_GRAPH"))
	if err != nil {
		t.Fatal(err)
	}
	scale := vsup.EnvInt("VERIF_SCALE", 1)
	// one P: the ring-buffer pool's per-P private slot then makes priming deterministic
	defer runtime.GOMAXPROCS(runtime.GOMAXPROCS(1))
	rep := vsup.NewReport("elastic-cover")
	n := vsup.CoverReplay(g, vsup.EnvInt("VERIF_MAX_EDGES", 0), vsup.Seed(), func(path []int) {
		root := g.Node(g.Root(g.Edges[path[0]].From))
		b, err := New(vsup.Int(root["ms"]) * scale)
		if err != nil {
			panic(err)
		}
		h := &elGhost{b: b, q: vsup.NewFifo(13), scale: scale, rep: rep, g: g, path: path}
		for i, ei := range path {
			e := g.Edges[ei]
			if e.Action == "Norm" {
				continue
			}
			h.step = i
			h.apply(e, g.Node(e.To))
			if h.dead {
				break
			}
		}
		if !h.dead {
			h.aftermath()
		}
		b.Release()
		last := g.Edges[path[len(path)-1]]
		if last.Action != "Norm" {
			rep.Eval(fmt.Sprintf("%d|%s", last.From, g.EdgeLabel(path[len(path)-1])))
			if len(path) > 4 {
				rep.Sample(g.PathLabels(path))
			}
		}
	})
	rep.Set("edges_replayed", n)
	rep.Set("scale", scale)
	if err := rep.Write(); err != nil {
		t.Fatal(err)
	}
}
