package elastic

// C10, the elastic ring buffer on its own (the lazily allocated, pooled wrapper that holds a connection's inbound
// leftovers): every labelled edge of the TLC state graph of specs/Ring.tla -- the model of the ring it wraps -- is
// replayed on a real elastic.RingBuffer.  The wrapper allocates late and gives its ring back when it runs empty, so its
// representation is not the model's; what is compared is what the property speaks of: the bytes it yields, the counts
// it reports, Buffered / IsEmpty, and that nothing panics.

import (
	"fmt"
	"os"
	"testing"

	"github.com/panjf2000/gnet/v2/internal/vsup"
)

type erGhost struct {
	elGhost // q, scale, reporting (b is unused)
	rb      *RingBuffer
}

func (h *erGhost) apply(e vsup.Edge) {
	op := e.Action
	defer func() {
		if r := recover(); r != nil {
			h.viol(op, "panic", fmt.Sprintf("%v (buffered=%d)", r, h.q.Len()))
		}
	}()
	rb, q := h.rb, h.q
	B := q.Len()
	arg := func(i int) int { return vsup.Int(e.Args[i]) }
	sc := func(k int) int {
		if k <= 0 {
			return k
		}
		return k * h.scale
	}
	switch op {
	case "Write":
		p := q.Fresh(sc(arg(0)))
		n, err := rb.Write(p)
		if n != len(p) || err != nil {
			h.viol(op, "count", fmt.Sprintf("Write(%d) = %d, %v", len(p), n, err))
		}
		q.PushBack(p)
	case "WriteByte":
		p := q.Fresh(1)
		if err := rb.WriteByte(p[0]); err != nil {
			h.viol(op, "count", fmt.Sprintf("WriteByte: %v", err))
		}
		q.PushBack(p)
	case "Read":
		k := sc(arg(0))
		if k < 0 {
			k = 0
		}
		p := make([]byte, k)
		n, err := rb.Read(p)
		if n < 0 || n > k || n > B {
			h.viol(op, "count", fmt.Sprintf("Read(len %d) = %d with %d buffered", k, n, B))
			return
		}
		if i := q.IsPrefix(p[:n]); i >= 0 {
			h.viol(op, "content", fmt.Sprintf("Read(len %d) = %d: byte %d is not the next byte", k, n, i))
			return
		}
		q.Drop(n)
		if k > 0 && B > 0 && n == 0 {
			h.viol(op, "stuck", fmt.Sprintf("Read(len %d) = 0,%v with %d bytes buffered", k, err, B))
			return
		}
	case "ReadByte":
		c, err := rb.ReadByte()
		if err == nil {
			if B == 0 {
				h.viol(op, "count", "ReadByte succeeded on an empty buffer")
				return
			}
			if q.IsPrefix([]byte{c}) >= 0 {
				h.viol(op, "content", "ReadByte is not the next byte")
				return
			}
			q.Drop(1)
		} else if B > 0 {
			h.viol(op, "count", fmt.Sprintf("ReadByte failed (%v) with %d buffered", err, B))
			return
		}
	case "Peek":
		k := sc(arg(0))
		head, tail := rb.Peek(k)
		want := B
		if k > 0 && k < B {
			want = k
		}
		got := append(append([]byte{}, head...), tail...)
		if len(got) != want {
			h.viol(op, "count", fmt.Sprintf("Peek(%d) returned %d+%d bytes with %d buffered", k, len(head), len(tail), B))
			return
		}
		if i := q.IsPrefix(got); i >= 0 {
			h.viol(op, "content", fmt.Sprintf("Peek(%d): byte %d is not the next byte", k, i))
			return
		}
	case "Discard":
		k := sc(arg(0))
		n, err := rb.Discard(k)
		want := 0
		if k > 0 {
			want = k
			if B < k {
				want = B
			}
		}
		if n != want || (err != nil && B > 0) { // (the wrapper answers ErrIsEmpty when there is nothing to discard)
			h.viol(op, "count", fmt.Sprintf("Discard(%d) = %d,%v with %d buffered", k, n, err, B))
			return
		}
		q.Drop(n)
	case "Bytes":
	case "Reset":
		rb.Reset()
		q.Reset()
	case "ReadFrom":
		rd := &elReader{h: &h.elGhost, script: vsup.Seq(e.Args[0])}
		n, err := rb.ReadFrom(rd)
		_ = err
		q.PushBack(rd.given)
		if int(n) != len(rd.given) {
			h.viol(op, "count", fmt.Sprintf("ReadFrom reported %d, the reader supplied %d", n, len(rd.given)))
			return
		}
	case "WriteTo":
		wr := &elWriter{h: &h.elGhost, script: vsup.Seq(e.Args[0])}
		n, err := rb.WriteTo(wr)
		if int(n) != len(wr.taken) || len(wr.taken) > B {
			h.viol(op, "count", fmt.Sprintf("WriteTo reported %d, the writer accepted %d, %d were buffered", n, len(wr.taken), B))
			return
		}
		if i := q.IsPrefix(wr.taken); i >= 0 {
			h.viol(op, "content", fmt.Sprintf("WriteTo: byte %d handed to the writer is not the next byte", i))
			return
		}
		q.Drop(len(wr.taken))
		if !wr.shy && B > 0 && (len(wr.taken) != B || err != nil) {
			h.viol(op, "incomplete", fmt.Sprintf("WriteTo to a writer that accepts everything moved %d of %d buffered bytes (err %v)", len(wr.taken), B, err))
			return
		}
	default:
		panic("unknown action " + op)
	}
	// observers
	if rb.Buffered() != q.Len() {
		h.viol(op, "buffered", fmt.Sprintf("Buffered()=%d, queue holds %d bytes", rb.Buffered(), q.Len()))
		return
	}
	if rb.IsEmpty() != (q.Len() == 0) {
		h.viol(op, "isempty", fmt.Sprintf("IsEmpty()=%v with %d bytes", rb.IsEmpty(), q.Len()))
		return
	}
	if rb.Buffered()+rb.Available() != rb.Cap() {
		h.viol(op, "accounting", fmt.Sprintf("Buffered %d + Available %d != Cap %d", rb.Buffered(), rb.Available(), rb.Cap()))
		return
	}
	if bs := rb.Bytes(); !q.Equal(bs) {
		h.viol(op, "content", fmt.Sprintf("Bytes() has %d bytes, the queue %d (or they differ)", len(bs), q.Len()))
	}
}

func TestVerifElasticRingCover(t *testing.T) {
	g, err := vsup.LoadGraph(os.Getenv("VERIF_GRAPH"))
	if err != nil {
		t.Fatal(err)
	}
	scale := vsup.EnvInt("VERIF_SCALE", 1)
	rep := vsup.NewReport("elastic-ring-cover")
	n := vsup.CoverReplay(g, vsup.EnvInt("VERIF_MAX_EDGES", 0), vsup.Seed(), func(path []int) {
		// (the ring the wrapper will take from the pool has the capacity the model starts with; the rings of earlier
		// paths, grown by readers that fill whatever space they are offered, are not handed round)
		root := g.Node(g.Root(g.Edges[path[0]].From))
		prime(vsup.Int(root["size"]) * scale)
		h := &erGhost{rb: &RingBuffer{}}
		h.q, h.scale, h.rep, h.g, h.path = vsup.NewFifo(11), scale, rep, g, path
		for i, ei := range path {
			e := g.Edges[ei]
			if e.Action == "Norm" {
				continue
			}
			h.step = i
			h.apply(e)
			if h.dead {
				break
			}
		}
		last := g.Edges[path[len(path)-1]]
		if last.Action != "Norm" {
			rep.Eval(fmt.Sprintf("%d|%s", last.From, g.EdgeLabel(path[len(path)-1])))
		}
	})
	rep.Set("edges_replayed", n)
	rep.Set("scale", scale)
	if err := rep.Write(); err != nil {
		t.Fatal(err)
	}
}
