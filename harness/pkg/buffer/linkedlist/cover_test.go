package linkedlist

// Channel A for C11: transition-cover replay of specs/LList.tla on a real linkedlist.Buffer.
// Verdict oracle: the harness's own deque of stamped bytes.  Model disagreement on results or on
// the segment structure is non-conformance.

import (
	"errors"
	"fmt"
	"io"
	"os"
	"testing"

	"github.com/panjf2000/gnet/v2/internal/vsup"
)

var errScripted = errors.New("scripted failure")

type llGhost struct {
	b     *Buffer
	q     *vsup.Fifo
	scale int
	rep   *vsup.Report
	g     *vsup.Graph
	path  []int
	step  int
	dead  bool
}

func (h *llGhost) labels() []string { return h.g.PathLabels(h.path[:h.step+1]) }
func (h *llGhost) viol(op, what, detail string) {
	h.rep.Violation("llist/"+op+"/"+what, detail, h.labels())
	h.dead = true
}
func (h *llGhost) nonconf(op, what, detail string) {
	h.rep.Nonconformance("llist/"+op+"/"+what, detail, h.labels())
}

func errClass(err error) string {
	switch {
	case err == nil:
		return "nil"
	case err == io.EOF:
		return "EOF"
	case err == io.ErrShortBuffer:
		return "ErrShortBuffer"
	case err == io.ErrShortWrite:
		return "ErrShortWrite"
	case err == errScripted:
		return "ERR"
	}
	return "other:" + err.Error()
}

type llReader struct {
	h      *llGhost
	script []any
	i      int
	given  []byte
}

func (r *llReader) Read(p []byte) (int, error) {
	kind, e := "zero", "EOF"
	if r.i < len(r.script) {
		kind, e = vsup.Answer(r.script[r.i])
		r.i++
	}
	m := vsup.Amount(kind, len(p), r.h.scale)
	d := r.h.q.Fresh(m)
	copy(p, d)
	r.given = append(r.given, d...)
	switch e {
	case "EOF":
		return m, io.EOF
	case "ERR":
		return m, errScripted
	}
	return m, nil
}

type llWriter struct {
	h      *llGhost
	script []any
	i      int
	taken  []byte
	shy    bool // it took less than it was offered, or failed, at least once
}

func (w *llWriter) Write(p []byte) (int, error) {
	kind, e := "full", "nil"
	if w.i < len(w.script) {
		kind, e = vsup.Answer(w.script[w.i])
		w.i++
	}
	m := vsup.Amount(kind, len(p), w.h.scale)
	w.taken = append(w.taken, p[:m]...)
	if m < len(p) || e == "ERR" {
		w.shy = true
	}
	if e == "ERR" {
		return m, errScripted
	}
	return m, nil
}

func lens(bs [][]byte) []int {
	out := make([]int, len(bs))
	for i, b := range bs {
		out[i] = len(b)
	}
	return out
}

func (h *llGhost) scaled(v any) []int {
	xs := vsup.Ints(v)
	for i := range xs {
		xs[i] *= h.scale
	}
	return xs
}

func (h *llGhost) apply(e vsup.Edge, to vsup.State) {
	op := e.Action
	defer func() {
		if r := recover(); r != nil {
			h.viol(op, "panic", fmt.Sprint(r))
		}
	}()
	ret := vsup.Rec(to["ret"])
	b, q := h.b, h.q
	B := q.Len()
	sc := func(k int) int {
		if k <= 0 {
			return k
		}
		return k * h.scale
	}
	arg := func(i int) int { return vsup.Int(e.Args[i]) }
	switch op {
	case "PushBack", "PushFront", "AppendNoCopy":
		p := q.Fresh(sc(arg(0)))
		keep := append([]byte{}, p...)
		switch op {
		case "PushBack":
			b.PushBack(p)
			q.PushBack(keep)
		case "PushFront":
			b.PushFront(p)
			q.PushFront(keep)
		default:
			b.Append(p)
			q.PushBack(keep)
		}
		if op != "AppendNoCopy" { // the caller may reuse its slice after PushBack/PushFront
			for i := range p {
				p[i] ^= 0xff
			}
		}
	case "Pop":
		p := b.Pop()
		if p == nil {
			if B != 0 {
				h.viol(op, "count", fmt.Sprintf("Pop returned nil with %d bytes queued", B))
			}
			break
		}
		if i := q.IsPrefix(p); i >= 0 || len(p) == 0 {
			h.viol(op, "content", fmt.Sprintf("Pop returned %d bytes, byte %d is not the queue's", len(p), i))
			return
		}
		q.Drop(len(p))
		if len(p) != vsup.Int(ret["n"])*h.scale {
			h.nonconf(op, "result", fmt.Sprintf("Pop returned %d bytes; model %d", len(p), vsup.Int(ret["n"])*h.scale))
		}
	case "Read":
		k := sc(arg(0))
		if k < 0 {
			k = 0
		}
		p := make([]byte, k)
		n, err := b.Read(p)
		if n < 0 || n > k {
			h.viol(op, "count", fmt.Sprintf("Read(len %d) = %d", k, n))
			return
		}
		if i := q.IsPrefix(p[:n]); i >= 0 {
			h.viol(op, "content", fmt.Sprintf("Read(len %d) = %d: byte %d is not the queue's", k, n, i))
			return
		}
		q.Drop(n)
		if n != vsup.Int(ret["n"])*h.scale || errClass(err) != vsup.Str(ret["err"]) {
			h.nonconf(op, "result", fmt.Sprintf("Read(len %d) = %d,%s; model %d,%s", k, n, errClass(err), vsup.Int(ret["n"])*h.scale, ret["err"]))
		}
	case "Peek", "PeekWithBytes":
		k := sc(arg(0))
		var bs [][]byte
		var err error
		var extra []byte
		if op == "Peek" {
			bs, err = b.Peek(k)
		} else {
			var ex [][]byte
			for _, l := range h.scaled(e.Args[1]) {
				s := q.Fresh(l) // fresh bytes that are not part of the queue
				ex = append(ex, s)
				extra = append(extra, s...)
			}
			bs, err = b.PeekWithBytes(k, ex...)
		}
		avail := len(extra) + B
		want := avail
		if k > 0 {
			want = k
		}
		if k > avail {
			if err == nil {
				h.viol(op, "count", fmt.Sprintf("%s(%d) succeeded with only %d bytes available", op, k, avail))
			}
			break
		}
		if err != nil {
			h.viol(op, "count", fmt.Sprintf("%s(%d) = %v with %d bytes available (%d extra + %d queued)", op, k, err, avail, len(extra), B))
			break
		}
		got := vsup.Join(bs)
		exp := append(append([]byte{}, extra...), q.Data...)[:want]
		if len(got) != want || string(got) != string(exp) {
			h.viol(op, "content", fmt.Sprintf("%s(%d) returned %d bytes (want %d) or wrong bytes", op, k, len(got), want))
			break
		}
		if fmt.Sprint(lens(bs)) != fmt.Sprint(h.scaled(ret["parts"])) {
			h.nonconf(op, "segments", fmt.Sprintf("%s(%d) segments %v; model %v", op, k, lens(bs), h.scaled(ret["parts"])))
		}
	case "Discard":
		k := sc(arg(0))
		n, err := b.Discard(k)
		want := 0
		if k > 0 {
			want = k
			if B < k {
				want = B
			}
		}
		if n != want || err != nil {
			h.viol(op, "count", fmt.Sprintf("Discard(%d) = %d,%v with %d queued", k, n, err, B))
			if n < 0 || n > B {
				return
			}
		}
		q.Drop(n)
	case "ReadFrom":
		rd := &llReader{h: h, script: vsup.Seq(e.Args[0])}
		n, err := b.ReadFrom(rd)
		q.PushBack(rd.given)
		if int(n) != len(rd.given) {
			h.viol(op, "count", fmt.Sprintf("ReadFrom reported %d, the reader supplied %d", n, len(rd.given)))
		}
		if int(n) != vsup.Int(ret["n"])*h.scale || errClass(err) != vsup.Str(ret["err"]) {
			h.nonconf(op, "result", fmt.Sprintf("ReadFrom = %d,%s; model %d,%s", n, errClass(err), vsup.Int(ret["n"])*h.scale, ret["err"]))
		}
	case "WriteTo":
		wr := &llWriter{h: h, script: vsup.Seq(e.Args[0])}
		n, err := b.WriteTo(wr)
		if int(n) != len(wr.taken) {
			h.viol(op, "count", fmt.Sprintf("WriteTo reported %d, the writer accepted %d", n, len(wr.taken)))
		}
		if i := q.IsPrefix(wr.taken); i >= 0 {
			h.viol(op, "content", fmt.Sprintf("WriteTo: byte %d handed to the writer is not the queue's", i))
			return
		}
		if B := q.Len(); !wr.shy && B > 0 && (len(wr.taken) != B || err != nil) {
			h.viol(op, "incomplete", fmt.Sprintf("WriteTo to a writer that accepts everything moved %d of %d buffered bytes (err %v)", len(wr.taken), B, err))
		}
		q.Drop(len(wr.taken))
		if int(n) != vsup.Int(ret["n"])*h.scale || errClass(err) != vsup.Str(ret["err"]) {
			h.nonconf(op, "result", fmt.Sprintf("WriteTo = %d,%s; model %d,%s", n, errClass(err), vsup.Int(ret["n"])*h.scale, ret["err"]))
		}
	case "Reset":
		b.Reset()
		q.Reset()
	default:
		panic("unknown action " + op)
	}
	h.post(op, to)
}

func (h *llGhost) post(op string, to vsup.State) {
	b, q := h.b, h.q
	if b.Buffered() != q.Len() {
		h.viol(op, "buffered", fmt.Sprintf("Buffered()=%d, queue holds %d bytes", b.Buffered(), q.Len()))
		return
	}
	if b.IsEmpty() != (q.Len() == 0) {
		h.viol(op, "isempty", fmt.Sprintf("IsEmpty()=%v with %d bytes queued", b.IsEmpty(), q.Len()))
	}
	var segLens []int
	var all []byte
	for it := b.head; it != nil; it = it.next {
		segLens = append(segLens, len(it.buf))
		all = append(all, it.buf...)
	}
	if b.Len() != len(segLens) {
		h.viol(op, "len", fmt.Sprintf("Len()=%d, the list has %d segments", b.Len(), len(segLens)))
	}
	if !q.Equal(all) {
		h.viol(op, "content", fmt.Sprintf("list content (%d bytes) differs from the queue (%d bytes)", len(all), q.Len()))
		return
	}
	if bs, err := b.Peek(-1); err != nil || !q.Equal(vsup.Join(bs)) {
		h.viol(op, "content", fmt.Sprintf("Peek(-1) (%v) differs from the queue", err))
	}
	if want := h.scaled(to["segs"]); fmt.Sprint(want) != fmt.Sprint(segLens) && !(len(want) == 0 && len(segLens) == 0) {
		h.nonconf(op, "segments", fmt.Sprintf("segments %v; model %v", segLens, want))
	}
}

// aftermath: whatever state the path ended in, everything the list holds comes out through Read, in order, a few
// bytes at a time (destinations that end inside segments and exactly on their boundaries).
func (h *llGhost) aftermath() {
	h.step = len(h.path) - 1
	b, q := h.b, h.q
	defer func() {
		if r := recover(); r != nil {
			h.viol("Aftermath", "panic", fmt.Sprint(r))
		}
	}()
	sizes := []int{h.scale, 3 * h.scale, 2 * h.scale}
	for i := 0; q.Len() > 0; i++ {
		p := make([]byte, sizes[i%len(sizes)])
		n, err := b.Read(p)
		if n == 0 {
			h.viol("Aftermath", "stuck", fmt.Sprintf("Read(len %d) = 0,%v with %d bytes still held", len(p), err, q.Len()))
			return
		}
		if j := q.IsPrefix(p[:n]); j >= 0 {
			h.viol("Aftermath", "content", fmt.Sprintf("Read(len %d) = %d: byte %d is not the next byte of the queue", len(p), n, j))
			return
		}
		q.Drop(n)
		if b.Buffered() != q.Len() {
			h.viol("Aftermath", "buffered", fmt.Sprintf("Buffered()=%d, queue holds %d bytes", b.Buffered(), q.Len()))
			return
		}
	}
	if !b.IsEmpty() || b.Len() != 0 {
		h.viol("Aftermath", "drain", fmt.Sprintf("drained through Read, yet IsEmpty() %v, Len() %d", b.IsEmpty(), b.Len()))
	}
}

func TestVerifLListCover(t *testing.T) {
	g, err := vsup.LoadGraph(os.Getenv("VERIF_GRAPH"))
	if err != nil {
		t.Fatal(err)
	}
	scale := vsup.EnvInt("VERIF_SCALE", 1)
	rep := vsup.NewReport("llist-cover")
	n := vsup.CoverReplay(g, vsup.EnvInt("VERIF_MAX_EDGES", 0), vsup.Seed(), func(path []int) {
		h := &llGhost{b: &Buffer{}, q: vsup.NewFifo(11), scale: scale, rep: rep, g: g, path: path}
		for i, ei := range path {
			e := g.Edges[ei]
			if e.Action == "Norm" {
				continue
			}
			h.step = i
			h.apply(e, g.Node(e.To))
			if h.dead {
				break
			}
		}
		if !h.dead {
			h.aftermath()
		}
		last := g.Edges[path[len(path)-1]]
		if last.Action != "Norm" {
			rep.Eval(fmt.Sprintf("%d|%s", last.From, g.EdgeLabel(path[len(path)-1])))
			if len(path) > 4 {
				rep.Sample(g.PathLabels(path))
			}
		}
	})
	rep.Set("edges_replayed", n)
	rep.Set("scale", scale)
	if err := rep.Write(); err != nil {
		t.Fatal(err)
	}
}
