package ring

// Channel A for C09: every labelled edge of the TLC state graph of specs/Ring.tla is replayed
// on a real ring.Buffer (BFS path to the edge's source state, then the edge).  The verdict
// oracle is the abstract FIFO of a position-stamped stream kept by the harness itself;
// disagreement with the model's representation (size, r, w, isEmpty, result) is reported
// as non-conformance only.

import (
	"errors"
	"fmt"
	"io"
	"os"
	"testing"

	"github.com/panjf2000/gnet/v2/internal/vsup"
)

const ringStream = 7

type ringGhost struct {
	rb         *Buffer
	rpos, wpos int // content is stream[rpos:wpos)
	scale      int
	rep        *vsup.Report
	g          *vsup.Graph
	path       []int
	step       int
	dead       bool // a violation was reported on this path; stop
}

func (h *ringGhost) labels() []string { return h.g.PathLabels(h.path[:h.step+1]) }

func (h *ringGhost) viol(op, what, detail string) {
	h.rep.Violation("ring/"+op+"/"+what, detail, h.labels())
	h.dead = true
}

func (h *ringGhost) nonconf(op, what, detail string) {
	h.rep.Nonconformance("ring/"+op+"/"+what, detail, h.labels())
}

type scriptReader struct {
	h      *ringGhost
	script []any
	i      int
	given  int
}

func (r *scriptReader) Read(p []byte) (int, error) {
	kind, e := "zero", "EOF"
	if r.i < len(r.script) {
		a := vsup.Seq(r.script[r.i])
		kind, e = vsup.Str(a[0]), vsup.Str(a[1])
		r.i++
	}
	m := 0
	switch kind {
	case "one":
		m = r.h.scale
		if m > len(p) {
			m = len(p)
		}
	case "half":
		m = len(p) / 2
	case "full":
		m = len(p)
	}
	vsup.Fill(p[:m], ringStream, r.h.wpos+r.given)
	r.given += m
	switch e {
	case "EOF":
		return m, io.EOF
	case "ERR":
		return m, errScripted
	}
	return m, nil
}

var errScripted = errors.New("scripted failure")

type scriptWriter struct {
	h      *ringGhost
	script []any
	i      int
	taken  int
	bad    string
	shy    bool // it took less than it was offered, or failed, at least once
}

func (w *scriptWriter) Write(p []byte) (int, error) {
	kind, e := "full", "nil"
	if w.i < len(w.script) {
		a := vsup.Seq(w.script[w.i])
		kind, e = vsup.Str(a[0]), vsup.Str(a[1])
		w.i++
	}
	m := len(p)
	switch kind {
	case "zero":
		m = 0
	case "one":
		if m > w.h.scale {
			m = w.h.scale
		}
	case "half":
		m = len(p) / 2
	}
	if k := vsup.Match(p[:m], ringStream, w.h.rpos+w.taken); k >= 0 && w.bad == "" {
		w.bad = fmt.Sprintf("byte %d handed to the writer differs from stream position %d", k, w.h.rpos+w.taken+k)
	}
	w.taken += m
	if m < len(p) || e == "ERR" {
		w.shy = true
	}
	if e == "ERR" {
		return m, errScripted
	}
	return m, nil
}

func errClass(err error) string {
	switch {
	case err == nil:
		return "nil"
	case err == ErrIsEmpty:
		return "ErrIsEmpty"
	case err == io.ErrShortWrite:
		return "ErrShortWrite"
	case err == errScripted:
		return "ERR"
	}
	return "other:" + err.Error()
}

// apply executes one edge; returns false when the path must stop.
func (h *ringGhost) apply(e vsup.Edge, to vsup.State) {
	op := e.Action
	defer func() {
		if r := recover(); r != nil {
			h.viol(op, "panic", fmt.Sprintf("%v (buffered=%d cap=%d)", r, h.wpos-h.rpos, h.rb.size))
		}
	}()
	ret := vsup.Rec(to["ret"])
	rb := h.rb
	B := h.wpos - h.rpos
	arg := func(i int) int { return vsup.Int(e.Args[i]) }
	sc := func(k int) int { // scale a size argument; non-positive values keep their meaning
		if k <= 0 {
			return k
		}
		return k * h.scale
	}
	expN := func() int { return vsup.Int(ret["n"]) * h.scale }
	switch op {
	case "Write":
		p := make([]byte, sc(arg(0)))
		vsup.Fill(p, ringStream, h.wpos)
		n, err := rb.Write(p)
		if n != len(p) || err != nil {
			h.viol(op, "count", fmt.Sprintf("Write(%d) = %d, %v", len(p), n, err))
		}
		h.wpos += len(p)
	case "WriteByte":
		if err := rb.WriteByte(vsup.Stamp(ringStream, h.wpos)); err != nil {
			h.viol(op, "count", fmt.Sprintf("WriteByte: %v", err))
		}
		h.wpos++
	case "Read":
		k := sc(arg(0))
		if k < 0 {
			k = 0
		}
		p := make([]byte, k)
		n, err := rb.Read(p)
		if n < 0 || n > len(p) || n > B {
			h.viol(op, "count", fmt.Sprintf("Read(len %d) = %d with %d buffered", k, n, B))
			return
		}
		if i := vsup.Match(p[:n], ringStream, h.rpos); i >= 0 {
			h.viol(op, "content", fmt.Sprintf("Read(len %d): byte %d differs from stream position %d", k, i, h.rpos+i))
		}
		h.rpos += n
		if n != expN() || errClass(err) != vsup.Str(ret["err"]) {
			h.nonconf(op, "result", fmt.Sprintf("Read(len %d) = %d,%s; model %d,%s", k, n, errClass(err), expN(), ret["err"]))
		}
	case "ReadByte":
		b, err := rb.ReadByte()
		if err == nil {
			if B == 0 {
				h.viol(op, "count", "ReadByte succeeded on an empty buffer")
				return
			}
			if b != vsup.Stamp(ringStream, h.rpos) {
				h.viol(op, "content", fmt.Sprintf("ReadByte differs from stream position %d", h.rpos))
			}
			h.rpos++
		} else if B > 0 {
			h.viol(op, "count", fmt.Sprintf("ReadByte failed (%v) with %d buffered", err, B))
		}
	case "Peek":
		k := sc(arg(0))
		head, tail := rb.Peek(k)
		want := B
		if k > 0 && k < B {
			want = k
		}
		if len(head)+len(tail) != want {
			h.viol(op, "count", fmt.Sprintf("Peek(%d) returned %d+%d bytes with %d buffered", k, len(head), len(tail), B))
			return
		}
		if i := vsup.Match(head, ringStream, h.rpos); i >= 0 {
			h.viol(op, "content", fmt.Sprintf("Peek(%d): head byte %d differs from stream position %d", k, i, h.rpos+i))
		}
		if i := vsup.Match(tail, ringStream, h.rpos+len(head)); i >= 0 {
			h.viol(op, "content", fmt.Sprintf("Peek(%d): tail byte %d differs from stream position %d", k, i, h.rpos+len(head)+i))
		}
		if len(head) != vsup.Int(ret["hl"])*h.scale {
			h.nonconf(op, "split", fmt.Sprintf("Peek(%d) split %d+%d; model %d+%d", k, len(head), len(tail), vsup.Int(ret["hl"])*h.scale, vsup.Int(ret["tl"])*h.scale))
		}
	case "Discard":
		k := sc(arg(0))
		n, err := rb.Discard(k)
		want := 0
		if k > 0 {
			want = k
			if B < k {
				want = B
			}
		}
		if n != want || err != nil {
			h.viol(op, "count", fmt.Sprintf("Discard(%d) = %d,%v with %d buffered", k, n, err, B))
			if n < 0 || n > B {
				return
			}
		}
		h.rpos += n
	case "Bytes":
		// checked by the common post-condition below
	case "Reset":
		rb.Reset()
		h.rpos = h.wpos
	case "ReadFrom":
		rd := &scriptReader{h: h, script: vsup.Seq(e.Args[0])}
		n, err := rb.ReadFrom(rd)
		if int(n) != rd.given {
			h.viol(op, "count", fmt.Sprintf("ReadFrom reported %d, the reader supplied %d", n, rd.given))
		}
		h.wpos += rd.given
		if int(n) != expN() || errClass(err) != vsup.Str(ret["err"]) {
			h.nonconf(op, "result", fmt.Sprintf("ReadFrom = %d,%s; model %d,%s", n, errClass(err), expN(), ret["err"]))
		}
	case "WriteTo":
		wr := &scriptWriter{h: h, script: vsup.Seq(e.Args[0])}
		n, err := rb.WriteTo(wr)
		if wr.bad != "" {
			h.viol(op, "content", wr.bad)
		}
		if int(n) != wr.taken {
			h.viol(op, "count", fmt.Sprintf("WriteTo reported %d, the writer accepted %d", n, wr.taken))
		}
		if wr.taken > B {
			h.viol(op, "count", fmt.Sprintf("WriteTo moved %d bytes with %d buffered", wr.taken, B))
			return
		}
		h.rpos += wr.taken
		// a writer that takes whatever it is offered gets everything that is buffered
		if !wr.shy && B > 0 && (wr.taken != B || err != nil) {
			h.viol(op, "incomplete", fmt.Sprintf("WriteTo to a writer that accepts everything moved %d of %d buffered bytes (err %v)", wr.taken, B, err))
		}
		if int(n) != expN() || errClass(err) != vsup.Str(ret["err"]) {
			h.nonconf(op, "result", fmt.Sprintf("WriteTo = %d,%s; model %d,%s", n, errClass(err), expN(), ret["err"]))
		}
	default:
		panic("unknown action " + op)
	}
	h.post(op, to)
}

// post checks the observers against the harness's own FIFO and the representation against the model.
func (h *ringGhost) post(op string, to vsup.State) {
	rb := h.rb
	B := h.wpos - h.rpos
	if rb.Buffered() != B {
		h.viol(op, "buffered", fmt.Sprintf("Buffered()=%d, content has %d bytes", rb.Buffered(), B))
		return
	}
	if rb.Buffered()+rb.Available() != rb.Cap() {
		h.viol(op, "accounting", fmt.Sprintf("Buffered %d + Available %d != Cap %d", rb.Buffered(), rb.Available(), rb.Cap()))
	}
	if rb.IsEmpty() != (B == 0) {
		h.viol(op, "isempty", fmt.Sprintf("IsEmpty()=%v with %d bytes of content", rb.IsEmpty(), B))
	}
	if rb.IsFull() != (rb.Cap() > 0 && B == rb.Cap()) {
		h.viol(op, "isfull", fmt.Sprintf("IsFull()=%v with %d bytes of content, Cap %d", rb.IsFull(), B, rb.Cap()))
	}
	bs := rb.Bytes()
	if len(bs) != B {
		h.viol(op, "content", fmt.Sprintf("Bytes() has %d bytes, content has %d", len(bs), B))
	} else if i := vsup.Match(bs, ringStream, h.rpos); i >= 0 {
		h.viol(op, "content", fmt.Sprintf("Bytes()[%d] differs from stream position %d", i, h.rpos+i))
	}
	ms, mr, mw, me := vsup.Int(to["size"])*h.scale, vsup.Int(to["r"])*h.scale, vsup.Int(to["w"])*h.scale, vsup.Bool(to["empty"])
	if rb.size != ms || rb.r != mr || rb.w != mw || rb.isEmpty != me {
		h.nonconf(op, "representation", fmt.Sprintf("(size,r,w,empty)=(%d,%d,%d,%v); model (%d,%d,%d,%v)", rb.size, rb.r, rb.w, rb.isEmpty, ms, mr, mw, me))
	}
}

// aftermath: whatever state the path ended in, the buffer can be filled to exactly its capacity (no growth) and then
// hands everything back byte by byte, in order -- the follow-ups that expose a state that merely looks right
// (a cursor left one past the end, a full buffer that takes itself for an empty one).
func (h *ringGhost) aftermath() {
	h.step = len(h.path) - 1
	rb := h.rb
	defer func() {
		if r := recover(); r != nil {
			h.viol("Aftermath", "panic", fmt.Sprint(r))
		}
	}()
	capBefore := rb.Cap()
	if free := rb.Available(); free > 0 && capBefore > 0 {
		fill := make([]byte, free)
		vsup.Fill(fill, ringStream, h.wpos)
		if n, err := rb.Write(fill); n != free || err != nil {
			h.viol("Aftermath", "fill", fmt.Sprintf("Write(%d bytes = Available) = %d, %v", free, n, err))
			return
		}
		h.wpos += free
		if rb.Cap() != capBefore || !rb.IsFull() || rb.Buffered() != capBefore {
			h.viol("Aftermath", "fill", fmt.Sprintf("after writing exactly Available()=%d bytes: Cap %d (was %d), IsFull %v, Buffered %d", free, rb.Cap(), capBefore, rb.IsFull(), rb.Buffered()))
			return
		}
	}
	for h.rpos < h.wpos {
		b, err := rb.ReadByte()
		if err != nil {
			h.viol("Aftermath", "drain", fmt.Sprintf("ReadByte fails (%v) with %d bytes of content left", err, h.wpos-h.rpos))
			return
		}
		if vsup.Match([]byte{b}, ringStream, h.rpos) >= 0 {
			h.viol("Aftermath", "content", fmt.Sprintf("ReadByte differs from stream position %d", h.rpos))
			return
		}
		h.rpos++
	}
	if !rb.IsEmpty() || rb.Buffered() != 0 {
		h.viol("Aftermath", "drain", fmt.Sprintf("drained, yet IsEmpty %v Buffered %d", rb.IsEmpty(), rb.Buffered()))
	}
}

func TestVerifRingCover(t *testing.T) {
	g, err := vsup.LoadGraph(os.Getenv("VERIF_GRAPH"))
	if err != nil {
		t.Fatal(err)
	}
	scale := vsup.EnvInt("VERIF_SCALE", 1)
	rep := vsup.NewReport("ring-cover")
	n := vsup.CoverReplay(g, vsup.EnvInt("VERIF_MAX_EDGES", 0), vsup.Seed(), func(path []int) {
		root := g.Node(g.Root(g.Edges[path[0]].From))
		h := &ringGhost{rb: New(vsup.Int(root["size"]) * scale), scale: scale, rep: rep, g: g, path: path}
		for i, ei := range path {
			e := g.Edges[ei]
			if e.Action == "Norm" {
				continue
			}
			h.step = i
			h.apply(e, g.Node(e.To))
			if h.dead {
				break
			}
		}
		if !h.dead {
			h.aftermath()
		}
		last := g.Edges[path[len(path)-1]]
		if last.Action != "Norm" {
			rep.Eval(fmt.Sprintf("%d|%s", last.From, g.EdgeLabel(path[len(path)-1])))
			if len(path) > 4 {
				rep.Sample(g.PathLabels(path))
			}
		}
	})
	rep.Set("edges_replayed", n)
	rep.Set("graph_nodes", len(g.Raw))
	rep.Set("graph_edges", len(g.Edges))
	rep.Set("scale", scale)
	if err := rep.Write(); err != nil {
		t.Fatal(err)
	}
}
