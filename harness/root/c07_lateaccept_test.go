package gnet

// C07 / C06: a connection arrives while the engine is already stopping and the loop that owns the listener is still
// busy inside a callback, the application holds a duplicate of the listener (DupListener, the hand-over use case:
// the listening socket stays alive whatever the engine does with its own descriptor), and other parts of the
// process keep opening descriptors (listening sockets with a connection waiting, so that an accept4 on a number the
// engine no longer owns takes a connection that is not its own).  Until the loops have exited the listener is
// theirs; once it is closed nothing may be accepted on its number any more.

import (
	"context"
	"fmt"
	"os"
	"path/filepath"
	"sync/atomic"
	"testing"
	"time"

	"github.com/panjf2000/gnet/v2/internal/vhook"
	"github.com/panjf2000/gnet/v2/internal/vsup"
	"golang.org/x/sys/unix"
)

type lnCanary struct {
	lfd, cfd int
	ino      uint64
}

func openLnCanary(rec *recorder) (lc lnCanary, ok bool) {
	lfd, err := unix.Socket(unix.AF_INET, unix.SOCK_STREAM|unix.SOCK_NONBLOCK|unix.SOCK_CLOEXEC, 0)
	if err != nil {
		return lc, false
	}
	rec.emit("ForeignOpen", "fd", lfd)
	if err = unix.Bind(lfd, &unix.SockaddrInet4{Addr: [4]byte{127, 0, 0, 1}}); err == nil {
		err = unix.Listen(lfd, 4)
	}
	sa, _ := unix.Getsockname(lfd)
	cfd, err2 := unix.Socket(unix.AF_INET, unix.SOCK_STREAM|unix.SOCK_CLOEXEC, 0)
	if err != nil || err2 != nil || sa == nil {
		rec.emit("ForeignClose", "fd", lfd)
		_ = unix.Close(lfd)
		if err2 == nil {
			_ = unix.Close(cfd)
		}
		return lc, false
	}
	rec.emit("ForeignOpen", "fd", cfd)
	if err = unix.Connect(cfd, sa); err != nil {
		rec.emit("ForeignClose", "fd", lfd)
		rec.emit("ForeignClose", "fd", cfd)
		_ = unix.Close(lfd)
		_ = unix.Close(cfd)
		return lc, false
	}
	var st unix.Stat_t
	_ = unix.Fstat(lfd, &st)
	return lnCanary{lfd, cfd, st.Ino}, true
}

func (lc lnCanary) check(rec *recorder) {
	var st unix.Stat_t
	if err := unix.Fstat(lc.lfd, &st); err != nil || st.Ino != lc.ino {
		rec.emit("ForeignBroken", "fd", lc.lfd, "why", "identity")
	} else if nfd, _, err := unix.Accept4(lc.lfd, unix.SOCK_NONBLOCK|unix.SOCK_CLOEXEC); err != nil {
		rec.emit("ForeignBroken", "fd", lc.lfd, "why", "the connection waiting on it was taken: "+err.Error())
	} else {
		_ = unix.Close(nfd)
	}
	rec.emit("ForeignClose", "fd", lc.lfd)
	_ = unix.Close(lc.lfd)
	rec.emit("ForeignClose", "fd", lc.cfd)
	_ = unix.Close(lc.cfd)
}

func runLateAccept(t *testing.T, rec *recorder, reuseport bool, loops int, via string, seed uint64, scratch string, rep *vsup.Report) {
	cfg := &sysCfg{name: "lateaccept", network: "tcp", loops: loops, reuseport: reuseport, readCap: 2048, writeCap: 4096, stopSrc: via}
	rec.emit("Reset", "cfg", "lateaccept "+cfg.String(), "et", false, "loops", loops, "reuseport", reuseport, "ticker", false, "seed", int(seed%1000000))
	h := &vhandler{rec: rec, cfg: cfg, booted: make(chan struct{}), parkConn: 1, parkReached: make(chan struct{}), parkRelease: make(chan struct{})}
	dial := fmt.Sprintf("127.0.0.1:%d", freePort())
	addr := "tcp://" + dial
	runErr := make(chan error, 1)
	go func() {
		err := Run(h, addr, WithNumEventLoop(loops), WithReusePort(reuseport), WithLogger(nullLogger{}), WithReadBufferCap(cfg.readCap), WithWriteBufferCap(cfg.writeCap))
		rec.emit("RunRet", "err", errClass(err))
		runErr <- err
	}()
	select {
	case <-h.booted:
	case <-time.After(10 * time.Second):
		t.Fatalf("engine did not boot")
	}
	time.Sleep(20 * time.Millisecond)
	released := false
	release := func() {
		if !released {
			released = true
			close(h.parkRelease)
		}
	}
	defer release()
	// the application's own handle on the listening socket
	if fd, err := h.eng.DupListener("tcp", dial); err == nil {
		rec.emit("UserDup", "fd", fd, "c", 0)
		h.dupMu.Lock()
		h.userDups = append(h.userDups, fd)
		h.dupMu.Unlock()
	} else {
		rec.emit("Note", "what", "DupListener failed: "+err.Error())
	}
	var trig int32
	logGate := rec.gateFunc()
	vhook.SetGate(func(site string, obj any, a int) {
		logGate(site, obj, a)
		if site == "eng.triggered" {
			atomic.AddInt32(&trig, 1)
		}
	})
	mk := func(id, n int) *peerSpec {
		return &peerSpec{id: id, seed: seed + uint64(id), network: "tcp", total: n, segs: []int{n}, done: make(chan struct{}), openOut: -1, closeAt: -1,
			closeHow: "action", peerRead: "normal", consume: "all", reply: "none", shut: "abandon"}
	}
	sp1 := mk(1, 64)
	go runPeer(rec, h, sp1, dial, scratch, rep)
	select {
	case <-h.parkReached:
		rec.emit("Note", "what", "loop parked inside OnTraffic")
	case <-time.After(5 * time.Second):
		rec.emit("Note", "what", "loop not parked")
	}
	g := vsup.Goid()
	rec.emit("StopReq", "src", via, "g", g)
	go func() {
		var err error
		if via == "Stop" {
			err = Stop(context.Background(), addr)
		} else {
			ctx, cancel := context.WithTimeout(context.Background(), 20*time.Second)
			err = h.eng.Stop(ctx)
			cancel()
		}
		rec.emit("StopRet", "err", errClass(err))
	}()
	// until every loop has been sent its exit signal (the parked one cannot take it yet)
	deadline := time.Now().Add(2 * time.Second)
	for int(atomic.LoadInt32(&trig)) < loops && time.Now().Before(deadline) {
		time.Sleep(time.Millisecond)
	}
	time.Sleep(20 * time.Millisecond)
	// the rest of the process opens descriptors: the lowest free numbers go first
	var canaries []lnCanary
	for i := 0; i < 6; i++ {
		if lc, ok := openLnCanary(rec); ok {
			canaries = append(canaries, lc)
		}
	}
	// a late connection to the engine's address: it is in the listening socket's queue when the loop resumes
	sp2 := mk(2, 32)
	go runPeer(rec, h, sp2, dial, scratch, rep)
	deadline = time.Now().Add(2 * time.Second)
	for time.Now().Before(deadline) {
		n := 0
		h.peers.Range(func(_, _ any) bool { n++; return true })
		if n >= 2 {
			break
		}
		time.Sleep(time.Millisecond)
	}
	time.Sleep(10 * time.Millisecond)
	release()
	select {
	case <-runErr:
	case <-time.After(12 * time.Second):
		rec.emit("RunStuck")
		rep.Violation("sys/run-stuck", "Run did not return within 12 s of a shutdown request that arrived while a loop was inside a callback: "+cfg.String(), nil)
	}
	rec.installGate()
	for _, lc := range canaries {
		lc.check(rec)
	}
	for _, sp := range []*peerSpec{sp1, sp2} {
		select {
		case <-sp.done:
		case <-time.After(5 * time.Second):
		}
	}
	time.Sleep(600 * time.Millisecond)
	h.closeDups(true)
	rec.emit("Grace")
	rep.Eval(fmt.Sprintf("lateaccept-%v-%d-%s", reuseport, loops, via))
}

// runCrossClose: two connections of one loop are reported ready by the same wait (the loop was busy inside a third
// connection's callback while their data arrived); the callback of the one handled first closes the other with
// EventLoop.Close.  The event the loop still holds for the closed one is about a number that is no longer the
// framework's -- the recorder's grab takes the number over inside the close hook.
func runCrossClose(t *testing.T, rec *recorder, network string, et bool, seed uint64, scratch string, rep *vsup.Report) {
	cfg := &sysCfg{name: "crossclose", network: network, et: et, loops: 1, readCap: 2048, writeCap: 4096, stopSrc: "Engine.Stop"}
	rec.emit("Reset", "cfg", "crossclose "+cfg.String(), "et", et, "loops", 1, "reuseport", false, "ticker", false, "seed", int(seed%1000000))
	h := &vhandler{rec: rec, cfg: cfg, booted: make(chan struct{}), parkConn: 1, parkReached: make(chan struct{}), parkRelease: make(chan struct{})}
	var addr, dial string
	if network == "unix" {
		dial = filepath.Join(scratch, fmt.Sprintf("cc%d.sock", seed%100000))
		addr = "unix://" + dial
	} else {
		dial = fmt.Sprintf("127.0.0.1:%d", freePort())
		addr = "tcp://" + dial
	}
	opts := []Option{WithNumEventLoop(1), WithLogger(nullLogger{}), WithReadBufferCap(cfg.readCap), WithWriteBufferCap(cfg.writeCap)}
	if et {
		opts = append(opts, WithEdgeTriggeredIO(true))
	}
	runErr := make(chan error, 1)
	go func() {
		err := Run(h, addr, opts...)
		rec.emit("RunRet", "err", errClass(err))
		runErr <- err
	}()
	select {
	case <-h.booted:
	case <-time.After(10 * time.Second):
		t.Fatalf("engine did not boot")
	}
	time.Sleep(20 * time.Millisecond)
	released := false
	release := func() {
		if !released {
			released = true
			close(h.parkRelease)
		}
	}
	defer release()
	mk := func(id, n, other int, hold bool) *peerSpec {
		sp := &peerSpec{id: id, seed: seed + uint64(id), network: network, total: n, segs: []int{n}, done: make(chan struct{}), openOut: -1, closeAt: -1,
			closeHow: "action", peerRead: "normal", consume: "all", reply: "none", shut: "abandon", closeOther: other}
		if hold {
			sp.hold = make(chan struct{})
		}
		return sp
	}
	a, b, p := mk(2, 100, 3, true), mk(3, 100, 2, true), mk(1, 64, 0, false)
	go runPeer(rec, h, a, dial, scratch, rep)
	go runPeer(rec, h, b, dial, scratch, rep)
	deadline := time.Now().Add(5 * time.Second)
	for atomic.LoadInt32(&h.opened) < 2 && time.Now().Before(deadline) {
		time.Sleep(time.Millisecond)
	}
	go runPeer(rec, h, p, dial, scratch, rep)
	select {
	case <-h.parkReached:
		rec.emit("Note", "what", "loop parked inside OnTraffic")
	case <-time.After(5 * time.Second):
		rec.emit("Note", "what", "loop not parked")
	}
	close(a.hold)
	close(b.hold)
	time.Sleep(40 * time.Millisecond) // both have their data in the socket now: the next wait reports them together
	release()
	time.Sleep(150 * time.Millisecond)
	rec.emit("StopReq", "src", "Engine.Stop", "g", vsup.Goid())
	go func() {
		ctx, cancel := context.WithTimeout(context.Background(), 20*time.Second)
		err := h.eng.Stop(ctx)
		cancel()
		rec.emit("StopRet", "err", errClass(err))
	}()
	select {
	case <-runErr:
	case <-time.After(12 * time.Second):
		rec.emit("RunStuck")
		rep.Violation("sys/run-stuck", "Run did not return within 12 s of Engine.Stop: "+cfg.String(), nil)
	}
	for _, sp := range []*peerSpec{a, b, p} {
		select {
		case <-sp.done:
		case <-time.After(5 * time.Second):
		}
	}
	time.Sleep(600 * time.Millisecond)
	h.closeDups(true)
	rec.emit("Grace")
	rep.Eval(fmt.Sprintf("crossclose-%s-%v", network, et))
}

func TestVerifLateAccept(t *testing.T) {
	scratch := os.Getenv("VERIF_SYS_SCRATCH")
	if scratch == "" {
		scratch = t.TempDir()
	}
	rep := vsup.NewReport("lateaccept")
	rec, err := newRecorder(os.Getenv("VERIF_TRACE"), rep)
	if err != nil {
		t.Fatal(err)
	}
	rec.install()
	defer rec.uninstall()
	rng := vsup.NewRng(vsup.Seed() + 707)
	for r := 0; r < vsup.EnvInt("VERIF_ROUNDS", 1); r++ {
		for _, reuse := range []bool{true, false} {
			for _, via := range []string{"Engine.Stop", "Stop"} {
				loops := 1
				if !reuse {
					loops = 1 + rng.Intn(2)
				}
				runLateAccept(t, rec, reuse, loops, via, rng.Uint64(), scratch, rep)
			}
		}
		for _, network := range []string{"unix", "tcp"} {
			for _, et := range []bool{false, true} {
				runCrossClose(t, rec, network, et, rng.Uint64(), scratch, rep)
			}
		}
	}
	rec.uninstall()
	if err := rec.close(); err != nil {
		t.Fatal(err)
	}
	rep.Set("events", rec.seq)
	if err := rep.Write(); err != nil {
		t.Fatal(err)
	}
}
