package gnet

// C07, listeners: Rotate over several addresses of which a later one cannot be bound.  Rotate returns the error;
// every listener it had created by then must be closed (and its Unix-socket file removed) when it returns.

import (
	"fmt"
	"os"
	"path/filepath"
	"testing"
	"time"

	"github.com/panjf2000/gnet/v2/internal/vsup"
)

func TestVerifRotateFail(t *testing.T) {
	scratch := os.Getenv("VERIF_SYS_SCRATCH")
	if scratch == "" {
		scratch = t.TempDir()
	}
	rep := vsup.NewReport("rotate-fail")
	rec, err := newRecorder(os.Getenv("VERIF_TRACE"), rep)
	if err != nil {
		t.Fatal(err)
	}
	rec.install()
	defer rec.uninstall()
	rng := vsup.NewRng(vsup.Seed() + 77)
	for k := 0; k < vsup.EnvInt("VERIF_ROUNDS", 1)*6; k++ {
		u := filepath.Join(scratch, fmt.Sprintf("rf%d-%d.sock", vsup.Seed()%1000, k))
		p1 := fmt.Sprintf("127.0.0.1:%d", freePort())
		p2 := fmt.Sprintf("127.0.0.1:%d", freePort())
		var addrs []string
		var why string
		switch k % 3 {
		case 0:
			addrs, why = []string{"unix://" + u, "tcp://" + p1, "tcp://" + p1}, "the same port twice"
		case 1:
			addrs, why = []string{"tcp://" + p1, "unix://" + u, "unix://" + filepath.Join(scratch, "no-such-dir", "x.sock")}, "unix path in a missing directory"
		default:
			addrs, why = []string{"tcp://" + p1, "tcp://" + p2, "unix://" + u, "tcp://256.0.0.1:1"}, "unresolvable host"
		}
		reuse := rng.Intn(2) == 0 && k%3 == 2
		rec.emit("Reset", "cfg", fmt.Sprintf("rotate-fail %v (%s) reuseport=%v", addrs, why, reuse))
		base := fdSnapshot()
		h := &vhandler{rec: rec, cfg: &sysCfg{name: "rotate-fail", network: "tcp"}, booted: make(chan struct{})}
		done := make(chan error, 1)
		go func() {
			done <- Rotate(h, addrs, WithNumEventLoop(1+rng.Intn(2)), WithReusePort(reuse), WithLogger(nullLogger{}))
		}()
		select {
		case err := <-done:
			rec.emit("RunRet", "err", errClass(err), "msg", fmt.Sprint(err))
			if err == nil {
				rep.Violation("rotate/no-error", fmt.Sprintf("Rotate(%v) returned nil although %s", addrs, why), nil)
			}
		case <-h.booted:
			// it did start after all (the address turned out to be bindable): stop it and skip
			_ = h.eng.Stop(contextBG())
			<-done
			rec.emit("RunRet", "err", "nil")
		case <-time.After(10 * time.Second):
			rec.emit("RunStuck")
			rep.Violation("rotate/stuck", fmt.Sprintf("Rotate(%v) neither failed nor booted within 10 s", addrs), nil)
		}
		leaked, what := leakedSince(base)
		sockfiles := 0
		if _, err := os.Stat(u); err == nil {
			sockfiles = 1
			_ = os.Remove(u)
		}
		rec.emit("ProcFd", "leaked", leaked, "what", fmt.Sprint(what), "sockfiles", sockfiles)
		rec.emit("Grace")
		rep.Eval(fmt.Sprintf("rotate-fail-%d", k%3))
	}
	rec.uninstall()
	if err := rec.close(); err != nil {
		t.Fatal(err)
	}
	rep.Set("events", rec.seq)
	if err := rep.Write(); err != nil {
		t.Fatal(err)
	}
}
