package gnet

// Channel A for C19: every labelled edge of the TLC state graph of specs/Control.tla (sequences of control
// calls on a never-started, running, stopping and stopped engine) is replayed on a real engine.

import (
	"context"
	"errors"
	"fmt"
	"net"
	"os"
	"path/filepath"
	"sync/atomic"
	"testing"
	"time"

	"golang.org/x/sys/unix"

	"github.com/panjf2000/gnet/v2/internal/vsup"
	errorx "github.com/panjf2000/gnet/v2/pkg/errors"
)

type ctlHandler struct {
	BuiltinEventEngine
	eng    Engine
	booted chan struct{}
	loop   atomic.Value // EventLoop
	opened int32
	closed int32
}

func (h *ctlHandler) OnBoot(e Engine) Action { h.eng = e; close(h.booted); return None }
func (h *ctlHandler) OnOpen(c Conn) ([]byte, Action) {
	h.loop.Store(c.EventLoop())
	atomic.AddInt32(&h.opened, 1)
	if c.Context() == "close-on-open" {
		return nil, Close
	}
	return nil, None
}

// OnClose takes a while, so that "Stop returned nil" and "everything is closed" can be told apart.
func (h *ctlHandler) OnClose(c Conn, _ error) Action {
	time.Sleep(60 * time.Millisecond)
	atomic.AddInt32(&h.closed, 1)
	if c.Context() == "close-on-open" {
		return Shutdown // makes the registration itself report an error: the result must still be delivered
	}
	return None
}
func (h *ctlHandler) OnTraffic(c Conn) Action { _, _ = c.Discard(-1); return None }

func ctlErr(err error) string {
	switch {
	case err == nil:
		return "nil"
	case errors.Is(err, errorx.ErrEmptyEngine):
		return "ErrEmptyEngine"
	case errors.Is(err, errorx.ErrEngineInShutdown):
		return "ErrEngineInShutdown"
	case errors.Is(err, errorx.ErrInvalidNetworkAddress):
		return "ErrInvalidNetworkAddress"
	case errors.Is(err, errorx.ErrInvalidNetConn):
		return "ErrInvalidNetConn"
	case errors.Is(err, errorx.ErrNilRunnable):
		return "ErrNilRunnable"
	case errors.Is(err, errorx.ErrUnsupportedOp):
		return "ErrUnsupportedOp"
	case errors.Is(err, context.Canceled), errors.Is(err, context.DeadlineExceeded):
		return "ctxErr"
	}
	return "other:" + err.Error()
}

type ctlRun struct {
	h      *ctlHandler
	eng    Engine
	sock   string
	runErr chan error
	helper net.Conn
	back   net.Listener // a plain listener that Register(addr) dials
	loop   EventLoop
}

func (r *ctlRun) start(scratch string, n int) error {
	r.h = &ctlHandler{booted: make(chan struct{})}
	r.sock = filepath.Join(scratch, fmt.Sprintf("ctl%d.sock", n))
	r.runErr = make(chan error, 1)
	go func() { r.runErr <- Run(r.h, "unix://"+r.sock, WithLogger(nullLogger{}), WithNumEventLoop(2)) }()
	select {
	case <-r.h.booted:
	case err := <-r.runErr:
		return fmt.Errorf("engine did not boot: %v", err)
	case <-time.After(5 * time.Second):
		return errors.New("engine did not boot in time")
	}
	r.eng = r.h.eng
	var err error
	for i := 0; i < 200; i++ {
		if r.helper, err = net.Dial("unix", r.sock); err == nil {
			break
		}
		time.Sleep(time.Millisecond)
	}
	if err != nil {
		return err
	}
	for i := 0; i < 2000 && r.h.loop.Load() == nil; i++ {
		time.Sleep(time.Millisecond)
	}
	if l := r.h.loop.Load(); l != nil {
		r.loop = l.(EventLoop)
	} else {
		return errors.New("helper connection was not opened")
	}
	r.back, err = net.Listen("unix", filepath.Join(scratch, fmt.Sprintf("back%d.sock", n)))
	if err == nil {
		go func() {
			for {
				c, err := r.back.Accept()
				if err != nil {
					return
				}
				go func() {
					buf := make([]byte, 64)
					for {
						if _, err := c.Read(buf); err != nil {
							c.Close()
							return
						}
					}
				}()
			}
		}()
	}
	return err
}

func (r *ctlRun) cleanup() {
	if r.helper != nil {
		r.helper.Close()
	}
	if r.back != nil {
		r.back.Close()
	}
	if r.h != nil && r.runErr != nil {
		_ = r.eng.Stop(context.Background())
		select {
		case <-r.runErr:
		case <-time.After(5 * time.Second):
		}
	}
}

// call performs one control call and classifies its result.
func (r *ctlRun) call(name string) string {
	ctx := context.Background()
	switch name {
	case "Validate":
		return ctlErr(r.eng.Validate())
	case "Count":
		if n := r.eng.CountConnections(); n < 0 {
			return fmt.Sprint(n)
		}
		return "nonneg"
	case "Dup", "DupListenerKnown", "DupListenerUnknown":
		var fd int
		var err error
		switch name {
		case "Dup":
			fd, err = r.eng.Dup()
		case "DupListenerKnown":
			fd, err = r.eng.DupListener("unix", r.sock)
			if r.sock == "" { // never started: any address
				fd, err = r.eng.DupListener("unix", "/nonexistent")
			}
		default:
			fd, err = r.eng.DupListener("tcp", "1.2.3.4:5")
		}
		if err != nil {
			return ctlErr(err)
		}
		var st unix.Stat_t
		if unix.Fstat(fd, &st) != nil {
			return "bad-fd"
		}
		unix.Close(fd)
		return "fd"
	case "RegisterNeither":
		_, err := r.eng.Register(ctx)
		return ctlErr(err)
	case "RegisterAddr", "RegisterClosing":
		addr := net.Addr(&net.UnixAddr{Name: "/nonexistent", Net: "unix"})
		if r.back != nil {
			addr = r.back.Addr()
		}
		if name == "RegisterClosing" {
			ctx = NewContext(ctx, "close-on-open")
		}
		ch, err := r.eng.Register(NewNetAddrContext(ctx, addr))
		if err != nil {
			return ctlErr(err)
		}
		return oneResult(ch)
	case "ExecuteNil":
		return ctlErr(r.loop.Execute(ctx, nil))
	case "ExecuteOK":
		var ran int32
		if err := r.loop.Execute(ctx, RunnableFunc(func(context.Context) error { atomic.AddInt32(&ran, 1); return nil })); err != nil {
			return ctlErr(err)
		}
		for i := 0; i < 2000 && atomic.LoadInt32(&ran) == 0; i++ {
			time.Sleep(time.Millisecond)
		}
		time.Sleep(20 * time.Millisecond)
		if n := atomic.LoadInt32(&ran); n != 1 {
			return fmt.Sprintf("ran-%d-times", n)
		}
		return "ran-once"
	case "EnrollNil":
		_, err := r.loop.Enroll(ctx, nil)
		return ctlErr(err)
	case "ElRegisterNil":
		_, err := r.loop.Register(ctx, nil)
		return ctlErr(err)
	}
	return "unknown-call"
}

func oneResult(ch <-chan RegisteredResult) string {
	select {
	case res, ok := <-ch:
		if !ok {
			return "no-result"
		}
		if res.Conn == nil && res.Err == nil {
			return "empty-result"
		}
		select {
		case _, ok := <-ch:
			if ok {
				return "two-results"
			}
		case <-time.After(200 * time.Millisecond):
			return "channel-left-open"
		}
		return "one-result"
	case <-time.After(3 * time.Second):
		return "no-result"
	}
}

// allowed results of a call in a stable state (mirrors Res of Control.tla only to recognise the racing side)
func (r *ctlRun) stopped() bool {
	select {
	case err := <-r.runErr:
		r.runErr <- err
		return true
	default:
		return false
	}
}

func TestVerifControlCover(t *testing.T) {
	g, err := vsup.LoadGraph(os.Getenv("VERIF_GRAPH"))
	if err != nil {
		t.Fatal(err)
	}
	scratch := os.Getenv("VERIF_SYS_SCRATCH")
	if scratch == "" {
		scratch = t.TempDir()
	}
	old := shutdownPollInterval
	shutdownPollInterval = 10 * time.Millisecond // Engine.Stop polls the terminal flag at this interval
	defer func() { shutdownPollInterval = old }()
	rep := vsup.NewReport("control-cover")
	n := 0
	for ei, e := range g.Edges {
		// (Finish edges are replayed too: the shutdown requested by a Stop whose context had ended must complete)
		if g.Depth[e.From] < 0 || e.Action == "Norm" {
			continue
		}
		path := append(g.PathTo(e.From), ei)
		labels := g.PathLabels(path)
		n++
		r := &ctlRun{}
		func() {
			defer r.cleanup()
			defer func() {
				if p := recover(); p != nil {
					rep.Violation("control/panic", fmt.Sprint(p), labels)
				}
			}()
			for si, pe := range path {
				ed := g.Edges[pe]
				from, to := g.Node(ed.From), g.Node(ed.To)
				st := vsup.Str(from["st"])
				switch ed.Action {
				case "Norm":
					continue
				case "Finish":
					select {
					case err := <-r.runErr:
						r.runErr <- err
					case <-time.After(15 * time.Second):
						rep.Violation("control/Finish", "the shutdown requested by Stop(expired context) did not complete within 15 s", labels[:si+1])
						return
					}
					continue
				case "Start":
					if err := r.start(scratch, n); err != nil {
						t.Fatalf("start: %v", err)
					}
					continue
				}
				want := vsup.Str(vsup.Rec(to["ret"])["res"])
				var got string
				name := ed.Action
				switch ed.Action {
				case "Call":
					name = vsup.Str(ed.Args[0])
					got = r.call(name)
				case "StopLive":
					ctx, cancel := context.WithTimeout(context.Background(), 10*time.Second)
					err := r.eng.Stop(ctx)
					cancel()
					got = ctlErr(err)
					if err == nil {
						// nil only after the engine has fully shut down
						if o, c := atomic.LoadInt32(&r.h.opened), atomic.LoadInt32(&r.h.closed); o != c {
							got = fmt.Sprintf("nil-with-%d-connections-not-closed", o-c)
							break
						}
						select {
						case e := <-r.runErr:
							r.runErr <- e
						case <-time.After(300 * time.Millisecond):
							got = "nil-before-shutdown-completed"
						}
						if o, c := atomic.LoadInt32(&r.h.opened), atomic.LoadInt32(&r.h.closed); o != c {
							got = fmt.Sprintf("nil-with-%d-connections-not-closed", o-c)
						}
					}
				case "StopExpired":
					// the context has ended before the call: its error is the answer at once, however rarely Stop looks
					// at the terminal flag (with a long polling interval an implementation that consults the context
					// only between two looks at the flag answers late, and with nil once the shutdown has completed)
					ctx, cancel := context.WithCancel(context.Background())
					cancel()
					shutdownPollInterval = 1500 * time.Millisecond
					got = ctlErr(r.eng.Stop(ctx))
					shutdownPollInterval = 10 * time.Millisecond
				}
				if got != want {
					// while the shutdown is in progress a call may observe either side: the state machine has one
					// edge per allowed result; if the real result is the one of a sibling edge the path simply
					// took the other branch (the state does not depend on which)
					sibling := false
					for _, oe := range g.Out[ed.From] {
						o := g.Edges[oe]
						if o.Action == ed.Action && vsup.Render(o.Args) == vsup.Render(ed.Args) &&
							vsup.Str(vsup.Rec(g.Node(o.To)["ret"])["res"]) == got && vsup.Str(g.Node(o.To)["st"]) == vsup.Str(to["st"]) {
							sibling = true
						}
					}
					if sibling {
						rep.AddInt("raced_steps", 1)
						continue
					}
					rep.Violation(fmt.Sprintf("control/%s/%s", name, st), fmt.Sprintf("%s on a %s engine returned %q, the state machine allows %q", name, st, got, want), labels[:si+1])
					return
				}
			}
		}()
		rep.Eval(fmt.Sprintf("%d|%s", e.From, g.EdgeLabel(ei)))
		if len(path) > 5 {
			rep.Sample(labels)
		}
	}
	if err := rep.Write(); err != nil {
		t.Fatal(err)
	}
}
