package gnet

// C18: system-call faults injected into the event-loop thread with strace (the loop is pinned to its OS thread
// with WithLockOSThread), one fault per engine life, while bystander connections carry checked traffic.
// The recorded execution is validated by the usual trace specifications plus the fault rules of TrLife.tla.

import (
	"bufio"
	"context"
	"fmt"
	"os"
	"os/exec"
	"path/filepath"
	"strings"
	"sync"
	"sync/atomic"
	"syscall"
	"testing"
	"time"

	"golang.org/x/sys/unix"

	"github.com/panjf2000/gnet/v2/internal/vsup"
)

type fault struct {
	syscall string
	errno   string
	when    int
	et      bool
	hard    bool // the failing connection must be closed with an error; otherwise: no visible effect
	fatal   bool // an error the loop does not survive by design (accept failing for good): the engine shuts down
	drip    bool // epoll_ctl lives: connection 1 is answered with many small frames instead of one big one
}

func faultList(thorough bool, rng *vsup.Rng) []fault {
	var out []fault
	add := func(sc, en string, hard bool, whens []int, modes []bool) {
		for _, w := range whens {
			for _, et := range modes {
				out = append(out, fault{sc, en, w, et, hard, false, false})
			}
		}
	}
	both, lt := []bool{false, true}, []bool{false}
	ks := []int{2, 5}
	if thorough {
		ks = []int{1, 2, 3, 5, 9, 14}
	}
	add("read", "ECONNRESET", true, ks, both)
	add("read", "ETIMEDOUT", true, ks[:1], both)
	// (write / EPIPE is enumerated adaptively by TestVerifFaults)
	add("write", "ECONNRESET", true, ks[:1], both)
	add("writev", "EPIPE", true, ks[:1], both)
	// (epoll_ctl faults are enumerated adaptively by TestVerifFaults: until ADD, MOD and DEL have each been hit)
	add("read", "EAGAIN", false, ks[:1], lt)
	add("write", "EAGAIN", false, ks[:1], lt)
	add("epoll_wait", "EINTR", false, ks, both)
	add("accept4", "EINTR", false, []int{2}, both)
	add("accept4", "ECONNABORTED", false, []int{2}, both)
	if !thorough {
		// a seeded half in the quick tier
		var pick []fault
		for _, f := range out {
			if rng.Intn(2) == 0 {
				pick = append(pick, f)
			}
		}
		out = pick
	}
	return out
}

func attachStrace(tid int, f fault, logPath string) (*exec.Cmd, error) {
	cmd := exec.Command("strace", "-p", fmt.Sprint(tid), "-e", "trace="+f.syscall,
		"-e", fmt.Sprintf("inject=%s:error=%s:when=%d", f.syscall, f.errno, f.when), "-o", logPath)
	cmd.SysProcAttr = &syscall.SysProcAttr{Pdeathsig: syscall.SIGKILL}
	stderr, err := cmd.StderrPipe()
	if err != nil {
		return nil, err
	}
	if err := cmd.Start(); err != nil {
		return nil, err
	}
	ok := make(chan bool, 1)
	go func() {
		sc := bufio.NewScanner(stderr)
		for sc.Scan() {
			if len(sc.Text()) > 0 && (contains(sc.Text(), "attached") || contains(sc.Text(), "Process")) {
				ok <- true
				break
			}
		}
		for sc.Scan() {
		}
	}()
	select {
	case <-ok:
		return cmd, nil
	case <-time.After(3 * time.Second):
		_ = cmd.Process.Kill()
		return nil, fmt.Errorf("strace did not attach")
	}
}

// watchTracer samples the state of the traced thread while strace is attached and returns the longest time it was
// seen stopped by the tracer without a break (state 't' in /proc/self/task/<tid>/stat).  The stops strace needs to
// inject a fault last microseconds; a loop thread that the tracer keeps stopped for seconds says nothing about gnet.
func watchTracer(tid int) (stop func() int) {
	done := make(chan struct{})
	res := make(chan int, 1)
	go func() {
		var since time.Time
		longest := time.Duration(0)
		path := fmt.Sprintf("/proc/self/task/%d/stat", tid)
		for {
			select {
			case <-done:
				res <- int(longest / time.Millisecond)
				return
			case <-time.After(20 * time.Millisecond):
			}
			raw, err := os.ReadFile(path)
			state := byte('?')
			if err == nil {
				if i := strings.LastIndexByte(string(raw), ')'); i >= 0 && i+2 < len(raw) {
					state = raw[i+2]
				}
			}
			if state == 't' {
				if since.IsZero() {
					since = time.Now()
				}
				if d := time.Since(since); d > longest {
					longest = d
				}
			} else {
				since = time.Time{}
			}
		}
	}()
	return func() int { close(done); return <-res }
}

func contains(s, sub string) bool {
	for i := 0; i+len(sub) <= len(s); i++ {
		if s[i:i+len(sub)] == sub {
			return true
		}
	}
	return false
}

func runFaultScenario(t *testing.T, rec *recorder, f fault, seed uint64, scratch string, rep *vsup.Report) (bool, []string) {
	rng := vsup.NewRng(seed)
	cfg := &sysCfg{name: "fault", network: "tcp", et: f.et, loops: 1, reuseport: true, readCap: 2048, writeCap: 4096, conns: 4}
	rec.emit("Reset", "cfg", fmt.Sprintf("fault %s:%s:when=%d et=%v", f.syscall, f.errno, f.when, f.et), "et", f.et, "loops", 1)
	h := &vhandler{rec: rec, cfg: cfg, booted: make(chan struct{})}
	dial := fmt.Sprintf("127.0.0.1:%d", freePort())
	opts := []Option{WithNumEventLoop(1), WithReusePort(cfg.reuseport), WithLockOSThread(true), WithReadBufferCap(cfg.readCap), WithWriteBufferCap(cfg.writeCap),
		WithLogger(nullLogger{}), WithEdgeTriggeredIO(f.et)}
	if f.syscall == "epoll_ctl" {
		// a small send buffer: big answers do leave a backlog (and the write interest gets registered)
		cfg.sndbuf = 4096
		opts = append(opts, WithSocketSendBuffer(cfg.sndbuf))
	}
	runErr := make(chan error, 1)
	go func() {
		err := Run(h, cfg.network+"://"+dial, opts...)
		rec.emit("RunRet", "err", errClass(err))
		runErr <- err
	}()
	select {
	case <-h.booted:
	case <-time.After(10 * time.Second):
		t.Fatalf("engine did not boot")
	}
	time.Sleep(20 * time.Millisecond)
	// warm-up connection: tells us the loop's thread id (its OnOpen runs on the pinned loop thread)
	atomic.StoreInt32(&h.wantTid, 1)
	warm := &peerSpec{id: 50, seed: rng.Uint64(), network: cfg.network, done: make(chan struct{}), total: 64, segs: []int{64}, shut: "fin",
		peerRead: "normal", consume: "all", reply: "frames", openOut: -1, closeAt: -1, closeHow: "action"}
	runPeer(rec, h, warm, dial, scratch, rep)
	tid := int(atomic.LoadInt32(&h.loopTid))
	if tid == 0 {
		rec.emit("FaultSkip", "why", "no loop thread id")
		return false, nil
	}
	straceLog := filepath.Join(scratch, fmt.Sprintf("strace.%d.log", seed%100000))
	cmd, err := attachStrace(tid, f, straceLog)
	if err != nil {
		rec.emit("FaultSkip", "why", err.Error())
		_ = h.eng.Stop(context.Background())
		<-runErr
		return false, nil
	}
	tracerStop := watchTracer(tid)
	rec.errSites.Range(func(k, _ any) bool { rec.errSites.Delete(k); return true })
	rec.emit("FaultArmed", "syscall", f.syscall, "errno", f.errno, "when", f.when, "hard", f.hard)
	if f.fatal {
		// from here on the engine may start shutting down by itself at any moment
		rec.emit("StopReq", "src", "AcceptFatal", "g", vsup.Goid())
	}
	var wg sync.WaitGroup
	for i := 1; i <= cfg.conns; i++ {
		sp := randSpec(i, rng, cfg)
		sp.asyncW, sp.wakes = 0, 0
		if sp.shut == "rst" {
			sp.shut = "close"
		}
		if sp.total > 70000 {
			sp.total = 5000
			sp.segs = segPlan(sp.total, rng, cfg.readCap)
		}
		if i == 2 && f.syscall == "write" {
			sp.openOut = 10 // an OnOpen reply: conn.open's write is one of the calls the fault can hit
		}
		if i == 1 && f.syscall == "epoll_ctl" {
			// a peer that reads late while the handler answers with more than the socket buffers take: the calls that
			// add the write interest (after EAGAIN, after a partial write) are among the first epoll_ctl calls
			sp.total, sp.segs, sp.lockstep = 10, []int{10}, false
			sp.shut, sp.peerRead, sp.consume, sp.reply = "fin", "stall", "all", "big"
			sp.closeAt, sp.openOut, sp.budget = -1, -1, 1<<20
			if f.drip {
				// ... or with many small frames: the write that finds the socket full writes nothing at all (a pure
				// EAGAIN with an empty outbound buffer), and the registration that follows it is the call to fail
				sp.reply, sp.budget = "drip", 0
			}
		}
		wg.Add(1)
		go func() { defer wg.Done(); runPeer(rec, h, sp, dial, scratch, rep) }()
	}
	pd := make(chan struct{})
	go func() { wg.Wait(); close(pd) }()
	t0 := time.Now()
	select {
	case <-pd:
	case <-time.After(40 * time.Second):
		// (if this very timer fires late the process itself was not running: nothing in it can be judged by the clock)
		if late := time.Since(t0) - 40*time.Second; late > 5*time.Second {
			rec.emit("HarnessStall", "late_ms", int(late/time.Millisecond))
		}
		rec.emit("PeersTimeout")
	}
	_ = cmd.Process.Signal(syscall.SIGINT)
	_ = cmd.Wait()
	if ms := tracerStop(); ms >= 500 {
		rec.emit("TracerStall", "ms", ms)
	}
	rec.emit("FaultDisarmed")
	// where did the fault land?  strace counts every call of that name on the loop's thread, including the
	// writes to the poller's own eventfd (wake-ups), which are not calls made on behalf of a connection
	var hits []string
	if raw, err := os.ReadFile(straceLog); err == nil {
		for _, line := range strings.Split(string(raw), "\n") {
			if !strings.Contains(line, "(INJECTED)") {
				continue
			}
			fd := -1
			if i := strings.Index(line, "("); i > 0 {
				fmt.Sscanf(line[i+1:], "%d", &fd)
			}
			// a hard fault on a call made for an open connection owes that connection an OnClose with this error
			// (a failed registration never opened one; a failed removal hits a connection that is closing anyway)
			owes := ""
			// (read / write faults are visible in the log at the place where they happened -- the hooks carry the
			// error -- and TrLife judges them there, knowing whether the connection was already being closed; only a
			// failed change of the poll registration is invisible to the hooks)
			if f.hard && f.syscall == "epoll_ctl" && strings.Contains(line, "EPOLL_CTL_MOD") {
				owes = map[string]string{"ENOMEM": "errno12", "ECONNRESET": "ECONNRESET", "EPIPE": "EPIPE", "ETIMEDOUT": "errno110"}[f.errno]
			}
			rec.emit("FaultHit", "line", line, "fd", fd, "eventfd", rec.isEventfd(fd), "owes", owes)
			hits = append(hits, line)
			if dfd, ok := h.fdOf.Load(1); ok && f.syscall == "epoll_ctl" && f.drip && dfd.(int) == fd &&
				strings.Contains(line, "EPOLL_CTL_MOD") && strings.Contains(line, "EPOLLOUT") {
				hits = append(hits, "DRIP-ARM") // the registration of the write interest of the connection answered with small frames
			}
		}
		_ = os.Remove(straceLog)
	}
	if f.fatal {
		// Run returns by itself (the accept error is fatal by design); every connection opened before must have
		// been closed first and nothing may be left behind
		select {
		case <-runErr:
		case <-time.After(20 * time.Second):
			rec.emit("RunStuck")
			_ = h.eng.Stop(context.Background())
		}
		time.Sleep(20 * time.Millisecond)
		// C19: the handle of an engine that has shut down (for whatever reason) reports so
		rec.emit("AfterRun", "validate", errClass(h.eng.Validate()), "count", h.eng.CountConnections())
		h.closeDups(true)
		rec.emit("Grace")
		rep.Eval(fmt.Sprintf("fatal-%s-%s-%d-%v", f.syscall, f.errno, f.when, f.et))
		return true, hits
	}
	// requests through the handles of the connections of this life (all closed by now, the victim among them) while
	// fresh connections reuse their descriptor numbers: they must be no-ops
	staleRequests(rec, h, cfg, rng, dial, scratch, rep)
	// the engine must still serve a fresh connection
	probe := &peerSpec{id: 60, seed: rng.Uint64(), network: cfg.network, done: make(chan struct{}), total: 100, segs: []int{100}, shut: "fin",
		peerRead: "normal", consume: "all", reply: "frames", openOut: -1, closeAt: -1, closeHow: "action"}
	runPeer(rec, h, probe, dial, scratch, rep)
	deadline := time.Now().Add(3 * time.Second)
	for (atomic.LoadInt32(&h.closedN) < atomic.LoadInt32(&h.opened)) && time.Now().Before(deadline) {
		time.Sleep(time.Millisecond)
	}
	rec.emit("Quiesce", "count", h.eng.CountConnections(), "opened", int(atomic.LoadInt32(&h.opened)), "closed", int(atomic.LoadInt32(&h.closedN)))
	rec.emit("StopReq", "src", "Engine.Stop", "g", vsup.Goid())
	ctx, cancel := context.WithTimeout(context.Background(), 20*time.Second)
	serr := h.eng.Stop(ctx)
	cancel()
	rec.emit("StopRet", "err", errClass(serr))
	select {
	case <-runErr:
	case <-time.After(20 * time.Second):
		rec.emit("RunStuck")
	}
	time.Sleep(20 * time.Millisecond)
	h.closeDups(true)
	rec.emit("Grace")
	rep.Eval(fmt.Sprintf("fault-%s-%s-%d-%v", f.syscall, f.errno, f.when, f.et))
	return true, hits
}

func TestVerifFaults(t *testing.T) {
	scratch := os.Getenv("VERIF_SYS_SCRATCH")
	if scratch == "" {
		scratch = t.TempDir()
	}
	rep := vsup.NewReport("faults")
	rec, err := newRecorder(os.Getenv("VERIF_TRACE"), rep)
	if err != nil {
		t.Fatal(err)
	}
	rec.install()
	defer rec.uninstall()
	rng := vsup.NewRng(vsup.Seed() + 1818)
	armed := 0
	list := faultList(vsup.Thorough(), rng)
	fatalOnly := os.Getenv("VERIF_FAULT_SET") == "fatal"
	if fatalOnly {
		// C06 / C07: accept failing for good (the descriptor table is full) ends the engine; the shutdown it causes
		// must be as complete as a requested one
		list = nil
		for _, k := range []int{2, 3} {
			for _, et := range []bool{false, true} {
				list = append(list, fault{syscall: "accept4", errno: "EMFILE", when: k, et: et, fatal: true})
			}
		}
	}
	for _, f := range list {
		if ok, _ := runFaultScenario(t, rec, f, rng.Uint64(), scratch, rep); ok {
			armed++
		}
	}
	if fatalOnly {
		rec.uninstall()
		if err := rec.close(); err != nil {
			t.Fatal(err)
		}
		rep.Set("faults_armed", armed)
		rep.Set("events", rec.seq)
		if err := rep.Write(); err != nil {
			t.Fatal(err)
		}
		return
	}
	// write: the call index is raised until a write made by Conn.Write and one made for an OnOpen reply have each been
	// failed (strace can only count calls; where the fault landed is read from the hooks)
	for _, et := range []bool{false, true} {
		want := map[string]bool{"c.write/EPIPE": true, "c.openwrite/EPIPE": true}
		for k := 1; k <= 8 && len(want) > 0; k++ {
			if ok, _ := runFaultScenario(t, rec, fault{"write", "EPIPE", k, et, true, false, false}, rng.Uint64(), scratch, rep); ok {
				armed++
			}
			for site := range want {
				if _, hit := rec.errSites.Load(site); hit {
					delete(want, site)
				}
			}
		}
	}
	// epoll_ctl: strace can only count calls, so the call index is raised until a registration (ADD), a change of
	// interest (MOD, level-triggered mode only) and a removal (DEL) have each been failed at least once
	ctlHits := map[string]int{}
	for _, et := range []bool{false, true} {
		want := map[string]bool{"EPOLL_CTL_ADD": true, "EPOLL_CTL_DEL": true}
		armLeft := 0
		if !et {
			// several call sites change the interest set: keep going until one call that drops the write interest
			// and two that add it (conn.write after EAGAIN / after a partial write, writev, Flush, the OnOpen reply)
			// have been failed
			want["EPOLL_CTL_MOD, drop"] = true
			want["EPOLL_CTL_MOD, arm"] = true
			want["EPOLL_CTL_MOD, arm/drip"] = true // ... one of them in a life that answers with many small frames
			armLeft = 2
		}
		maxK := 16
		for k := 2; k <= maxK && len(want) > 0; k++ {
			// (small frames in every other life: whether the write that finds the socket full writes nothing at all or a
			// part of a frame is the kernel's choice, so which kind of registration gets failed is not forced)
			drip := k%2 == 1
			ok, hits := runFaultScenario(t, rec, fault{"epoll_ctl", "ENOMEM", k, et, true, false, drip}, rng.Uint64(), scratch, rep)
			if ok {
				armed++
			}
			for _, line := range hits {
				for op := range want {
					switch op {
					case "EPOLL_CTL_MOD, arm":
						if strings.Contains(line, "EPOLL_CTL_MOD") && strings.Contains(line, "EPOLLOUT") {
							if armLeft--; armLeft <= 0 {
								delete(want, op)
							}
						}
					case "EPOLL_CTL_MOD, arm/drip":
						if line == "DRIP-ARM" {
							delete(want, op)
						}
					case "EPOLL_CTL_MOD, drop":
						if strings.Contains(line, "EPOLL_CTL_MOD") && !strings.Contains(line, "EPOLLOUT") {
							delete(want, op)
						}
					default:
						if strings.Contains(line, op) {
							delete(want, op)
						}
					}
				}
				for _, op := range []string{"EPOLL_CTL_ADD", "EPOLL_CTL_MOD", "EPOLL_CTL_DEL"} {
					if strings.Contains(line, op) {
						ctlHits[fmt.Sprintf("%s/et=%v", op, et)]++
					}
				}
			}
			if vsup.Thorough() {
				want["never"] = true // the thorough tier walks through all the indices
			}
		}
	}
	rep.Set("epoll_ctl_faults_by_op", ctlHits)
	rec.uninstall()
	if err := rec.close(); err != nil {
		t.Fatal(err)
	}
	rep.Set("faults_armed", armed)
	rep.Set("events", rec.seq)
	if err := rep.Write(); err != nil {
		t.Fatal(err)
	}
	_ = unix.Getpid
}
