package gnet

import (
	"bytes"
	"context"
	"encoding/binary"
	"fmt"
	"io"
	"sync"
	"sync/atomic"
	"time"

	"golang.org/x/sys/unix"

	"github.com/panjf2000/gnet/v2/internal/vsup"
	"github.com/panjf2000/gnet/v2/pkg/pool/byteslice"
)

// ---------------------------------------------------------------------------------------------
// frames: what the framework side sends. [0xF7, writer, seq(4), len(4), 0xA5, 0x5A] + stamped body

const frameHdr = 12

func mkFrame(c, w, k, bodyLen int) []byte {
	b := make([]byte, frameHdr+bodyLen)
	b[0] = 0xF7
	b[1] = byte(w)
	binary.BigEndian.PutUint32(b[2:], uint32(k))
	binary.BigEndian.PutUint32(b[6:], uint32(bodyLen))
	b[10], b[11] = 0xA5, 0x5A
	vsup.Fill(b[frameHdr:], c*1000+w, k*100003)
	return b
}

// frameParser verifies a received byte stream frame by frame.
type frameParser struct {
	c    int
	buf  []byte
	next map[int]int // writer -> next expected seq
	bad  string
}

func (p *frameParser) feed(b []byte, onFrame func(w, k, n int, ok bool)) {
	p.buf = append(p.buf, b...)
	for p.bad == "" && len(p.buf) >= frameHdr {
		if p.buf[0] != 0xF7 || p.buf[10] != 0xA5 || p.buf[11] != 0x5A {
			p.bad = fmt.Sprintf("bad frame header % x", p.buf[:frameHdr])
			onFrame(-1, -1, 0, false)
			return
		}
		w, k, n := int(p.buf[1]), int(binary.BigEndian.Uint32(p.buf[2:])), int(binary.BigEndian.Uint32(p.buf[6:]))
		if len(p.buf) < frameHdr+n {
			return
		}
		ok := vsup.Match(p.buf[frameHdr:frameHdr+n], p.c*1000+w, k*100003) < 0
		onFrame(w, k, n, ok)
		p.buf = p.buf[frameHdr+n:]
	}
}

// ---------------------------------------------------------------------------------------------

// peerSpec is the script of one connection: what the peer does and how the handler behaves on it.
type peerSpec struct {
	id         int
	seed       uint64
	network    string
	total      int    // bytes the peer sends
	segs       []int  // segment sizes (sum = total)
	lockstep   bool   // wait until the handler has been given each segment before sending the next
	shut       string // how it ends: "fin" (half close, then read to EOF), "close", "rst", "server" (the handler closes), "abandon" (stay open until shutdown)
	peerRead   string // "normal", "slow", "stall"
	consume    string // handler: "all", "dribble", "mixed", "lazy", "peekonly"
	reply      string // handler: "none", "frames", "big"
	openOut    int    // body length of the OnOpen reply frame (-1: none)
	closeAt    int    // the handler closes once it has consumed this many bytes (-1: never)
	closeHow   string // "action", "elclose", "async", "asynccb", "shutdown"
	asyncW     int    // asynchronous writer goroutines
	asyncN     int    // frames per asynchronous writer
	wakes      int    // Wake requests issued by a user goroutine
	udp        bool
	stopOn     string // "", "OnOpen", "OnTraffic", "OnClose": this connection's callback returns Shutdown
	flood      bool   // the loop is held inside the first OnTraffic until the asynchronous writers have issued everything
	recSize    int    // record size of the "record" consumption policy (0: 2..4 by seed)
	openHold   int    // milliseconds OnOpen keeps the loop busy (the peer's data and its FIN pile up meanwhile)
	budget     int    // bytes of big reply frames (0: by socket buffer size and reader speed)
	earlyFin   bool   // the peer half-closes right after sending, while it is not reading yet (the answer is still piling up)
	sendOnly   int    // the peer stops sending after this many bytes (0: it sends everything): the handler is left with an unfinished stream
	closeOther int    // id of another connection of the same loop that this one's first OnTraffic closes with EventLoop.Close (0: none)
	// runtime
	delivered int64 // bytes the handler has been given (for lock-step peers)
	laddr     string
	done      chan struct{}
	hold      chan struct{} // if set, the peer waits for it after dialling before it sends anything
}

type vconn struct {
	spec       *peerSpec
	c          Conn
	h          int
	rng        *vsup.Rng
	consumed   int
	kOut       int // next frame seq of writer 0
	outBytes   int // bytes of frames written by the handler so far
	callbacks  int
	finSent    bool
	asyncLeft  int32
	asyncCbs   int32 // asynchronous writes issued whose callback has not run yet
	closed     bool
	lazyLeft   int
	dupFd      int           // descriptor obtained through Conn.Dup (ours to close), 0 if none
	held       [][]byte      // what Next handed out in this callback (it must all stay intact until the callback returns)
	heldAt     []int         // their positions in the peer's stream
	floodGate  chan struct{} // closed when the asynchronous writers have issued the requests that are to pile up
	floodOnce  sync.Once
	floodLeft  int32         // writers that have not finished piling up yet
	midReached chan struct{} // closed by the callback of a frame in the middle of the pile (the loop then waits there)
	tailDone   chan struct{} // closed by writer 1 once it has issued its further frames
	midOnce    sync.Once
	probePool  bool // look at the byte-slice pool when this callback ends
	dripped    bool // the "drip" answer has been written
}

type vhandler struct {
	rec             *recorder
	cfg             *sysCfg
	conns           sync.Map // Conn -> *vconn
	peers           sync.Map // address string -> *peerSpec
	eng             Engine
	booted          chan struct{}
	ticks           int32
	tickStop        int32 // tick number at which OnTick returns Shutdown (0: never)
	opened          int32
	closedN         int32
	asyncWG         sync.WaitGroup
	dupWG           sync.WaitGroup // delayed closes of Dup'ed descriptors (waited for after Run has returned)
	areq            int64
	bootAction      Action
	stopFromTraffic int32    // conn id whose next OnTraffic returns Shutdown
	pendingCb       int32    // asynchronous requests accepted with a callback that has not run yet
	wantTid         int32    // the next OnOpen records the OS thread it runs on (the loop's, with LockOSThread)
	raceMode        bool     // recorder off, race detector on: plain per-loop words make overlapping callbacks a reported race
	inCb            [512]int // per loop index, deliberately unsynchronised
	loopTid         int32
	dupMu           sync.Mutex
	userDups        []int    // descriptors obtained through Conn.Dup: ours to close
	slowTick        int32    // 1 while a slow OnTick is running
	fdOf            sync.Map // conn id -> descriptor it was opened with
	parkConn        int32    // conn id whose first OnTraffic keeps its loop busy until parkRelease is closed (0: none)
	parkReached     chan struct{}
	parkRelease     chan struct{}
}

// awaitSlowTick waits (briefly) until a slow OnTick is in progress, so that the shutdown request that follows
// arrives while a callback of the ticker goroutine is running.
func (h *vhandler) awaitSlowTick() {
	if h.cfg == nil || !h.cfg.ticker {
		return
	}
	deadline := time.Now().Add(300 * time.Millisecond)
	for atomic.LoadInt32(&h.slowTick) == 0 && time.Now().Before(deadline) {
		time.Sleep(200 * time.Microsecond)
	}
}

func (h *vhandler) OnBoot(eng Engine) Action {
	h.eng = eng
	h.rec.emit("Boot", "g", vsup.Goid())
	close(h.booted)
	return h.bootAction
}

func (h *vhandler) OnShutdown(Engine) { h.rec.emit("OnShutdown", "g", vsup.Goid()) }

func (h *vhandler) OnTick() (time.Duration, Action) {
	n := atomic.AddInt32(&h.ticks, 1)
	h.rec.emit("Tick", "g", vsup.Goid(), "n", int(n))
	if s := atomic.LoadInt32(&h.tickStop); s > 0 && n >= s {
		h.rec.emit("StopReq", "src", "OnTick", "g", vsup.Goid())
		h.rec.emit("TickEnd", "n", int(n), "action", int(Shutdown), "delay", 3600000)
		return time.Hour, Shutdown
	}
	if n%3 == 0 {
		atomic.StoreInt32(&h.slowTick, 1)
		time.Sleep(25 * time.Millisecond) // a tick that takes a while: shutdown requests arrive while it runs
		atomic.StoreInt32(&h.slowTick, 0)
	}
	// the delays differ from tick to tick (the timer is re-armed with each one), and a Close action, which
	// means nothing for a tick, is returned now and then: the ticker must go on
	delay := []int{10, 5, 20, 0, 15}[int(n)%5]
	action := None
	if n%4 == 1 {
		action = Close
	}
	h.rec.emit("TickEnd", "n", int(n), "action", int(action), "delay", delay)
	return time.Duration(delay) * time.Millisecond, action
}

func (h *vhandler) lookupPeer(addr string) *peerSpec {
	deadline := time.Now().Add(3 * time.Second)
	for {
		if v, ok := h.peers.Load(addr); ok {
			return v.(*peerSpec)
		}
		if time.Now().After(deadline) {
			return nil
		}
		time.Sleep(200 * time.Microsecond)
	}
}

func addrStr(a interface{ String() string }) string {
	if a == nil || (fmt.Sprintf("%v", a) == "<nil>") {
		return ""
	}
	return a.String()
}

func (h *vhandler) OnOpen(c Conn) (out []byte, action Action) {
	h.touch(c)
	g := vsup.Goid()
	raddr, laddr := "", ""
	if c.RemoteAddr() != nil {
		raddr = c.RemoteAddr().String()
	}
	if c.LocalAddr() != nil {
		laddr = c.LocalAddr().String()
	}
	key := raddr
	if h.cfg.client {
		// a client connection is identified by the address it dialled (one listener per peer), or by the
		// context it was dialled with
		if sp, ok := c.Context().(*peerSpec); ok {
			key = sp.laddr
		}
	}
	sp := h.lookupPeer(key)
	hd := h.rec.handle(c.(*conn))
	if sp == nil {
		h.rec.emit("OpenUnknown", "h", hd, "g", g, "raddr", raddr, "laddr", laddr)
		return nil, Close
	}
	if atomic.CompareAndSwapInt32(&h.wantTid, 1, 0) {
		atomic.StoreInt32(&h.loopTid, int32(unix.Gettid()))
	}
	vc := &vconn{spec: sp, c: c, h: hd, rng: vsup.NewRng(sp.seed), lazyLeft: 3, floodGate: make(chan struct{}),
		midReached: make(chan struct{}), tailDone: make(chan struct{})}
	h.conns.Store(c, vc)
	h.rec.emit("Open", "c", sp.id, "h", hd, "g", g, "raddr", raddr, "laddr", laddr, "fd", c.Fd(), "loop", c.(*conn).loop.idx)
	atomic.AddInt32(&h.opened, 1)
	h.fdOf.Store(sp.id, c.Fd())
	if vc.rng.Intn(4) == 0 {
		// a descriptor handed to the user: the framework must never close it
		if fd, err := c.Dup(); err == nil {
			h.rec.emit("UserDup", "fd", fd, "c", sp.id)
			vc.dupFd = fd
		}
	}
	if sp.openOut >= 0 {
		f := mkFrame(sp.id, 0, vc.kOut, sp.openOut)
		h.rec.emit("WIssue", "c", sp.id, "op", "OnOpenOut", "w", 0, "k", vc.kOut, "len", len(f))
		vc.kOut++
		out = f
	}
	if h.raceMode {
		// two of them per connection: the concurrency-safe calls also race with each other
		h.asyncWG.Add(2)
		go h.hammer(vc)
		go h.hammer(vc)
	}
	// asynchronous writers / wakers are user goroutines holding the Conn
	if sp.asyncW > 0 || sp.wakes > 0 {
		vc.asyncLeft = int32(sp.asyncW)
		vc.floodLeft = int32(sp.asyncW)
		if sp.wakes > 0 {
			vc.asyncLeft++
		}
		for w := 1; w <= sp.asyncW; w++ {
			h.asyncWG.Add(1)
			go h.asyncWriter(vc, w)
		}
		if sp.wakes > 0 {
			h.asyncWG.Add(1)
			go h.waker(vc)
		}
	}
	if sp.openHold > 0 {
		time.Sleep(time.Duration(sp.openHold) * time.Millisecond)
	}
	if sp.closeAt == 0 && sp.closeHow == "action" {
		h.rec.emit("CloseReq", "c", sp.id, "how", "action-onopen")
		h.rec.emit("OpenEnd", "c", sp.id, "h", hd, "action", "Close")
		return out, Close
	}
	if sp.stopOn == "OnOpen" {
		h.rec.emit("StopReq", "src", "OnOpen", "g", g)
		h.rec.emit("OpenEnd", "c", sp.id, "h", hd, "action", "Shutdown")
		return out, Shutdown
	}
	h.rec.emit("OpenEnd", "c", sp.id, "h", hd, "action", "None")
	return out, None
}

// closeUserDups closes the descriptors obtained through Dup, checking that they are still ours.
func (h *vhandler) closeUserDups() { h.closeDups(false) }

func (h *vhandler) closeDups(final bool) {
	if final {
		h.dupWG.Wait()
	}
	h.dupMu.Lock()
	defer h.dupMu.Unlock()
	if final { // connections that never closed (no callback is running any more)
		h.conns.Range(func(_, v any) bool {
			if vc := v.(*vconn); vc.dupFd > 0 {
				h.userDups = append(h.userDups, vc.dupFd)
				vc.dupFd = 0
			}
			return true
		})
	}
	for _, fd := range h.userDups {
		var st unix.Stat_t
		err := unix.Fstat(fd, &st)
		h.rec.emit("UserDupClose", "fd", fd, "ok", err == nil && st.Mode&unix.S_IFMT == unix.S_IFSOCK)
		_ = unix.Close(fd)
	}
	h.userDups = nil
}

// hammer calls the operations documented as concurrency-safe from a user goroutine while the loops run.
func (h *vhandler) hammer(vc *vconn) {
	defer h.asyncWG.Done()
	rng := vsup.NewRng(vc.spec.seed * 77)
	for i := 0; i < 30; i++ {
		switch rng.Intn(9) {
		case 0:
			vc.c.SetSafeContext(i)
		case 1:
			_ = vc.c.SafeContext()
		case 2:
			_ = vc.c.Fd()
		case 3:
			if fd, err := vc.c.Dup(); err == nil {
				_ = unix.Close(fd)
			}
		case 4:
			_ = vc.c.SetNoDelay(true)
		case 5:
			_ = h.eng.CountConnections()
		case 6:
			_ = vc.c.EventLoop().Execute(context.Background(), RunnableFunc(func(context.Context) error { return nil }))
		case 7:
			_ = vc.c.Wake(nil)
		case 8:
			if fd, err := h.eng.Dup(); err == nil {
				_ = unix.Close(fd)
			}
		}
		time.Sleep(time.Duration(rng.Intn(200)) * time.Microsecond)
	}
}

func (h *vhandler) newReq() int { return int(atomic.AddInt64(&h.areq, 1)) }

func (h *vhandler) asyncWriter(vc *vconn, w int) {
	defer h.asyncWG.Done()
	sp := vc.spec
	rng := vsup.NewRng(sp.seed*31 + uint64(w))
	total := sp.asyncN
	if sp.flood {
		total += 40 // ... and goes on issuing while the loop works the pile off (issue order must still hold)
	}
	for k := 0; k < total; k++ {
		if sp.flood && k == sp.asyncN {
			if atomic.AddInt32(&vc.floodLeft, -1) == 0 {
				vc.floodOnce.Do(func() { close(vc.floodGate) })
			}
			if w == 1 {
				// the further frames of writer 1 are issued while the loop is in the middle of the pile (it waits in
				// the callback of frame asyncN/2): the queues are partly worked off at that moment
				select {
				case <-vc.midReached:
				case <-time.After(5 * time.Second):
				}
			}
		}
		body := []int{0, 1, 37, 500, 4000, 20000, 70000}[rng.Intn(7)]
		if sp.flood {
			body = rng.Intn(2)
		}
		f := mkFrame(sp.id, w, k, body)
		a := h.newReq()
		kk := k
		cb := func(c Conn, err error) error {
			h.rec.emit("ACb", "a", a, "c", sp.id, "err", errClass(err), "g", vsup.Goid())
			atomic.AddInt32(&h.pendingCb, -1)
			atomic.AddInt32(&vc.asyncCbs, -1)
			if sp.flood && w == 1 && kk == sp.asyncN/2 {
				vc.midOnce.Do(func() { close(vc.midReached) })
				select {
				case <-vc.tailDone:
				case <-time.After(5 * time.Second):
				}
			}
			return nil
		}
		atomic.AddInt32(&vc.asyncCbs, 1)
		var err error
		if rng.Intn(3) == 0 {
			parts := splitFrame(f, rng)
			h.rec.emit("AIssue", "a", a, "c", sp.id, "kind", "AsyncWritev", "w", w, "k", k, "len", len(f), "g", vsup.Goid())
			err = vc.c.AsyncWritev(parts, cb)
		} else {
			h.rec.emit("AIssue", "a", a, "c", sp.id, "kind", "AsyncWrite", "w", w, "k", k, "len", len(f), "g", vsup.Goid())
			err = vc.c.AsyncWrite(f, cb)
		}
		h.rec.emit("AIssued", "a", a, "err", errClass(err))
		if err == nil {
			atomic.AddInt32(&h.pendingCb, 1)
		} else {
			atomic.AddInt32(&vc.asyncCbs, -1)
		}
		if rng.Intn(4) == 0 && !sp.flood {
			time.Sleep(time.Duration(rng.Intn(300)) * time.Microsecond)
		}
	}
	if sp.flood && w == 1 {
		close(vc.tailDone)
	}
	h.asyncDone(vc)
}

func (h *vhandler) waker(vc *vconn) {
	defer h.asyncWG.Done()
	sp := vc.spec
	rng := vsup.NewRng(sp.seed*37 + 5)
	for k := 0; k < sp.wakes; k++ {
		if rng.Intn(2) == 0 {
			// an asynchronous write of nothing: still a request whose callback belongs on the loop, exactly once
			a0 := h.newReq()
			kind := []string{"AsyncWriteEmpty", "AsyncWritevEmpty", "AsyncWritevNil"}[rng.Intn(3)]
			h.rec.emit("AIssue", "a", a0, "c", sp.id, "kind", kind, "w", 0, "k", 0, "len", 0, "g", vsup.Goid())
			cb0 := func(c Conn, err error) error {
				h.rec.emit("ACb", "a", a0, "c", sp.id, "err", errClass(err), "g", vsup.Goid())
				atomic.AddInt32(&h.pendingCb, -1)
				return nil
			}
			atomic.AddInt32(&h.pendingCb, 1)
			var err0 error
			switch kind {
			case "AsyncWriteEmpty":
				err0 = vc.c.AsyncWrite([]byte{}, cb0)
			case "AsyncWritevEmpty":
				err0 = vc.c.AsyncWritev([][]byte{}, cb0)
			default:
				err0 = vc.c.AsyncWritev(nil, cb0)
			}
			h.rec.emit("AIssued", "a", a0, "err", errClass(err0))
			if err0 != nil {
				atomic.AddInt32(&h.pendingCb, -1)
			}
		}
		a := h.newReq()
		h.rec.emit("AIssue", "a", a, "c", sp.id, "kind", "Wake", "w", 0, "k", 0, "len", 0, "g", vsup.Goid())
		err := vc.c.Wake(func(c Conn, err error) error {
			h.rec.emit("ACb", "a", a, "c", sp.id, "err", errClass(err), "g", vsup.Goid())
			atomic.AddInt32(&h.pendingCb, -1)
			return nil
		})
		h.rec.emit("AIssued", "a", a, "err", errClass(err))
		if err == nil {
			atomic.AddInt32(&h.pendingCb, 1)
		}
		time.Sleep(time.Duration(100+rng.Intn(2000)) * time.Microsecond)
	}
	h.asyncDone(vc)
}

// asyncDone: the last asynchronous goroutine of a connection wakes it so that the handler can finish.
func (h *vhandler) asyncDone(vc *vconn) {
	if atomic.AddInt32(&vc.asyncLeft, -1) == 0 {
		vc.floodOnce.Do(func() { close(vc.floodGate) })
		a := h.newReq()
		h.rec.emit("AIssue", "a", a, "c", vc.spec.id, "kind", "Wake", "w", 0, "k", 0, "len", 0, "g", vsup.Goid())
		sp := vc.spec
		err := vc.c.Wake(func(c Conn, err error) error {
			h.rec.emit("ACb", "a", a, "c", sp.id, "err", errClass(err), "g", vsup.Goid())
			atomic.AddInt32(&h.pendingCb, -1)
			return nil
		})
		h.rec.emit("AIssued", "a", a, "err", errClass(err))
		if err == nil {
			atomic.AddInt32(&h.pendingCb, 1)
		}
	}
}

func splitFrame(f []byte, rng *vsup.Rng) [][]byte {
	var parts [][]byte
	rest := f
	n := 1 + rng.Intn(4)
	for i := 0; i < n-1 && len(rest) > 0; i++ {
		k := rng.Intn(len(rest) + 1)
		parts = append(parts, rest[:k])
		rest = rest[k:]
		if rng.Intn(4) == 0 {
			parts = append(parts, nil)
		}
	}
	return append(parts, rest)
}

// lastWithEOF hands out its bytes in pieces of at most 700 and the last piece together with io.EOF.
type lastWithEOF struct {
	b   []byte
	off int
}

func (r *lastWithEOF) Read(p []byte) (int, error) {
	n := len(r.b) - r.off
	if n > 700 {
		n = 700
	}
	if n > len(p) {
		n = len(p)
	}
	copy(p, r.b[r.off:r.off+n])
	r.off += n
	if r.off == len(r.b) {
		return n, io.EOF
	}
	return n, nil
}

type captureWriter struct {
	limit int // accept at most limit bytes in total, then fail
	got   []byte
}

func (w *captureWriter) Write(p []byte) (int, error) {
	room := w.limit - len(w.got)
	if room >= len(p) {
		w.got = append(w.got, p...)
		return len(p), nil
	}
	if room < 0 {
		room = 0
	}
	w.got = append(w.got, p[:room]...)
	return room, io.ErrShortWrite
}

func (h *vhandler) touch(c Conn) {
	if h.raceMode {
		h.inCb[(c.(*conn).loop.idx+256)%512]++
	}
}

func (h *vhandler) OnTraffic(c Conn) Action {
	h.touch(c)
	defer h.touch(c)
	g := vsup.Goid()
	v, ok := h.conns.Load(c)
	if !ok {
		h.rec.emit("TrafficUnknown", "h", h.rec.handle(c.(*conn)), "g", g)
		return None
	}
	vc := v.(*vconn)
	sp := vc.spec
	if sp.udp {
		return h.onDatagram(vc, c)
	}
	vc.callbacks++
	ra, la := "<nil>", "<nil>"
	if a := c.RemoteAddr(); a != nil {
		ra = a.String()
	}
	if a := c.LocalAddr(); a != nil {
		la = a.String()
	}
	h.rec.emit("Traffic", "c", sp.id, "g", g, "ib", c.InboundBuffered(), "ob", c.OutboundBuffered(), "raddr", ra, "laddr", la)
	atomic.StoreInt64(&sp.delivered, int64(vc.consumed+c.InboundBuffered()))
	if pc := atomic.LoadInt32(&h.parkConn); pc != 0 && pc == int32(sp.id) && atomic.CompareAndSwapInt32(&h.parkConn, pc, 0) {
		close(h.parkReached)
		select {
		case <-h.parkRelease:
		case <-time.After(10 * time.Second):
		}
	}
	if sp.closeOther != 0 && vc.callbacks == 1 {
		// a close requested from inside another connection's callback: if the loop already holds an event for that
		// connection (both were reported ready by the same wait), that event is now about a number nobody owns
		h.conns.Range(func(_, v any) bool {
			o := v.(*vconn)
			if o.spec.id == sp.closeOther && !o.closed && o.c.(*conn).loop == c.(*conn).loop && o.c.(*conn).opened {
				o.closed = true
				h.rec.emit("CloseReq", "c", o.spec.id, "how", "elclose")
				err := c.EventLoop().Close(o.c)
				h.rec.emit("ElCloseRet", "c", o.spec.id, "err", errClass(err))
				return false
			}
			return true
		})
	}
	if sp.flood && vc.callbacks == 1 {
		select { // hold the loop so that the requests pile up in its queues
		case <-vc.floodGate:
		case <-time.After(10 * time.Second):
		}
	}
	h.readOps(vc, c)
	action := None
	if sp.closeAt >= 0 && vc.consumed >= sp.closeAt && !vc.closed {
		action = h.closeNow(vc, c)
	} else {
		h.writeOps(vc, c)
	}
	if sp.stopOn == "OnTraffic" && vc.consumed >= sp.total/2 {
		atomic.StoreInt32(&h.stopFromTraffic, int32(sp.id))
	}
	if atomic.LoadInt32(&h.stopFromTraffic) == int32(sp.id) {
		atomic.StoreInt32(&h.stopFromTraffic, 0)
		h.rec.emit("StopReq", "src", "OnTraffic", "g", g)
		action = Shutdown
	}
	if len(vc.held) > 0 {
		// the bytes Next handed out earlier in this callback are the application's until it returns: the reads, writes
		// and buffer traffic in between must not have touched them
		if !vc.closed && c.(*conn).opened {
			ok, total := true, 0
			for i, b := range vc.held {
				ok = ok && vsup.Match(b, 1000+sp.id, vc.heldAt[i]) < 0
				total += len(b)
			}
			h.rec.emit("ROp", "c", sp.id, "op", "Held", "req", total, "n", 0, "ok", ok, "err", "nil", "ib", c.InboundBuffered())
		}
		vc.held, vc.heldAt = nil, nil
	}
	if vc.probePool || vc.callbacks%8 == 0 {
		vc.probePool = false
		h.poolProbe(sp.id)
	}
	h.rec.emit("TrafficEnd", "c", sp.id, "h", vc.h, "action", int(action), "ib", c.InboundBuffered(), "ob", c.OutboundBuffered())
	return action
}

// poolProbe: the byte-slice pool hands out memory that nobody else holds -- two slices taken one after the other
// are two different pieces of memory, whatever was returned to the pool before (a slice put back twice comes out twice).
func (h *vhandler) poolProbe(c int) {
	if h.raceMode {
		return
	}
	for size := 64; size <= 65536; size <<= 1 {
		a, b := byteslice.Get(size), byteslice.Get(size)
		if &a[:1][0] == &b[:1][0] {
			h.rec.emit("PoolAlias", "c", c, "size", size)
		}
		byteslice.Put(a)
		byteslice.Put(b)
	}
}

func (h *vhandler) closeNow(vc *vconn, c Conn) Action {
	sp := vc.spec
	vc.closed = true
	switch sp.closeHow {
	case "action":
		h.rec.emit("CloseReq", "c", sp.id, "how", "action")
		return Close
	case "elclose":
		h.rec.emit("CloseReq", "c", sp.id, "how", "elclose")
		err := c.EventLoop().Close(c)
		h.rec.emit("ElCloseRet", "c", sp.id, "err", errClass(err))
		h.staleWrites(vc, c)
		return None
	case "async", "asynccb":
		a := h.newReq()
		h.rec.emit("AIssue", "a", a, "c", sp.id, "kind", map[string]string{"async": "Close", "asynccb": "CloseCb"}[sp.closeHow], "w", 0, "k", 0, "len", 0, "g", vsup.Goid())
		var err error
		if sp.closeHow == "async" {
			err = c.Close()
			h.rec.emit("ANoCb", "a", a)
		} else {
			err = c.CloseWithCallback(func(cc Conn, e error) error {
				h.rec.emit("ACb", "a", a, "c", sp.id, "err", errClass(e), "g", vsup.Goid())
				atomic.AddInt32(&h.pendingCb, -1)
				return nil
			})
			if err == nil {
				atomic.AddInt32(&h.pendingCb, 1)
			}
		}
		h.rec.emit("AIssued", "a", a, "err", errClass(err))
	}
	return None
}

// staleWrites: the callback goes on using a connection it has just closed through EventLoop.Close (the close is
// synchronous: the descriptor is gone). Foreign sockets are opened first so that the number is, if possible, in use
// again by something that is not the framework's; Write and Writev must then fail without a system call on that
// number, and nothing may arrive on the foreign socket.
func (h *vhandler) staleWrites(vc *vconn, c Conn) {
	sp := vc.spec
	fd := -1
	if v, ok := h.fdOf.Load(sp.id); ok {
		fd = v.(int)
	}
	var pairs [][2]int
	other := -1
	for i := 0; i < 16 && other < 0; i++ {
		p, err := unix.Socketpair(unix.AF_UNIX, unix.SOCK_STREAM|unix.SOCK_NONBLOCK|unix.SOCK_CLOEXEC, 0)
		if err != nil {
			break
		}
		pairs = append(pairs, p)
		if p[0] == fd {
			other = p[1]
		} else if p[1] == fd {
			other = p[0]
		}
	}
	n1, e1 := c.Write([]byte("stale-write"))
	n2, e2 := c.Writev([][]byte{[]byte("stale-"), []byte("writev")})
	leaked := 0
	if other >= 0 {
		buf := make([]byte, 64)
		if n, _ := unix.Read(other, buf); n > 0 {
			leaked = n
		}
	}
	for _, p := range pairs {
		_ = unix.Close(p[0])
		_ = unix.Close(p[1])
	}
	h.rec.emit("StaleWrite", "c", sp.id, "n", n1, "err", errClass(e1), "nv", n2, "errv", errClass(e2), "reused", other >= 0, "leaked", leaked)
}

func (h *vhandler) readOps(vc *vconn, c Conn) {
	sp := vc.spec
	id := 1000 + sp.id
	emitR := func(op string, req, n int, ok bool, err error) {
		h.rec.emit("ROp", "c", sp.id, "op", op, "req", req, "n", n, "ok", ok, "err", errClass(err), "ib", c.InboundBuffered())
	}
	h.readOps0(vc, c, emitR)
	// the peer has sent everything and it is all here: finish the stream, whatever the policy left behind
	if vc.consumed+c.InboundBuffered() >= sp.total && c.InboundBuffered() > 0 {
		avail := c.InboundBuffered()
		b, err := c.Next(-1)
		ok := vsup.Match(b, id, vc.consumed) < 0 && len(b) == avail
		vc.consumed += len(b)
		emitR("Next", -1, len(b), ok, err)
	}
}

func (h *vhandler) readOps0(vc *vconn, c Conn, emitR func(op string, req, n int, ok bool, err error)) {
	sp := vc.spec
	id := 1000 + sp.id
	sizes := []int{0, 1, 2, 3, 7, 100, 511, 512, 1000, 4096, 65536}
	for round := 0; round < 6; round++ {
		avail := c.InboundBuffered()
		mode := sp.consume
		if mode == "lazy" {
			if vc.lazyLeft > 0 && vc.consumed+avail < sp.total {
				vc.lazyLeft--
				return
			}
			mode = "all"
		}
		switch mode {
		case "all":
			b, err := c.Next(-1)
			ok := vsup.Match(b, id, vc.consumed) < 0 && len(b) == avail
			vc.consumed += len(b)
			emitR("Next", -1, len(b), ok, err)
			return
		case "dribble":
			if avail == 0 {
				return
			}
			p := make([]byte, 1+vc.rng.Intn(3))
			n, err := c.Read(p)
			ok := vsup.Match(p[:n], id, vc.consumed) < 0
			vc.consumed += n
			emitR("Read", len(p), n, ok, err)
			if vc.rng.Intn(3) == 0 {
				return
			}
			continue
		case "wrap":
			// a reader that always leaves a fixed remainder behind: the leftover travels round the connection's ring
			// buffer and lies across its end every few callbacks.  Look at everything (leftover + fresh bytes), look at
			// the leftover alone again, then give up all but the remainder
			// (two segments are left to pile up first; from then on every callback gives up as much as has just
			// arrived, taken from the front of the leftover, so that the ring stays about half full while its read and
			// write positions advance by one segment per callback)
			inRing := c.(*conn).inboundBuffer.Buffered()
			b, err := c.Peek(-1)
			ok := vsup.Match(b, id, vc.consumed) < 0 && len(b) == avail
			emitR("Peek", -1, len(b), ok, err)
			for _, k2 := range []int{inRing, 200} { // the leftover alone, and a piece of it small enough for another size class
				if k2 > 0 && k2 <= inRing {
					b2, err := c.Peek(k2)
					ok := vsup.Match(b2, id, vc.consumed) < 0 && (err != nil || len(b2) == k2)
					emitR("Peek", k2, len(b2), ok, err)
				}
			}
			if j := avail - inRing; inRing >= 500 && j > 0 && j <= inRing {
				d, err := c.Discard(j)
				vc.consumed += d
				emitR("Discard", j, d, d == j, err)
			}
			vc.probePool = true
			return
		case "record":
			// fixed-size records (a 2..4 byte header protocol): whole records only, the rest stays buffered, so
			// that the next record spans the leftover and the fresh bytes (served from pooled scratch memory)
			rs := 2 + int(sp.seed%3)
			if sp.recSize > 0 {
				rs = sp.recSize
			}
			for i := 0; i < 64 && c.InboundBuffered() >= rs; i++ {
				if i%2 == 0 {
					b, err := c.Next(rs)
					ok := vsup.Match(b, id, vc.consumed) < 0 && len(b) == rs
					if err == nil && len(b) > 0 && len(vc.held) < 16 {
						vc.held, vc.heldAt = append(vc.held, b), append(vc.heldAt, vc.consumed)
					}
					vc.consumed += len(b)
					emitR("Next", rs, len(b), ok, err)
				} else {
					b, err := c.Peek(rs)
					ok := vsup.Match(b, id, vc.consumed) < 0 && len(b) == rs
					emitR("Peek", rs, len(b), ok, err)
					d, err := c.Discard(rs)
					vc.consumed += d
					emitR("Discard", rs, d, d == rs, err)
				}
			}
			return
		case "peekonly":
			if avail == 0 {
				return
			}
			// leave everything buffered until the whole stream is there, then take it with Peek+Discard
			b, err := c.Peek(-1)
			ok := vsup.Match(b, id, vc.consumed) < 0 && len(b) == avail
			emitR("Peek", -1, len(b), ok, err)
			if vc.consumed+avail >= sp.total {
				d, err := c.Discard(avail)
				vc.consumed += d
				emitR("Discard", avail, d, d == avail, err)
			}
			return
		}
		// mixed
		k := sizes[vc.rng.Intn(len(sizes))]
		if vc.rng.Intn(3) == 0 && avail > 0 {
			k = 1 + vc.rng.Intn(avail)
		}
		switch vc.rng.Intn(8) {
		case 7: // Peek everything, Peek a part of it again (the first view is given up by that), then Discard
			b, err := c.Peek(-1)
			ok := vsup.Match(b, id, vc.consumed) < 0 && len(b) == avail
			emitR("Peek", -1, len(b), ok, err)
			if avail > 1 {
				k2 := 1 + vc.rng.Intn(avail-1)
				if inRing := c.(*conn).inboundBuffer.Buffered(); inRing > 0 && inRing < avail && vc.rng.Intn(2) == 0 {
					k2 = inRing // exactly what was left over from earlier callbacks (it may lie across the ring's end)
				}
				b2, err := c.Peek(k2)
				ok := vsup.Match(b2, id, vc.consumed) < 0 && (err != nil || len(b2) == k2)
				emitR("Peek", k2, len(b2), ok, err)
				j := 1 + vc.rng.Intn(k2)
				d, err := c.Discard(j)
				vc.consumed += d
				emitR("Discard", j, d, d == j, err)
				vc.probePool = true
			}
		case 0: // Read
			p := make([]byte, k)
			n, err := c.Read(p)
			ok := vsup.Match(p[:n], id, vc.consumed) < 0 && n <= avail
			vc.consumed += n
			emitR("Read", k, n, ok, err)
		case 1: // Next
			b, err := c.Next(k)
			ok := vsup.Match(b, id, vc.consumed) < 0
			if err == nil && k > 0 {
				ok = ok && len(b) == k
			}
			if err == nil && len(b) > 0 && len(vc.held) < 16 {
				vc.held, vc.heldAt = append(vc.held, b), append(vc.heldAt, vc.consumed)
			}
			vc.consumed += len(b)
			emitR("Next", k, len(b), ok, err)
		case 2: // Peek + partial Discard
			b, err := c.Peek(k)
			ok := vsup.Match(b, id, vc.consumed) < 0
			if err == nil && k > 0 {
				ok = ok && len(b) == k
			}
			emitR("Peek", k, len(b), ok, err)
			if err == nil && len(b) > 0 {
				j := vc.rng.Intn(len(b) + 1)
				if j > 0 {
					d, err := c.Discard(j)
					vc.consumed += d
					emitR("Discard", j, d, d == j, err)
				}
			}
		case 3: // Peek all, Discard across both buffers
			b, err := c.Peek(-1)
			ok := vsup.Match(b, id, vc.consumed) < 0 && len(b) == avail
			emitR("Peek", -1, len(b), ok, err)
			if avail > 0 {
				j := 1 + vc.rng.Intn(avail)
				d, err := c.Discard(j)
				vc.consumed += d
				emitR("Discard", j, d, d == j, err)
			}
		case 4: // WriteTo a writer that stops early
			w := &captureWriter{limit: k}
			n, err := c.WriteTo(w)
			ok := vsup.Match(w.got, id, vc.consumed) < 0 && int(n) == len(w.got)
			vc.consumed += len(w.got)
			emitR("WriteTo", k, len(w.got), ok, err)
		case 5: // nothing this time
			if vc.rng.Intn(2) == 0 {
				round = 99
			}
		case 6: // everything
			b, err := c.Next(-1)
			ok := vsup.Match(b, id, vc.consumed) < 0 && len(b) == avail
			vc.consumed += len(b)
			emitR("Next", -1, len(b), ok, err)
		}
		if c.InboundBuffered() == 0 || vc.rng.Intn(3) == 0 || round >= 99 {
			break
		}
	}
}

func (h *vhandler) writeOps(vc *vconn, c Conn) {
	sp := vc.spec
	if sp.reply == "none" {
		return
	}
	direct := false // only the calls that go straight to the socket (Write / Writev)
	write := func(f []byte, w int) {
		op := []string{"Write", "Writev", "ReadFromFlush", "Write"}[vc.rng.Intn(4)]
		if direct && op == "ReadFromFlush" {
			op = "Write"
		}
		h.rec.emit("WIssue", "c", sp.id, "op", op, "w", w, "k", vc.kOut, "len", len(f))
		vc.kOut++
		vc.outBytes += len(f)
		var n int
		var err error
		switch op {
		case "Write":
			n, err = c.Write(f)
		case "Writev":
			n, err = c.Writev(splitFrame(f, vc.rng))
		case "ReadFromFlush":
			var m int64
			var src io.Reader = bytes.NewReader(f)
			if vc.rng.Intn(2) == 0 {
				src = &lastWithEOF{b: f} // (a reader may hand over its last bytes together with io.EOF)
			}
			m, err = c.ReadFrom(src)
			n = int(m)
			if err == nil {
				err = c.Flush()
			}
		}
		h.rec.emit("WOp", "c", sp.id, "op", op, "len", len(f), "n", n, "err", errClass(err), "ob", c.OutboundBuffered())
	}
	// the final frame is only written once every asynchronous write of this connection has been carried out
	// (their callbacks run on this goroutine), so that it is the last thing the peer receives
	done := vc.consumed >= sp.total && atomic.LoadInt32(&vc.asyncLeft) <= 0 && atomic.LoadInt32(&vc.asyncCbs) == 0
	if sp.reply == "drip" && !vc.dripped && !vc.finSent {
		// many small frames to a peer that is not reading: each goes straight to the socket and is taken whole until
		// the socket is full; the first one that is not taken at all (EAGAIN, nothing written, nothing buffered yet)
		// is the one after which the write interest has to be registered
		vc.dripped = true
		direct = true
		frames := 120
		if sp.network == "unix" {
			frames = 500 // (a Unix-domain socket takes a couple of hundred KB before it is full)
		}
		for i := 0; i < frames; i++ {
			write(mkFrame(sp.id, 0, vc.kOut, 2500), 0)
		}
		direct = false
	}
	if !vc.finSent {
		nf := vc.rng.Intn(3)
		if sp.reply == "big" {
			nf = 1 + vc.rng.Intn(2)
		}
		for i := 0; i < nf; i++ {
			body := []int{0, 1, 100, 1000, 4084, 10000}[vc.rng.Intn(6)]
			budget := 3 << 20
			if h.cfg.sndbuf > 0 || sp.peerRead != "normal" {
				budget = 60 << 10 // tiny socket buffers make loopback TCP crawl (about 40 KB/s): one big frame is plenty
			}
			if sp.budget > 0 {
				budget = sp.budget
			}
			if sp.reply == "big" && vc.outBytes < budget {
				body = []int{65536, 70000, 200000, 1 << 20}[vc.rng.Intn(4)]
				if budget < 1<<20 {
					body = []int{65536, 70000}[vc.rng.Intn(2)]
				}
				if sp.budget > 0 && vc.outBytes == 0 {
					body = sp.budget // more than the socket buffers take while the peer is not reading: a backlog for certain
				}
			}
			if vc.outBytes > 2*budget {
				break
			}
			write(mkFrame(sp.id, 0, vc.kOut, body), 0)
		}
	}
	if done && !vc.finSent {
		// the final frame: the peer ends the connection once it has seen it
		vc.finSent = true
		write(mkFrame(sp.id, 0, vc.kOut, 3), 0) // body length 3 marks the final frame
		h.rec.emit("FinFrame", "c", sp.id, "k", vc.kOut-1)
	}
}

func (h *vhandler) OnClose(c Conn, err error) Action {
	h.touch(c)
	g := vsup.Goid()
	v, ok := h.conns.Load(c)
	if !ok {
		h.rec.emit("CloseUnknown", "h", h.rec.handle(c.(*conn)), "g", g, "err", errClass(err))
		return None
	}
	vc := v.(*vconn)
	closeAct := None
	// (in the lives whose shutdown is requested from OnClose every OnClose answers Shutdown, also those of the final
	// sweep over the connections that are still open)
	allShutdown := h.cfg != nil && h.cfg.stopSrc == "OnClose"
	if vc.spec.stopOn == "OnClose" || allShutdown {
		closeAct = Shutdown
	}
	h.rec.emit("Close", "c", vc.spec.id, "h", vc.h, "action", int(closeAct), "g", g, "err", errClass(err), "ib", c.InboundBuffered(), "consumed", vc.consumed)
	defer atomic.AddInt32(&h.closedN, 1) // after the event is in the log (the scenario's quiescence test reads it)
	if vc.dupFd > 0 {
		// our duplicate must have survived the framework's close of its own descriptor; give it up now so
		// that the peer sees the end of the connection
		h.dupMu.Lock()
		h.userDups = append(h.userDups, vc.dupFd)
		h.dupMu.Unlock()
		vc.dupFd = 0
		// keep it a little beyond the framework's own close of the connection (a duplicate that outlives
		// the connection keeps the open file description, and with it any forgotten epoll registration, alive)
		h.dupWG.Add(1)
		go func() {
			defer h.dupWG.Done()
			time.Sleep(25 * time.Millisecond)
			h.closeUserDups()
		}()
	}
	if vc.rng.Intn(4) == 0 {
		// a farewell written from OnClose (best effort; it may well fail on a reset connection)
		n, werr := c.Write([]byte("bye"))
		h.rec.emit("CloseWrite", "c", vc.spec.id, "n", n, "err", errClass(werr))
	}
	if vc.rng.Intn(4) == 0 {
		// a close of the connection requested from inside its own OnClose (EventLoop.Close is synchronous on the
		// loop's goroutine): the connection is being closed already, the request must be a no-op -- no second
		// OnClose, no second removal from the registry (Engine.CountConnections is read at quiescence)
		cerr := c.EventLoop().Close(c)
		h.rec.emit("CloseReenter", "c", vc.spec.id, "err", errClass(cerr))
	}
	if vc.spec.stopOn == "OnClose" || allShutdown {
		h.rec.emit("StopReq", "src", "OnClose", "g", g)
		return Shutdown
	}
	return None
}

// onDatagram: a connected UDP socket of a client engine; every datagram is one OnTraffic, consumed whole.
func (h *vhandler) onDatagram(vc *vconn, c Conn) Action {
	sp := vc.spec
	ra, la := "<nil>", "<nil>"
	if a := c.RemoteAddr(); a != nil {
		ra = a.String()
	}
	if a := c.LocalAddr(); a != nil {
		la = a.String()
	}
	h.rec.emit("Traffic", "c", sp.id, "g", vsup.Goid(), "ib", c.InboundBuffered(), "ob", c.OutboundBuffered(), "raddr", ra, "laddr", la)
	b, _ := c.Next(-1)
	atomic.AddInt64(&sp.delivered, int64(len(b)))
	h.rec.emit("TrafficEnd", "c", sp.id, "h", vc.h, "action", int(None), "ib", c.InboundBuffered(), "ob", c.OutboundBuffered())
	return None
}

var _ = context.Background
