package gnet

// C16: the address and option tables evaluated by TLC from specs/Addrs.tla against the real
// parseProtoAddr / createListeners / NewClient / determineEventLoops, plus a seeded byte-level
// mutator over the generated strings for totality (no panic, outcome in the closed set).

import (
	"encoding/json"
	"errors"
	"fmt"
	"os"
	"runtime"
	"strings"
	"testing"

	"github.com/panjf2000/gnet/v2/internal/vsup"
	errorx "github.com/panjf2000/gnet/v2/pkg/errors"
)

type addrTables struct {
	Addrs []struct {
		Addr     string   `json:"addr"`
		Expect   []string `json:"expect"`
		Scheme   string   `json:"scheme"`
		Endpoint string   `json:"endpoint"`
	} `json:"addrs"`
	Caps   []struct{ Req, Norm int } `json:"caps"`
	Chunks []struct {
		Req   int  `json:"req"`
		Et    bool `json:"et"`
		EtOut bool `json:"etOut"`
		Chunk int  `json:"chunk"`
	} `json:"chunks"`
	Loops []struct {
		Multicore bool `json:"multicore"`
		Num       int  `json:"num"`
		Expect    int  `json:"expect"`
	} `json:"loops"`
}

var sevenSchemes = map[string]bool{"tcp": true, "tcp4": true, "tcp6": true, "udp": true, "udp4": true, "udp6": true, "unix": true}

func classifyParse(addr string) (class, scheme, endpoint string) {
	defer func() {
		if r := recover(); r != nil {
			class = fmt.Sprint("panic: ", r)
		}
	}()
	s, e, err := parseProtoAddr(addr)
	switch {
	case err == nil:
		return "ok", s, e
	case errors.Is(err, errorx.ErrInvalidNetworkAddress):
		return "invalid", "", ""
	case errors.Is(err, errorx.ErrUnsupportedProtocol):
		return "unsupported", "", ""
	}
	return "fail", "", ""
}

func TestVerifAddrTables(t *testing.T) {
	raw, err := os.ReadFile(os.Getenv("VERIF_TABLES"))
	if err != nil {
		t.Fatal(err)
	}
	var tb addrTables
	if err := json.Unmarshal(raw, &tb); err != nil {
		t.Fatal(err)
	}
	rep := vsup.NewReport("addr-tables")
	for _, v := range tb.Addrs {
		rep.Eval("a:" + v.Addr)
		class, scheme, endpoint := classifyParse(v.Addr)
		allowed := false
		for _, e := range v.Expect {
			if e == class {
				allowed = true
			}
			if e == "okraw" && class == "ok" {
				i := strings.Index(v.Addr, "://")
				if i >= 0 && sevenSchemes[scheme] && scheme == strings.ToLower(v.Addr[:i]) && (endpoint == v.Addr[i+3:] || (scheme == "unix" && endpoint != "")) {
					allowed = true
					v.Scheme, v.Endpoint = scheme, endpoint
				}
			}
		}
		if !allowed {
			rep.Violation("parse/class", fmt.Sprintf("parseProtoAddr(%q) -> %s (%q,%q), allowed %v", v.Addr, class, scheme, endpoint, v.Expect), nil)
			continue
		}
		if class == "ok" && (scheme != v.Scheme || endpoint != v.Endpoint) {
			rep.Violation("parse/value", fmt.Sprintf("parseProtoAddr(%q) = (%q,%q), want (%q,%q)", v.Addr, scheme, endpoint, v.Scheme, v.Endpoint), nil)
		}
	}
	// totality under mutation
	rng := vsup.NewRng(vsup.Seed())
	muts := vsup.EnvInt("VERIF_MUTATIONS", 100000)
	for i := 0; i < muts; i++ {
		b := []byte(tb.Addrs[rng.Intn(len(tb.Addrs))].Addr)
		for k := 0; k <= rng.Intn(3); k++ {
			switch rng.Intn(4) {
			case 0:
				if len(b) > 0 {
					b[rng.Intn(len(b))] = byte(rng.Intn(256))
				}
			case 1:
				j := rng.Intn(len(b) + 1)
				b = append(b[:j], append([]byte{"%:/[]@#? \x00\xff."[rng.Intn(12)]}, b[j:]...)...)
			case 2:
				if len(b) > 0 {
					j := rng.Intn(len(b))
					b = append(b[:j], b[j+1:]...)
				}
			case 3:
				b = b[:rng.Intn(len(b)+1)]
			}
		}
		class, scheme, _ := classifyParse(string(b))
		switch class {
		case "ok":
			if !sevenSchemes[scheme] {
				rep.Violation("parse/closed-set", fmt.Sprintf("parseProtoAddr(%q) accepted scheme %q", b, scheme), nil)
			}
		case "invalid", "unsupported", "fail":
		default:
			rep.Violation("parse/panic", fmt.Sprintf("parseProtoAddr(%q): %s", b, class), nil)
		}
		rep.Eval("")
	}
	rep.Set("mutations", muts)
	// capacities and chunk normalisation through createListeners (server) and NewClient (client)
	for _, c := range tb.Caps {
		rep.Eval(fmt.Sprint("cap", c.Req))
		lns, opts, err := createListeners([]string{"tcp://127.0.0.1:0"}, WithReadBufferCap(c.Req), WithWriteBufferCap(c.Req))
		if err != nil {
			t.Fatalf("createListeners: %v", err)
		}
		for _, ln := range lns {
			ln.close()
		}
		if opts.ReadBufferCap != c.Norm || opts.WriteBufferCap != c.Norm {
			rep.Violation("options/cap", fmt.Sprintf("server: requested %d, got read %d write %d, want %d", c.Req, opts.ReadBufferCap, opts.WriteBufferCap, c.Norm), nil)
		}
		cli, err := NewClient(&BuiltinEventEngine{}, WithReadBufferCap(c.Req), WithWriteBufferCap(c.Req))
		if err != nil {
			t.Fatalf("NewClient: %v", err)
		}
		if cli.opts.ReadBufferCap != c.Norm || cli.opts.WriteBufferCap != c.Norm {
			rep.Violation("options/cap", fmt.Sprintf("client: requested %d, got read %d write %d, want %d", c.Req, cli.opts.ReadBufferCap, cli.opts.WriteBufferCap, c.Norm), nil)
		}
	}
	for _, c := range tb.Chunks {
		rep.Eval(fmt.Sprint("chunk", c.Req, c.Et))
		lns, opts, err := createListeners([]string{"tcp://127.0.0.1:0"}, WithEdgeTriggeredIO(c.Et), WithEdgeTriggeredIOChunk(c.Req))
		if err != nil {
			t.Fatalf("createListeners: %v", err)
		}
		for _, ln := range lns {
			ln.close()
		}
		if opts.EdgeTriggeredIO != c.EtOut || opts.EdgeTriggeredIOChunk != c.Chunk {
			rep.Violation("options/chunk", fmt.Sprintf("server: ET=%v chunk=%d -> ET=%v chunk=%d, want ET=%v chunk=%d", c.Et, c.Req, opts.EdgeTriggeredIO, opts.EdgeTriggeredIOChunk, c.EtOut, c.Chunk), nil)
		}
		cli, _ := NewClient(&BuiltinEventEngine{}, WithEdgeTriggeredIO(c.Et), WithEdgeTriggeredIOChunk(c.Req))
		if cli.opts.EdgeTriggeredIO != c.EtOut || cli.opts.EdgeTriggeredIOChunk != c.Chunk {
			rep.Violation("options/chunk", fmt.Sprintf("client: ET=%v chunk=%d -> ET=%v chunk=%d, want ET=%v chunk=%d", c.Et, c.Req, cli.opts.EdgeTriggeredIO, cli.opts.EdgeTriggeredIOChunk, c.EtOut, c.Chunk), nil)
		}
	}
	for _, l := range tb.Loops {
		rep.Eval(fmt.Sprint("loops", l.Multicore, l.Num))
		want := l.Expect
		if want < 0 {
			want = runtime.NumCPU()
			if want > 256 {
				want = 256
			}
		}
		if got := determineEventLoops(&Options{Multicore: l.Multicore, NumEventLoop: l.Num}); got != want {
			rep.Violation("options/loops", fmt.Sprintf("Multicore=%v NumEventLoop=%d -> %d loops, want %d", l.Multicore, l.Num, got, want), nil)
		}
	}
	// Run reports the named errors for bad addresses
	for _, bad := range []struct {
		addr string
		want error
	}{{"tcp://", errorx.ErrInvalidNetworkAddress}, {"sctp://127.0.0.1:1", errorx.ErrUnsupportedProtocol}, {"unix://", errorx.ErrInvalidNetworkAddress}} {
		if err := Run(&BuiltinEventEngine{}, bad.addr); !errors.Is(err, bad.want) {
			rep.Violation("run/error", fmt.Sprintf("Run(%q) = %v, want %v", bad.addr, err, bad.want), nil)
		}
	}
	rep.Sample(map[string]any{"addr": tb.Addrs[0].Addr, "expect": tb.Addrs[0].Expect})
	if err := rep.Write(); err != nil {
		t.Fatal(err)
	}
}
