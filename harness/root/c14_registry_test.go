package gnet

// Channel A for C14: transition-cover replay of specs/ConnMatrix.tla on the real connMatrix of
// the current build (conn_map.go by default, conn_matrix.go with -tags gc_opt).  The model's
// dimensions are model constants, so only the observables are compared: getConn for every
// descriptor of the universe, loadCount, and the multiset visited by iterate.  With
// VERIF_PREFILL=n the registry first receives n filler connections so that the replayed
// operations straddle the 65536-entry row boundary of the real matrix.

import (
	"fmt"
	"net"
	"os"
	"testing"

	"golang.org/x/sys/unix"

	"github.com/panjf2000/gnet/v2/internal/vsup"
	"github.com/panjf2000/gnet/v2/pkg/netpoll"
)

func TestVerifRegistryCover(t *testing.T) {
	g, err := vsup.LoadGraph(os.Getenv("VERIF_GRAPH"))
	if err != nil {
		t.Fatal(err)
	}
	prefill := vsup.EnvInt("VERIF_PREFILL", 0)
	rep := vsup.NewReport("registry-cover")
	const fillerBase = 1000
	n := vsup.CoverReplay(g, vsup.EnvInt("VERIF_MAX_EDGES", 0), vsup.Seed(), func(path []int) {
		var cm connMatrix
		cm.init()
		live := map[int]*conn{}
		for i := 0; i < prefill; i++ {
			c := &conn{fd: fillerBase + i}
			cm.addConn(c, 0)
			live[c.fd] = c
		}
		dead := false
		viol := func(step int, op, what, detail string) {
			rep.Violation("registry/"+op+"/"+what, detail, g.PathLabels(path[:step+1]))
			dead = true
		}
		check := func(step int, op string) {
			if int(cm.loadCount()) != len(live) {
				viol(step, op, "count", fmt.Sprintf("loadCount()=%d with %d live connections", cm.loadCount(), len(live)))
				return
			}
			for fd := 0; fd <= 12; fd++ {
				got := cm.getConn(fd)
				if got != live[fd] {
					viol(step, op, "lookup", fmt.Sprintf("getConn(%d) = %v, want %v", fd, describe(got), describe(live[fd])))
					return
				}
			}
			if prefill > 0 { // fillers around both ends and the row boundary
				for _, fd := range []int{fillerBase, fillerBase + 1, fillerBase + prefill/2, fillerBase + prefill - 2, fillerBase + prefill - 1, fillerBase + prefill} {
					if got := cm.getConn(fd); got != live[fd] {
						viol(step, op, "lookup", fmt.Sprintf("getConn(filler %d) = %v, want %v", fd, describe(got), describe(live[fd])))
						return
					}
				}
			}
		}
		for i, ei := range path {
			e := g.Edges[ei]
			if e.Action == "Norm" {
				continue
			}
			func() {
				defer func() {
					if r := recover(); r != nil {
						viol(i, e.Action, "panic", fmt.Sprint(r))
					}
				}()
				switch e.Action {
				case "Add":
					c := &conn{fd: vsup.Int(e.Args[0])}
					cm.addConn(c, 0)
					live[c.fd] = c
				case "Del":
					c := live[vsup.Int(e.Args[0])]
					cm.delConn(c)
					delete(live, c.fd)
				case "Get":
					// covered by check()
				case "Iterate":
					remove := vsup.Bool(e.Args[0])
					seen := map[*conn]int{}
					cm.iterate(func(c *conn) bool {
						seen[c]++
						if remove {
							cm.delConn(c)
						}
						return true
					})
					for fd, c := range live {
						if seen[c] != 1 {
							viol(i, "Iterate", "visit", fmt.Sprintf("live connection fd=%d visited %d times (remove=%v)", fd, seen[c], remove))
							return
						}
					}
					if len(seen) != len(live) {
						viol(i, "Iterate", "visit", fmt.Sprintf("iterate visited %d connections, %d are live", len(seen), len(live)))
						return
					}
					if remove {
						live = map[int]*conn{}
					}
				case "IterateStop":
					k := vsup.Int(e.Args[0])
					seen := map[*conn]int{}
					cm.iterate(func(c *conn) bool {
						seen[c]++
						return len(seen) < k
					})
					if len(seen) != k {
						viol(i, "IterateStop", "visit", fmt.Sprintf("a walk ended by the callback at its visit %d visited %d connections", k, len(seen)))
						return
					}
					for c, n := range seen {
						if n != 1 || live[c.fd] != c {
							viol(i, "IterateStop", "visit", fmt.Sprintf("fd=%d visited %d times, live=%v", c.fd, n, live[c.fd] == c))
							return
						}
					}
					// ... and the registry goes on exactly as if the walk had never happened: a removal in the middle and
					// two registrations (the edge is the last one of its path)
					victim := -1
					for fd := range live {
						if fd <= 12 && (victim < 0 || fd < victim) {
							victim = fd
						}
					}
					if victim >= 0 {
						cm.delConn(live[victim])
						delete(live, victim)
						check(i, "IterateStop")
						for _, fd := range []int{11, 12} {
							if live[fd] == nil {
								c := &conn{fd: fd}
								cm.addConn(c, 0)
								live[fd] = c
							}
						}
					}
				default:
					panic("unknown action " + e.Action)
				}
				check(i, e.Action)
			}()
			if dead {
				break
			}
		}
		if prefill > 0 && !dead {
			// churn among the fillers: remove entries in the middle of full rows, register new ones, and
			// look everything up again (first / last entries of every row in use, the removed and the new ones)
			rng := vsup.NewRng(vsup.Seed() + uint64(path[len(path)-1]))
			nextFd := fillerBase + prefill + 100
			for round := 0; round < 6 && !dead; round++ {
				victim := fillerBase + rng.Intn(prefill)
				if round%2 == 0 {
					victim = fillerBase + 1000 + rng.Intn(60000) // middle of row 0
				}
				if c := live[victim]; c != nil {
					cm.delConn(c)
					delete(live, victim)
				}
				for k := 0; k < 2; k++ {
					c := &conn{fd: nextFd}
					nextFd++
					cm.addConn(c, 0)
					live[c.fd] = c
				}
				probe := []int{victim, nextFd - 1, nextFd - 2, fillerBase, fillerBase + 1, fillerBase + 65535, fillerBase + 65536, fillerBase + 65537,
					fillerBase + 2*65536 - 1, fillerBase + prefill - 1, fillerBase + prefill - 2, fillerBase + prefill - 3}
				for k := 0; k < 40; k++ {
					probe = append(probe, fillerBase+rng.Intn(prefill))
				}
				if int(cm.loadCount()) != len(live) {
					viol(len(path)-1, "Churn", "count", fmt.Sprintf("loadCount()=%d with %d live connections (prefill %d, round %d)", cm.loadCount(), len(live), prefill, round))
				}
				for _, fd := range probe {
					if got := cm.getConn(fd); got != live[fd] {
						viol(len(path)-1, "Churn", "lookup", fmt.Sprintf("after removing fd %d and adding two (prefill %d, round %d): getConn(%d) = %v, want %v", victim, prefill, round, fd, describe(got), describe(live[fd])))
						break
					}
				}
			}
		}
		last := g.Edges[path[len(path)-1]]
		if last.Action != "Norm" {
			rep.Eval(fmt.Sprintf("%d|%s", last.From, g.EdgeLabel(path[len(path)-1])))
			if len(path) > 6 {
				rep.Sample(g.PathLabels(path))
			}
		}
	})
	rep.Set("edges_replayed", n)
	rep.Set("prefill", prefill)
	if err := rep.Write(); err != nil {
		t.Fatal(err)
	}
}

func describe(c *conn) string {
	if c == nil {
		return "nil"
	}
	return fmt.Sprintf("conn(fd=%d)", c.fd)
}

// TestVerifRegistryInLoop: the registry as the event loop itself uses it -- registration (register0), close
// (el.close), a registration the poller refuses, and the shutdown pattern (closeConns): after every step the
// count, the lookups and an iteration must show exactly the live connections.
// reenterHandler closes the connection once more from inside its OnClose (what a write that fails inside OnClose does
// through conn.write -> eventloop.close, and what EventLoop.Close from the handler does): the entry is already gone
// from the registry, so the second close is none.
type reenterHandler struct {
	BuiltinEventEngine
	reenter bool
	closes  map[int]int
}

func (h *reenterHandler) OnClose(c Conn, _ error) Action {
	h.closes[c.Fd()]++
	if h.reenter && h.closes[c.Fd()] < 3 {
		_ = c.EventLoop().Close(c)
	}
	return None
}

func TestVerifRegistryInLoop(t *testing.T) {
	rep := vsup.NewReport("registry-in-loop")
	p, err := netpoll.OpenPoller()
	if err != nil {
		t.Fatal(err)
	}
	defer p.Close() //nolint:errcheck
	rh := &reenterHandler{closes: map[int]int{}}
	el := &eventloop{engine: &engine{opts: &Options{Logger: nullLogger{}}}, poller: p, eventHandler: rh}
	el.connections.init()
	live := map[int]*conn{}
	check := func(step string) {
		rep.Eval(step)
		if n := int(el.countConn()); n != len(live) {
			rep.Violation("registry/loop/count", fmt.Sprintf("%s: count %d, %d live connections", step, n, len(live)), nil)
		}
		seen := 0
		el.connections.iterate(func(c *conn) bool {
			seen++
			if live[c.fd] != c {
				rep.Violation("registry/loop/iterate", fmt.Sprintf("%s: iterate visits fd %d which is not live", step, c.fd), nil)
			}
			return true
		})
		if seen != len(live) {
			rep.Violation("registry/loop/iterate", fmt.Sprintf("%s: iterate visited %d, %d live", step, seen, len(live)), nil)
		}
	}
	var others []int
	mk := func() *conn {
		fds, err := unix.Socketpair(unix.AF_UNIX, unix.SOCK_STREAM|unix.SOCK_NONBLOCK|unix.SOCK_CLOEXEC, 0)
		if err != nil {
			t.Fatal(err)
		}
		others = append(others, fds[1])
		return newStreamConn("unix", fds[0], el, &unix.SockaddrUnix{}, &net.UnixAddr{}, &net.UnixAddr{})
	}
	rng := vsup.NewRng(vsup.Seed() + 14)
	for round := 0; round < 40; round++ {
		switch rng.Intn(5) {
		case 4: // close one whose OnClose closes it again
			for fd, c := range live {
				rh.reenter = true
				func() {
					defer func() {
						if r := recover(); r != nil {
							rep.Violation("registry/loop/panic", fmt.Sprintf("close re-entered from OnClose: %v", r), nil)
						}
					}()
					_ = el.close(c, nil)
				}()
				rh.reenter = false
				delete(live, fd)
				if n := rh.closes[fd]; n != 1 {
					rep.Violation("registry/loop/reenter", fmt.Sprintf("a close re-entered from inside OnClose ran OnClose %d times for one registration of fd %d", n, fd), nil)
				}
				break
			}
			check("close-reentered")
		case 0, 1: // a registration that succeeds
			c := mk()
			if err := el.register0(c); err != nil {
				t.Fatalf("register0: %v", err)
			}
			live[c.fd] = c
			delete(rh.closes, c.fd)
			check("register")
		case 2: // a registration the poller refuses (a descriptor that cannot be polled): no entry may stay behind
			fd, err := unix.Open("/dev/null", unix.O_RDWR|unix.O_CLOEXEC, 0)
			if err != nil {
				t.Fatal(err)
			}
			c := newStreamConn("tcp", fd, el, &unix.SockaddrInet4{}, &net.TCPAddr{}, &net.TCPAddr{})
			if err := el.register0(c); err == nil {
				rep.Violation("registry/loop/register", "register0 of an unpollable descriptor succeeded", nil)
			}
			if got := el.connections.getConn(fd); got != nil {
				rep.Violation("registry/loop/lookup", fmt.Sprintf("refused registration: getConn(%d) still yields a connection", fd), nil)
			}
			check("register-refused")
		case 3: // close one
			for fd, c := range live {
				_ = el.close(c, nil)
				delete(live, fd)
				if el.connections.getConn(fd) != nil {
					rep.Violation("registry/loop/lookup", fmt.Sprintf("closed: getConn(%d) still yields a connection", fd), nil)
				}
				break
			}
			check("close")
		}
	}
	el.closeConns()
	live = map[int]*conn{}
	check("closeConns")
	for _, fd := range others {
		_ = unix.Close(fd)
	}
	if err := rep.Write(); err != nil {
		t.Fatal(err)
	}
}
