package gnet

// C06 / C03: the shutdown request arrives exactly when a loop is finishing a batch of tasks -- after its last empty
// Dequeue and before it clears its "wake-up pending" flag, so that the exit signal's Trigger sees the flag set and
// writes nothing to the eventfd.  The loop's re-check of its queues is the only thing that lets it see the signal.
// The interleaving is forced with the verif gates (the loop is parked at p.store0 until engine.stop has triggered it).

import (
	"context"
	"fmt"
	"os"
	"path/filepath"
	"sync/atomic"
	"testing"
	"time"

	"github.com/panjf2000/gnet/v2/internal/vhook"
	"github.com/panjf2000/gnet/v2/internal/vsup"
)

func runStopRace(t *testing.T, rec *recorder, reuseport bool, loops int, via string, seed uint64, scratch string, rep *vsup.Report) {
	cfg := &sysCfg{name: "stoprace", network: "unix", loops: loops, reuseport: false, readCap: 2048, writeCap: 4096, stopSrc: via}
	if reuseport {
		cfg.network, cfg.reuseport = "tcp", true
	}
	rec.emit("Reset", "cfg", "stoprace "+cfg.String(), "et", false, "loops", loops, "reuseport", cfg.reuseport, "ticker", false, "seed", int(seed%1000000))
	h := &vhandler{rec: rec, cfg: cfg, booted: make(chan struct{})}
	var addr, dial string
	if cfg.network == "unix" {
		dial = filepath.Join(scratch, fmt.Sprintf("sr%d.sock", seed%100000))
		addr = "unix://" + dial
	} else {
		dial = fmt.Sprintf("127.0.0.1:%d", freePort())
		addr = "tcp://" + dial
	}
	runErr := make(chan error, 1)
	go func() {
		err := Run(h, addr, WithNumEventLoop(loops), WithReusePort(cfg.reuseport), WithLogger(nullLogger{}), WithReadBufferCap(cfg.readCap), WithWriteBufferCap(cfg.writeCap))
		rec.emit("RunRet", "err", errClass(err))
		runErr <- err
	}()
	select {
	case <-h.booted:
	case <-time.After(10 * time.Second):
		t.Fatalf("engine did not boot")
	}
	time.Sleep(20 * time.Millisecond)
	// one idle connection; its loop is the one that will be parked
	sp := &peerSpec{id: 1, seed: seed, network: cfg.network, done: make(chan struct{}), openOut: -1, closeAt: -1, closeHow: "action",
		peerRead: "normal", consume: "all", reply: "none", shut: "server"}
	go runPeer(rec, h, sp, dial, scratch, rep)
	var vc *vconn
	deadline := time.Now().Add(5 * time.Second)
	for vc == nil && time.Now().Before(deadline) {
		h.conns.Range(func(_, v any) bool { vc = v.(*vconn); return false })
		time.Sleep(time.Millisecond)
	}
	if vc == nil {
		t.Fatalf("the idle connection was not opened")
	}
	el := vc.c.(*conn).loop
	var armed, parkedFlag int32
	parked := make(chan struct{})
	release := make(chan struct{})
	var releaseOnce int32
	doRelease := func() {
		if atomic.CompareAndSwapInt32(&releaseOnce, 0, 1) {
			close(release)
		}
	}
	logGate := rec.gateFunc()
	vhook.SetGate(func(site string, obj any, a int) {
		logGate(site, obj, a)
		switch site {
		case "p.store0":
			if obj == any(el.poller) && atomic.LoadInt32(&armed) == 1 && atomic.CompareAndSwapInt32(&parkedFlag, 0, 1) {
				close(parked)
				select {
				case <-release:
				case <-time.After(3 * time.Second):
				}
			}
		case "eng.triggered":
			if a == el.idx {
				doRelease() // the exit signal for the parked loop has been queued (and no eventfd write was made)
			}
		}
	})
	atomic.StoreInt32(&armed, 1)
	// a task for that loop: it runs it and comes to the end of the batch
	a := h.newReq()
	rec.emit("AIssue", "a", a, "c", sp.id, "kind", "Wake", "w", 0, "k", 0, "len", 0, "g", vsup.Goid())
	werr := vc.c.Wake(func(c Conn, err error) error {
		rec.emit("ACb", "a", a, "c", sp.id, "err", errClass(err), "g", vsup.Goid())
		return nil
	})
	rec.emit("AIssued", "a", a, "err", errClass(werr))
	select {
	case <-parked:
		rec.emit("StopRaceParked", "loop", el.idx)
	case <-time.After(3 * time.Second):
		rec.emit("StopRaceNotParked")
	}
	g := vsup.Goid()
	if via == "Stop" {
		rec.emit("StopReq", "src", "Stop", "g", g)
		go func() {
			err := Stop(context.Background(), addr)
			rec.emit("StopRet", "err", errClass(err))
		}()
	} else {
		rec.emit("StopReq", "src", "Engine.Stop", "g", g)
		go func() {
			ctx, cancel := context.WithTimeout(context.Background(), 20*time.Second)
			err := h.eng.Stop(ctx)
			cancel()
			rec.emit("StopRet", "err", errClass(err))
		}()
	}
	select {
	case <-runErr:
	case <-time.After(12 * time.Second):
		rec.emit("RunStuck")
		rep.Violation("sys/run-stuck", "Run did not return within 12 s of a shutdown request that arrived while a loop was finishing a batch of tasks: "+cfg.String(), nil)
		doRelease()
	}
	doRelease()
	rec.installGate()
	select {
	case <-sp.done:
	case <-time.After(5 * time.Second):
	}
	time.Sleep(600 * time.Millisecond) // (Engine.Stop polls the flag every 500 ms: let its StopRet be logged within this life)
	h.closeDups(true)
	rec.emit("Grace")
	rep.Eval(fmt.Sprintf("stoprace-%v-%d-%s", reuseport, loops, via))
}

func TestVerifStopRace(t *testing.T) {
	scratch := os.Getenv("VERIF_SYS_SCRATCH")
	if scratch == "" {
		scratch = t.TempDir()
	}
	rep := vsup.NewReport("stoprace")
	rec, err := newRecorder(os.Getenv("VERIF_TRACE"), rep)
	if err != nil {
		t.Fatal(err)
	}
	rec.install()
	defer rec.uninstall()
	rng := vsup.NewRng(vsup.Seed() + 606)
	for r := 0; r < vsup.EnvInt("VERIF_ROUNDS", 1); r++ {
		for _, reuse := range []bool{false, true} {
			for _, via := range []string{"Engine.Stop", "Stop"} {
				runStopRace(t, rec, reuse, 1+rng.Intn(2), via, rng.Uint64(), scratch, rep)
			}
		}
	}
	rec.uninstall()
	if err := rec.close(); err != nil {
		t.Fatal(err)
	}
	rep.Set("events", rec.seq)
	if err := rep.Write(); err != nil {
		t.Fatal(err)
	}
}
