package gnet

// Channel B for C15: decisions of the three real load balancers over seeded histories of accepts
// and closes (1..256 loops, IPv4 / IPv6-with-zone / Unix / empty addresses) are logged and
// validated by TLC against specs/LBTrace.tla.

import (
	"context"
	"fmt"
	"hash/crc32"
	"net"
	"os"
	"testing"
	"time"

	"github.com/panjf2000/gnet/v2/internal/vsup"
)

type strAddr string

func (strAddr) Network() string  { return "x" }
func (a strAddr) String() string { return string(a) }

// forgeCRC returns prefix plus four bytes chosen so that the IEEE CRC-32 of the whole is target: the hash of
// the Source-Addr-Hash policy is an unknown function in LB.tla, its boundary values are reached on purpose.
func forgeCRC(prefix string, target uint32) (string, bool) {
	tbl := crc32.IEEETable
	reg := ^crc32.ChecksumIEEE([]byte(prefix))
	w := ^target
	var idx [4]byte
	for i := 3; i >= 0; i-- {
		for j := 0; j < 256; j++ {
			if byte(tbl[j]>>24) == byte(w>>24) {
				idx[i] = byte(j)
				w = (w ^ tbl[j]) << 8
				break
			}
		}
	}
	out := make([]byte, 4)
	r := reg
	for i := 0; i < 4; i++ {
		out[i] = byte(r) ^ idx[i]
		r = (r >> 8) ^ tbl[idx[i]]
	}
	res := prefix + string(out)
	return res, crc32.ChecksumIEEE([]byte(res)) == target
}

func TestVerifLBTrace(t *testing.T) {
	tr, err := vsup.OpenTrace(os.Getenv("VERIF_TRACE"))
	if err != nil {
		t.Fatal(err)
	}
	rep := vsup.NewReport("lb-trace")
	rng := vsup.NewRng(vsup.Seed())
	sizes := []int{1, 2, 3, 4, 5, 7, 8, 16, 31, 64, 255, 256}
	addrs := []net.Addr{
		&net.TCPAddr{IP: net.IPv4(127, 0, 0, 1), Port: 1}, &net.TCPAddr{IP: net.IPv4(10, 0, 0, 7), Port: 65535},
		&net.TCPAddr{IP: net.ParseIP("fe80::1"), Port: 9, Zone: "lo"}, &net.TCPAddr{IP: net.ParseIP("::1"), Port: 80},
		&net.UnixAddr{Name: "/tmp/x.sock", Net: "unix"}, &net.UnixAddr{Name: "", Net: "unix"}, strAddr(""), strAddr("@"),
		&net.UDPAddr{IP: net.IPv4(1, 2, 3, 4), Port: 5},
	}
	for i := 0; i < 40; i++ {
		addrs = append(addrs, &net.TCPAddr{IP: net.IPv4(byte(rng.Intn(256)), byte(rng.Intn(256)), byte(rng.Intn(256)), byte(rng.Intn(256))), Port: rng.Intn(65536)})
	}
	// the same printed address in both in-memory representations (4-byte: what the acceptor builds from a sockaddr;
	// 16-byte: what net.IPv4 / a resolver give): the policy is a function of the address string
	for _, a := range addrs[:len(addrs):len(addrs)] {
		if ta, ok := a.(*net.TCPAddr); ok && ta.IP.To4() != nil {
			addrs = append(addrs, &net.TCPAddr{IP: ta.IP.To4(), Port: ta.Port})
		}
	}
	forged := 0
	for i, target := range []uint32{0, 1, 0x7fffffff, 0x80000000, 0x80000001, 0xfffffffe, 0xffffffff, 0x40000000, 0xc0000000} {
		if a, ok := forgeCRC(fmt.Sprintf("/run/peer-%d-", i), target); ok {
			addrs = append(addrs, &net.UnixAddr{Name: a, Net: "unix"})
			forged++
		}
	}
	rep.Set("addresses_with_forced_hash", forged)
	for hno := 0; hno < vsup.EnvInt("VERIF_HISTORIES", 60); hno++ {
		n := sizes[rng.Intn(len(sizes))]
		if rng.Intn(3) == 0 {
			n = 1 + rng.Intn(256)
		}
		for _, policy := range []string{"rr", "lc", "hash"} {
			var lb loadBalancer
			switch policy {
			case "rr":
				lb = new(roundRobinLoadBalancer)
			case "lc":
				lb = new(leastConnectionsLoadBalancer)
			default:
				lb = new(sourceAddrHashLoadBalancer)
			}
			els := make([]*eventloop, n)
			for i := range els {
				els[i] = new(eventloop)
				els[i].connections.init()
				lb.register(els[i])
			}
			tr.Emit(map[string]any{"ev": "Start", "n": n, "policy": policy})
			steps := 3*n + rng.Intn(40)
			if steps > 400 {
				steps = 400
			}
			if hno%4 == 3 {
				steps = 530 + rng.Intn(200) // long histories: counters and cursors pass 256 and 512 whatever the number of loops
			}
			for s := 0; s < steps; s++ {
				if policy != "rr" && rng.Intn(4) == 0 { // a connection closes somewhere
					l := rng.Intn(n)
					if els[l].countConn() > 0 {
						els[l].connections.incCount(0, -1)
						tr.Emit(map[string]any{"ev": "Close", "loop": l + 1})
					}
					continue
				}
				a := addrs[rng.Intn(len(addrs))]
				var el *eventloop
				func() {
					defer func() {
						if r := recover(); r != nil {
							rep.Violation("lb/"+policy+"/panic", fmt.Sprintf("next(%q) with %d loops: %v", a.String(), n, r), nil)
						}
					}()
					el = lb.next(a)
				}()
				if el == nil {
					break
				}
				idx := -1
				for i, e := range els {
					if e == el {
						idx = i
					}
				}
				if idx < 0 {
					rep.Violation("lb/"+policy+"/foreign", fmt.Sprintf("next(%q) returned a loop that was never registered", a.String()), nil)
					break
				}
				if idx != el.idx {
					rep.Violation("lb/"+policy+"/index", fmt.Sprintf("loop at position %d has idx %d", idx, el.idx), nil)
				}
				el.connections.incCount(0, 1)
				tr.Emit(map[string]any{"ev": "Next", "addr": fmt.Sprintf("%T|%s", a, a.String()), "loop": idx + 1})
				rep.Eval(fmt.Sprintf("%s/%d/%d", policy, n, s%8))
			}
		}
	}
	if err := tr.Close(); err != nil {
		t.Fatal(err)
	}
	rep.Set("events", tr.N)
	if err := rep.Write(); err != nil {
		t.Fatal(err)
	}
}

// TestVerifRegisterLB: connections that reach the balancer through Engine.Register (the other way in besides the
// acceptor).  Every registration below concerns the same remote address -- one listening peer -- so with the
// Source-Addr-Hash policy they are all served by one loop, whatever else the context carries; the decisions are
// appended to the same kind of trace as the balancers' own and validated against LB.tla (HashNext).
type lbRegHandler struct {
	BuiltinEventEngine
	eng    Engine
	booted chan struct{}
}

func (h *lbRegHandler) OnBoot(e Engine) Action { h.eng = e; close(h.booted); return None }

func TestVerifRegisterLB(t *testing.T) {
	tr, err := vsup.OpenTrace(os.Getenv("VERIF_TRACE"))
	if err != nil {
		t.Fatal(err)
	}
	rep := vsup.NewReport("lb-register")
	back, err := net.Listen("tcp", "127.0.0.1:0")
	if err != nil {
		t.Fatal(err)
	}
	defer back.Close()
	go func() {
		for {
			c, err := back.Accept()
			if err != nil {
				return
			}
			go func() { buf := make([]byte, 64); _, _ = c.Read(buf); c.Close() }()
		}
	}()
	backAddr := back.Addr().(*net.TCPAddr)
	elsewhere := &net.TCPAddr{IP: net.IPv4(127, 0, 0, 1), Port: backAddr.Port ^ 1}
	for _, loops := range []int{2, 5, 8} {
		h := &lbRegHandler{booted: make(chan struct{})}
		runErr := make(chan error, 1)
		go func() {
			runErr <- Run(h, fmt.Sprintf("tcp://127.0.0.1:%d", freePort()), WithNumEventLoop(loops), WithLoadBalancing(SourceAddrHash), WithLogger(nullLogger{}))
		}()
		select {
		case <-h.booted:
		case <-time.After(10 * time.Second):
			t.Fatalf("engine did not boot")
		}
		tr.Emit(map[string]any{"ev": "Start", "n": loops, "policy": "hash"})
		for _, how := range []string{"conn", "conn+addr", "conn+other-addr", "addr", "conn+other-addr", "conn"} {
			ctx := context.Background()
			if how != "addr" {
				nc, err := net.Dial("tcp", backAddr.String())
				if err != nil {
					t.Fatal(err)
				}
				ctx = NewNetConnContext(ctx, nc)
			}
			switch how {
			case "conn+addr", "addr":
				ctx = NewNetAddrContext(ctx, backAddr)
			case "conn+other-addr":
				ctx = NewNetAddrContext(ctx, elsewhere)
			}
			ch, err := h.eng.Register(ctx)
			if err != nil {
				rep.Violation("lb/register/error", fmt.Sprintf("Register(%s): %v", how, err), nil)
				continue
			}
			select {
			case res := <-ch:
				if res.Err != nil || res.Conn == nil {
					rep.Violation("lb/register/error", fmt.Sprintf("Register(%s) result: %v", how, res.Err), nil)
					continue
				}
				ra := res.Conn.RemoteAddr()
				tr.Emit(map[string]any{"ev": "Next", "addr": fmt.Sprintf("%T|%s", ra, ra.String()), "loop": res.Conn.(*conn).loop.idx + 1, "how": how})
				rep.Eval(fmt.Sprintf("register/%d/%s", loops, how))
			case <-time.After(5 * time.Second):
				rep.Violation("lb/register/no-result", fmt.Sprintf("Register(%s) delivered nothing within 5 s", how), nil)
			}
		}
		_ = h.eng.Stop(contextBG())
		select {
		case <-runErr:
		case <-time.After(10 * time.Second):
		}
	}
	if err := tr.Close(); err != nil {
		t.Fatal(err)
	}
	rep.Set("events", tr.N)
	if err := rep.Write(); err != nil {
		t.Fatal(err)
	}
}
