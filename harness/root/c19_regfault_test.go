package gnet

// C19 / C07: the duplication of the descriptor inside Register / Enroll / Dial fails (fcntl F_DUPFD_CLOEXEC made to fail
// with EMFILE by strace, attached to the whole process around the one call).  The call must still deliver exactly one
// result, and that result is either an error or a connection that can be used; nothing may be left behind.

import (
	"bufio"
	"context"
	"fmt"
	"net"
	"os"
	"os/exec"
	"path/filepath"
	"strings"
	"sync/atomic"
	"syscall"
	"testing"
	"time"

	"github.com/panjf2000/gnet/v2/internal/vsup"
)

type regHandler struct {
	BuiltinEventEngine
	rec    *recorder
	eng    Engine
	booted chan struct{}
	loop   atomic.Value
}

func (h *regHandler) OnBoot(e Engine) Action {
	h.eng = e
	h.rec.emit("Boot", "g", vsup.Goid())
	close(h.booted)
	return None
}
func (h *regHandler) OnShutdown(Engine) { h.rec.emit("OnShutdown", "g", vsup.Goid()) }
func (h *regHandler) OnOpen(c Conn) ([]byte, Action) {
	h.loop.Store(c.EventLoop())
	return nil, None
}
func (h *regHandler) OnTraffic(c Conn) Action { _, _ = c.Discard(-1); return None }

func runRegFault(t *testing.T, rec *recorder, api string, sc string, scratch string, rep *vsup.Report) {
	inject := sc != ""
	errno := map[string]string{"fcntl": "EMFILE", "setsockopt": "ENOBUFS"}[sc]
	rec.emit("Reset", "cfg", fmt.Sprintf("regfault %s inject=%s", api, sc), "et", false, "loops", 1, "reuseport", false, "ticker", false, "seed", 0)
	base := fdSnapshot()
	// the other end: a plain listener that counts what it is sent
	back, err := net.Listen("tcp", "127.0.0.1:0")
	if err != nil {
		t.Fatal(err)
	}
	var got int64
	go func() {
		for {
			c, err := back.Accept()
			if err != nil {
				return
			}
			go func() {
				buf := make([]byte, 64)
				for {
					n, err := c.Read(buf)
					atomic.AddInt64(&got, int64(n))
					if err != nil {
						c.Close()
						return
					}
				}
			}()
		}
	}()
	backAddr := back.Addr().(*net.TCPAddr)
	h := &regHandler{rec: rec, booted: make(chan struct{})}
	client := strings.HasPrefix(api, "Client.")
	var cli *Client
	closeHelper := func() {}
	runErr := make(chan error, 1)
	if client {
		if cli, err = NewClient(h, WithLogger(nullLogger{})); err == nil {
			err = cli.Start()
		}
		if err != nil {
			t.Fatalf("client: %v", err)
		}
	} else {
		addr := fmt.Sprintf("tcp://127.0.0.1:%d", freePort())
		go func() { runErr <- Run(h, addr, WithNumEventLoop(1), WithLogger(nullLogger{})) }()
		select {
		case <-h.booted:
		case <-time.After(10 * time.Second):
			t.Fatalf("engine did not boot")
		}
		// a helper connection gives the test an EventLoop handle
		helper, derr := net.Dial("tcp", strings.TrimPrefix(addr, "tcp://"))
		if derr != nil {
			t.Fatal(derr)
		}
		closeHelper = func() { _ = helper.Close() }
		for i := 0; i < 3000 && h.loop.Load() == nil; i++ {
			time.Sleep(time.Millisecond)
		}
		if h.loop.Load() == nil {
			t.Fatalf("helper connection was not opened")
		}
	}
	var nc net.Conn
	if strings.HasSuffix(api, "Enroll") {
		if nc, err = net.Dial("tcp", backAddr.String()); err != nil {
			t.Fatal(err)
		}
	} else if strings.HasSuffix(api, "Enroll(ip)") {
		// a kind of connection the engine does not support (a raw IP socket): the answer is an error
		if nc, err = net.Dial("ip4:icmp", "127.0.0.1"); err != nil {
			rec.emit("FaultSkip", "why", "raw socket: "+err.Error())
			api = strings.TrimSuffix(api, "(ip)")
			if nc, err = net.Dial("tcp", backAddr.String()); err != nil {
				t.Fatal(err)
			}
		}
	}
	// ---- the fault
	var cmd *exec.Cmd
	logPath := filepath.Join(scratch, "strace.reg.log")
	if inject {
		cmd = exec.Command("strace", "-f", "-p", fmt.Sprint(os.Getpid()), "-e", "trace="+sc, "-e", fmt.Sprintf("inject=%s:error=%s:when=1", sc, errno), "-o", logPath)
		cmd.SysProcAttr = &syscall.SysProcAttr{Pdeathsig: syscall.SIGKILL}
		stderr, _ := cmd.StderrPipe()
		if err := cmd.Start(); err != nil {
			rec.emit("FaultSkip", "why", err.Error())
			cmd = nil
		} else {
			attached := make(chan bool, 1)
			go func() {
				scn := bufio.NewScanner(stderr)
				for scn.Scan() {
					if strings.Contains(scn.Text(), "attached") {
						select {
						case attached <- true:
						default:
						}
					}
				}
			}()
			select {
			case <-attached:
				time.Sleep(100 * time.Millisecond)
			case <-time.After(5 * time.Second):
				_ = cmd.Process.Kill()
				_ = cmd.Wait()
				rec.emit("FaultSkip", "why", "strace did not attach")
				cmd = nil
			}
		}
	}
	// ---- the call
	pre := fdSnapshot()
	type result struct {
		c   Conn
		err error
	}
	resCh := make(chan result, 1)
	go func() {
		ctx := context.Background()
		fromCh := func(ch <-chan RegisteredResult, err error) {
			if err != nil {
				resCh <- result{nil, err}
				return
			}
			r := <-ch
			resCh <- result{r.Conn, r.Err}
		}
		switch api {
		case "Engine.Register":
			fromCh(h.eng.Register(NewNetAddrContext(ctx, backAddr)))
		case "EventLoop.Register":
			fromCh(h.loop.Load().(EventLoop).Register(ctx, backAddr))
		case "EventLoop.Enroll", "EventLoop.Enroll(ip)":
			fromCh(h.loop.Load().(EventLoop).Enroll(ctx, nc))
		case "Client.Enroll", "Client.Enroll(ip)":
			c, err := cli.Enroll(nc)
			resCh <- result{c, err}
		case "Client.Dial":
			c, err := cli.Dial("tcp", backAddr.String())
			resCh <- result{c, err}
		}
	}()
	var res result
	yielded := true
	t0 := time.Now()
	select {
	case res = <-resCh:
	case <-time.After(8 * time.Second):
		yielded = false
	}
	// (strace is attached to every thread of this process: if it stalls, nothing here runs and the timer above fires
	// late -- such a wait says nothing about the call)
	stalled := !yielded && time.Since(t0) > 12*time.Second
	injected := false
	if cmd != nil {
		_ = cmd.Process.Signal(syscall.SIGINT)
		_ = cmd.Wait()
		if raw, err := os.ReadFile(logPath); err == nil {
			injected = strings.Contains(string(raw), "(INJECTED)")
			_ = os.Remove(logPath)
		}
	}
	if stalled {
		rec.emit("FaultSkip", "why", "the process did not run while strace was attached")
	} else if !yielded {
		rec.emit("RegNoResult", "api", api, "injected", injected)
	} else {
		fd, usable := -2, false
		if res.err == nil && res.c != nil {
			fd = res.c.Fd()
			before := atomic.LoadInt64(&got)
			if werr := res.c.AsyncWrite([]byte("ping"), nil); werr == nil {
				for i := 0; i < 3000 && atomic.LoadInt64(&got) < before+4; i++ {
					time.Sleep(time.Millisecond)
				}
				usable = atomic.LoadInt64(&got) >= before+4
			}
		}
		rec.emit("RegResult", "api", api, "injected", injected, "err", errClass(res.err), "fd", fd, "usable", usable)
		if res.err != nil {
			// a call that failed leaves nothing behind, while the engine is still running
			if nc != nil {
				_ = nc.Close()
			}
			var n int
			var what []string
			for i := 0; i < 30; i++ {
				time.Sleep(20 * time.Millisecond)
				if n, what = leakedSince(pre); n == 0 {
					break
				}
			}
			rec.emit("RegLeak", "api", api, "n", n, "what", strings.NewReplacer("[", "(", "]", ")").Replace(strings.Join(what, ",")))
		}
	}
	// ---- the end of the engine: nothing is left behind
	closeHelper()
	if nc != nil {
		_ = nc.Close()
	}
	if client {
		_ = cli.Stop()
		rec.emit("RunRet", "err", "nil")
	} else {
		_ = h.eng.Stop(contextBG())
		select {
		case err := <-runErr:
			rec.emit("RunRet", "err", errClass(err))
		case <-time.After(10 * time.Second):
			rec.emit("RunStuck")
		}
	}
	_ = back.Close()
	time.Sleep(50 * time.Millisecond)
	leaked, what := leakedSince(base)
	if leaked > 0 {
		time.Sleep(200 * time.Millisecond)
		leaked, what = leakedSince(base)
	}
	rec.emit("ProcFd", "leaked", leaked, "what", fmt.Sprint(what), "sockfiles", 0)
	rec.emit("Grace")
	rep.Eval(fmt.Sprintf("regfault-%s-%s", api, sc))
}

func TestVerifRegisterFaults(t *testing.T) {
	scratch := os.Getenv("VERIF_SYS_SCRATCH")
	if scratch == "" {
		scratch = t.TempDir()
	}
	rep := vsup.NewReport("regfault")
	rec, err := newRecorder(os.Getenv("VERIF_TRACE"), rep)
	if err != nil {
		t.Fatal(err)
	}
	rec.install()
	defer rec.uninstall()
	haveStrace := os.Getenv("VERIF_STRACE") != "0"
	for _, api := range []string{"EventLoop.Enroll(ip)", "Client.Enroll(ip)"} {
		runRegFault(t, rec, api, "", scratch, rep)
	}
	for _, api := range []string{"Engine.Register", "EventLoop.Register", "EventLoop.Enroll", "Client.Enroll", "Client.Dial"} {
		runRegFault(t, rec, api, "", scratch, rep)
		if haveStrace {
			runRegFault(t, rec, api, "fcntl", scratch, rep)
			if api == "Client.Enroll" {
				// (the client sets socket options on the duplicate: TCP_NODELAY by default)
				runRegFault(t, rec, api, "setsockopt", scratch, rep)
			}
		}
	}
	rec.uninstall()
	if err := rec.close(); err != nil {
		t.Fatal(err)
	}
	rep.Set("events", rec.seq)
	if err := rep.Write(); err != nil {
		t.Fatal(err)
	}
}
