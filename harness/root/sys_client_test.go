package gnet

// Client-side scenarios (gnet.Client): the engine dials (Dial / DialContext) or enrolls (Enroll / EnrollContext)
// connections to scripted peers that listen, one listener per peer; everything else -- segmentations, consumption
// policies, framed output, asynchronous writers, close causes, descriptor ledger -- is the machinery of the server
// scenarios, so that TrIn / TrOut / TrLife / TrFd judge client connections by the same rules.

import (
	"fmt"
	"net"
	"os"
	"path/filepath"
	"sync"
	"sync/atomic"
	"testing"
	"time"

	"github.com/panjf2000/gnet/v2/internal/vsup"
)

func runClientScenario(t *testing.T, rec *recorder, cfg *sysCfg, seed uint64, scratch string, rep *vsup.Report) {
	rng := vsup.NewRng(seed)
	cfg.client = true
	rec.emit("Reset", "cfg", "client "+cfg.String(), "et", cfg.et, "loops", cfg.loops, "reuseport", true, "ticker", cfg.ticker, "client", true, "seed", int(seed%1000000))
	h := &vhandler{rec: rec, cfg: cfg, booted: make(chan struct{}), raceMode: rec.muted}
	opts := []Option{WithNumEventLoop(cfg.loops), WithTicker(cfg.ticker), WithReadBufferCap(cfg.readCap), WithWriteBufferCap(cfg.writeCap),
		WithLogger(nullLogger{}), WithLockOSThread(false)}
	if cfg.et {
		opts = append(opts, WithEdgeTriggeredIO(true))
		if cfg.chunk > 0 {
			opts = append(opts, WithEdgeTriggeredIOChunk(cfg.chunk))
		}
	}
	if cfg.sndbuf > 0 {
		opts = append(opts, WithSocketSendBuffer(cfg.sndbuf))
	}
	baseFds := fdSnapshot()
	stopCanary := make(chan struct{})
	var cwg sync.WaitGroup
	for i := 0; i < 2; i++ {
		cwg.Add(1)
		go canary(rec, stopCanary, &cwg, seed+uint64(i))
	}
	cli, err := NewClient(h, opts...)
	if err != nil {
		t.Fatalf("NewClient: %v", err)
	}
	if err = cli.Start(); err != nil {
		t.Fatalf("Client.Start: %v", err)
	}
	var wg sync.WaitGroup
	specs := make([]*peerSpec, cfg.conns)
	for i := range specs {
		sp := randSpec(i+1, rng, cfg)
		specs[i] = sp
		if cfg.network == "unix" && sp.shut == "rst" {
			sp.shut = "close"
		}
		if i == 0 {
			// a connection whose OnOpen answers Close: Dial / Enroll must still come back with their one result
			sp.total, sp.segs, sp.lockstep = 0, nil, false
			sp.shut, sp.closeAt, sp.closeHow, sp.openOut, sp.reply = "server", 0, "action", -1, "none"
			sp.asyncW, sp.wakes = 0, 0
		}
		// the peer listens on an address of its own: that address identifies the connection on the engine's side
		var ln net.Listener
		var lerr error
		if cfg.network == "unix" {
			path := filepath.Join(scratch, fmt.Sprintf("pl%d-%d.sock", seed%100000, sp.id))
			_ = os.Remove(path)
			ln, lerr = net.Listen("unix", path)
		} else {
			ln, lerr = net.Listen("tcp", "127.0.0.1:0")
		}
		if lerr != nil {
			t.Fatalf("peer listen: %v", lerr)
		}
		sp.laddr = ln.Addr().String()
		h.peers.Store(sp.laddr, sp)
		how := []string{"Dial", "DialContext", "Enroll", "EnrollContext"}[rng.Intn(4)]
		wg.Add(1)
		go func(sp *peerSpec, ln net.Listener) {
			defer wg.Done()
			c, aerr := ln.Accept()
			_ = ln.Close()
			if aerr != nil {
				rec.emit("PeerDialFail", "c", sp.id, "err", aerr.Error())
				close(sp.done)
				return
			}
			defer close(sp.done)
			peerSession(rec, h, sp, c, rep)
		}(sp, ln)
		wg.Add(1)
		go func(sp *peerSpec, how string) {
			defer wg.Done()
			network, addr := cfg.network, sp.laddr
			var gc Conn
			var derr error
			// (a Dial / Enroll that never comes back is a request that was never carried out: C03, C19)
			returned := make(chan struct{})
			defer close(returned)
			go func() {
				select {
				case <-returned:
				case <-time.After(15 * time.Second):
					rec.emit("ClientDialHangs", "c", sp.id, "how", how)
					rep.Violation("client/dial-hangs", fmt.Sprintf("%s to %s has not returned after 15 s", how, addr), nil)
				}
			}()
			switch how {
			case "Dial", "DialContext":
				// the engine's own address is not known beforehand ("*")
				rec.emit("PeerDial", "c", sp.id, "laddr", sp.laddr, "raddr", "*", "net", sp.network, "how", how)
				if how == "Dial" {
					gc, derr = cli.Dial(network, addr)
				} else {
					gc, derr = cli.DialContext(network, addr, sp)
				}
			default:
				nc, e := net.Dial(network, addr)
				if e != nil {
					rec.emit("PeerDialFail", "c", sp.id, "err", e.Error())
					return
				}
				want := nc.LocalAddr().String()
				if network == "unix" {
					want = "*" // the engine gives a unix client connection a local name of its own
				}
				rec.emit("PeerDial", "c", sp.id, "laddr", sp.laddr, "raddr", want, "net", sp.network, "how", how)
				if how == "Enroll" {
					gc, derr = cli.Enroll(nc)
				} else {
					gc, derr = cli.EnrollContext(nc, sp)
				}
			}
			if derr != nil {
				rec.emit("ClientDialErr", "c", sp.id, "how", how, "err", errClass(derr))
				return
			}
			// Dial / Enroll return once OnOpen has run: the connection is known to the handler
			if _, ok := h.conns.Load(gc); !ok && gc != nil {
				rec.emit("ClientDialNotOpened", "c", sp.id, "how", how)
				rep.Violation("client/returned-before-open", fmt.Sprintf("%s returned a connection whose OnOpen has not run", how), nil)
			}
		}(sp, how)
		if rng.Intn(3) == 0 {
			time.Sleep(time.Duration(rng.Intn(2000)) * time.Microsecond)
		}
	}
	peersDone := make(chan struct{})
	go func() { wg.Wait(); close(peersDone) }()
	select {
	case <-peersDone:
	case <-time.After(60 * time.Second):
		rec.emit("PeersTimeout")
		rep.Violation("sys/peers-stuck", "peers did not finish within 60 s: client "+cfg.String(), nil)
	}
	h.asyncWG.Wait()
	clientUDP(t, rec, h, cli, cfg, rng, scratch, rep)
	deadline := time.Now().Add(5 * time.Second)
	for (atomic.LoadInt32(&h.closedN) < atomic.LoadInt32(&h.opened) || atomic.LoadInt32(&h.pendingCb) > 0) && time.Now().Before(deadline) {
		time.Sleep(time.Millisecond)
	}
	count := 0
	cli.eng.eventLoops.iterate(func(_ int, el *eventloop) bool { count += int(el.countConn()); return true })
	rec.emit("Quiesce", "count", count, "opened", int(atomic.LoadInt32(&h.opened)), "closed", int(atomic.LoadInt32(&h.closedN)))
	h.awaitSlowTick()
	rec.emit("StopReq", "src", "Client.Stop", "g", vsup.Goid())
	stopped := make(chan error, 1)
	go func() { stopped <- cli.Stop() }()
	select {
	case err = <-stopped:
		rec.emit("StopRet", "err", errClass(err))
		rec.emit("RunRet", "err", errClass(err))
	case <-time.After(20 * time.Second):
		rec.emit("RunStuck")
		rep.Violation("sys/run-stuck", "Client.Stop did not return within 20 s: "+cfg.String(), nil)
	}
	time.Sleep(30 * time.Millisecond)
	close(stopCanary)
	cwg.Wait()
	h.closeDups(true)
	leaked, what := leakedSince(baseFds)
	if leaked > 0 {
		time.Sleep(100 * time.Millisecond)
		leaked, what = leakedSince(baseFds)
	}
	rec.emit("ProcFd", "leaked", leaked, "what", fmt.Sprint(what), "sockfiles", 0)
	rec.emit("Grace")
	rep.Eval("client-" + cfg.name + fmt.Sprint(seed%64))
}

func TestVerifClient(t *testing.T) {
	scratch := os.Getenv("VERIF_SYS_SCRATCH")
	if scratch == "" {
		scratch = t.TempDir()
	}
	rep := vsup.NewReport("client")
	rec, err := newRecorder(os.Getenv("VERIF_TRACE"), rep)
	if err != nil {
		t.Fatal(err)
	}
	rec.install()
	defer rec.uninstall()
	rng := vsup.NewRng(vsup.Seed() + 4242)
	for r := 0; r < vsup.EnvInt("VERIF_ROUNDS", 1); r++ {
		for _, cfg := range sysConfigs(rng, vsup.Thorough()) {
			cfg.reuseport, cfg.flood, cfg.stopSrc = false, false, "Client.Stop"
			runClientScenario(t, rec, cfg, rng.Uint64(), scratch, rep)
		}
	}
	rec.uninstall()
	if err := rec.close(); err != nil {
		t.Fatal(err)
	}
	rep.Set("events", rec.seq)
	if err := rep.Write(); err != nil {
		t.Fatal(err)
	}
}

// clientUDP: a connected UDP socket of the client engine (Dial "udp") talks to a plain echo server, is closed, and is
// then addressed again through its stale handle while fresh connections of the engine reuse its descriptor number.
func clientUDP(t *testing.T, rec *recorder, h *vhandler, cli *Client, cfg *sysCfg, rng *vsup.Rng, scratch string, rep *vsup.Report) {
	us, err := net.ListenUDP("udp", &net.UDPAddr{IP: net.IPv4(127, 0, 0, 1)})
	if err != nil {
		return
	}
	defer us.Close()
	go func() { // echo
		buf := make([]byte, 2048)
		for {
			n, from, err := us.ReadFromUDP(buf)
			if err != nil {
				return
			}
			_, _ = us.WriteToUDP(buf[:n], from)
		}
	}()
	sp := &peerSpec{id: 300, udp: true, network: "udp", done: make(chan struct{}), openOut: -1, closeAt: -1, closeHow: "action", reply: "none", consume: "all"}
	sp.laddr = us.LocalAddr().String()
	h.peers.Store(sp.laddr, sp)
	rec.emit("PeerDial", "c", sp.id, "laddr", sp.laddr, "raddr", "*", "net", "udp", "how", "Dial")
	gc, err := cli.Dial("udp", sp.laddr)
	if err != nil {
		rec.emit("ClientDialErr", "c", sp.id, "how", "Dial-udp", "err", errClass(err))
		return
	}
	cid := sp.id
	request := func(kind string, do func(cb AsyncCallback) error, wantCb bool) {
		a := h.newReq()
		id := cid
		rec.emit("AIssue", "a", a, "c", id, "kind", kind, "w", 98, "k", 0, "len", 0, "g", vsup.Goid())
		cb := func(c Conn, err error) error {
			rec.emit("ACb", "a", a, "c", id, "err", errClass(err), "g", vsup.Goid())
			atomic.AddInt32(&h.pendingCb, -1)
			return nil
		}
		if !wantCb {
			rec.emit("ANoCb", "a", a)
		}
		e := do(cb)
		rec.emit("AIssued", "a", a, "err", errClass(e))
		if e == nil && wantCb {
			atomic.AddInt32(&h.pendingCb, 1)
		}
	}
	// a few datagrams out (from a user goroutine: Wake makes the loop's side send nothing, so use the socket's own
	// descriptor-independent path: Conn.Write is only for callbacks; the echo comes back as OnTraffic)
	for i := 0; i < 3; i++ {
		request("Wake", func(cb AsyncCallback) error { return gc.Wake(cb) }, true)
		time.Sleep(2 * time.Millisecond)
	}
	request("CloseCb", func(cb AsyncCallback) error { return gc.CloseWithCallback(cb) }, true)
	deadline := time.Now().Add(3 * time.Second)
	for atomic.LoadInt32(&h.closedN) < atomic.LoadInt32(&h.opened) && time.Now().Before(deadline) {
		time.Sleep(time.Millisecond)
	}
	time.Sleep(8 * time.Millisecond) // (the canary that grabbed the number lets go of it after 4 ms)
	// fresh stream connections of the same engine: one of them is likely to get the old number
	var fresh []Conn
	var lns []net.Listener
	for j := 0; j < 4; j++ {
		ln, lerr := net.Listen("tcp", "127.0.0.1:0")
		if lerr != nil {
			break
		}
		lns = append(lns, ln)
		fsp := &peerSpec{id: 310 + j, seed: rng.Uint64(), network: "tcp", done: make(chan struct{}), openOut: -1, closeAt: -1, closeHow: "action",
			peerRead: "normal", consume: "all", reply: "none", shut: "server"}
		fsp.laddr = ln.Addr().String()
		h.peers.Store(fsp.laddr, fsp)
		go func(ln net.Listener, fsp *peerSpec) {
			c, aerr := ln.Accept()
			_ = ln.Close()
			if aerr != nil {
				close(fsp.done)
				return
			}
			defer close(fsp.done)
			peerSession(rec, h, fsp, c, rep)
		}(ln, fsp)
		rec.emit("PeerDial", "c", fsp.id, "laddr", fsp.laddr, "raddr", "*", "net", "tcp", "how", "Dial")
		if c, derr := cli.Dial("tcp", fsp.laddr); derr == nil {
			fresh = append(fresh, c)
		}
	}
	// the stale handle: nothing of this may reach a callback of the dead connection or touch the fresh ones
	request("Wake", func(cb AsyncCallback) error { return gc.Wake(cb) }, true)
	request("CloseCb", func(cb AsyncCallback) error { return gc.CloseWithCallback(cb) }, true)
	// (on a UDP socket AsyncWrite sends at once on the caller's goroutine and its callback is documented as not to be
	// relied on: no callback is passed; what matters is that nothing is sent through the dead descriptor number)
	request("AsyncWrite", func(AsyncCallback) error { return gc.AsyncWrite([]byte("stale"), nil) }, false)
	time.Sleep(20 * time.Millisecond)
	// the fresh connections have served their purpose
	for j, c := range fresh {
		cc := c
		cid = 310 + j
		request("Close", func(AsyncCallback) error { return cc.Close() }, false)
	}
	cid = sp.id
	deadline = time.Now().Add(3 * time.Second)
	for atomic.LoadInt32(&h.closedN) < atomic.LoadInt32(&h.opened) && time.Now().Before(deadline) {
		time.Sleep(time.Millisecond)
	}
	for _, ln := range lns {
		_ = ln.Close()
	}
}
