package gnet

// Client-side scenarios (gnet.Client): the engine dials (Dial / DialContext) or enrolls (Enroll / EnrollContext)
// connections to scripted peers that listen, one listener per peer; everything else -- segmentations, consumption
// policies, framed output, asynchronous writers, close causes, descriptor ledger -- is the machinery of the server
// scenarios, so that TrIn / TrOut / TrLife / TrFd judge client connections by the same rules.

import (
	"fmt"
	"net"
	"os"
	"path/filepath"
	"sync"
	"sync/atomic"
	"testing"
	"time"

	"github.com/panjf2000/gnet/v2/internal/vsup"
)

func runClientScenario(t *testing.T, rec *recorder, cfg *sysCfg, seed uint64, scratch string, rep *vsup.Report) {
	rng := vsup.NewRng(seed)
	cfg.client = true
	rec.emit("Reset", "cfg", "client "+cfg.String(), "et", cfg.et, "loops", cfg.loops, "reuseport", true, "ticker", cfg.ticker, "client", true, "seed", int(seed%1000000))
	h := &vhandler{rec: rec, cfg: cfg, booted: make(chan struct{}), raceMode: rec.muted}
	opts := []Option{WithNumEventLoop(cfg.loops), WithTicker(cfg.ticker), WithReadBufferCap(cfg.readCap), WithWriteBufferCap(cfg.writeCap),
		WithLogger(nullLogger{}), WithLockOSThread(false)}
	if cfg.et {
		opts = append(opts, WithEdgeTriggeredIO(true))
		if cfg.chunk > 0 {
			opts = append(opts, WithEdgeTriggeredIOChunk(cfg.chunk))
		}
	}
	if cfg.sndbuf > 0 {
		opts = append(opts, WithSocketSendBuffer(cfg.sndbuf))
	}
	baseFds := fdSnapshot()
	stopCanary := make(chan struct{})
	var cwg sync.WaitGroup
	for i := 0; i < 2; i++ {
		cwg.Add(1)
		go canary(rec, stopCanary, &cwg, seed+uint64(i))
	}
	cli, err := NewClient(h, opts...)
	if err != nil {
		t.Fatalf("NewClient: %v", err)
	}
	if err = cli.Start(); err != nil {
		t.Fatalf("Client.Start: %v", err)
	}
	var wg sync.WaitGroup
	specs := make([]*peerSpec, cfg.conns)
	for i := range specs {
		sp := randSpec(i+1, rng, cfg)
		specs[i] = sp
		if cfg.network == "unix" && sp.shut == "rst" {
			sp.shut = "close"
		}
		if i == 0 {
			// a connection whose OnOpen answers Close: Dial / Enroll must still come back with their one result
			sp.total, sp.segs, sp.lockstep = 0, nil, false
			sp.shut, sp.closeAt, sp.closeHow, sp.openOut, sp.reply = "server", 0, "action", -1, "none"
			sp.asyncW, sp.wakes = 0, 0
		}
		// the peer listens on an address of its own: that address identifies the connection on the engine's side
		var ln net.Listener
		var lerr error
		if cfg.network == "unix" {
			path := filepath.Join(scratch, fmt.Sprintf("pl%d-%d.sock", seed%100000, sp.id))
			_ = os.Remove(path)
			ln, lerr = net.Listen("unix", path)
		} else {
			ln, lerr = net.Listen("tcp", "127.0.0.1:0")
		}
		if lerr != nil {
			t.Fatalf("peer listen: %v", lerr)
		}
		sp.laddr = ln.Addr().String()
		h.peers.Store(sp.laddr, sp)
		how := []string{"Dial", "DialContext", "Enroll", "EnrollContext"}[rng.Intn(4)]
		wg.Add(1)
		go func(sp *peerSpec, ln net.Listener) {
			defer wg.Done()
			c, aerr := ln.Accept()
			_ = ln.Close()
			if aerr != nil {
				rec.emit("PeerDialFail", "c", sp.id, "err", aerr.Error())
				close(sp.done)
				return
			}
			defer close(sp.done)
			peerSession(rec, h, sp, c, rep)
		}(sp, ln)
		wg.Add(1)
		go func(sp *peerSpec, how string) {
			defer wg.Done()
			network, addr := cfg.network, sp.laddr
			var gc Conn
			var derr error
			// (a Dial / Enroll that never comes back is a request that was never carried out: C03, C19)
			returned := make(chan struct{})
			defer close(returned)
			go func() {
				select {
				case <-returned:
				case <-time.After(15 * time.Second):
					rec.emit("ClientDialHangs", "c", sp.id, "how", how)
					rep.Violation("client/dial-hangs", fmt.Sprintf("%s to %s has not returned after 15 s", how, addr), nil)
				}
			}()
			switch how {
			case "Dial", "DialContext":
				// the engine's own address is not known beforehand ("*")
				rec.emit("PeerDial", "c", sp.id, "laddr", sp.laddr, "raddr", "*", "net", sp.network, "how", how)
				if how == "Dial" {
					gc, derr = cli.Dial(network, addr)
				} else {
					gc, derr = cli.DialContext(network, addr, sp)
				}
			default:
				nc, e := net.Dial(network, addr)
				if e != nil {
					rec.emit("PeerDialFail", "c", sp.id, "err", e.Error())
					return
				}
				want := nc.LocalAddr().String()
				if network == "unix" {
					want = "*" // the engine gives a unix client connection a local name of its own
				}
				rec.emit("PeerDial", "c", sp.id, "laddr", sp.laddr, "raddr", want, "net", sp.network, "how", how)
				if how == "Enroll" {
					gc, derr = cli.Enroll(nc)
				} else {
					gc, derr = cli.EnrollContext(nc, sp)
				}
			}
			if derr != nil {
				rec.emit("ClientDialErr", "c", sp.id, "how", how, "err", errClass(derr))
				return
			}
			// Dial / Enroll return once OnOpen has run: the connection is known to the handler
			if _, ok := h.conns.Load(gc); !ok && gc != nil {
				rec.emit("ClientDialNotOpened", "c", sp.id, "how", how)
				rep.Violation("client/returned-before-open", fmt.Sprintf("%s returned a connection whose OnOpen has not run", how), nil)
			}
		}(sp, how)
		if rng.Intn(3) == 0 {
			time.Sleep(time.Duration(rng.Intn(2000)) * time.Microsecond)
		}
	}
	peersDone := make(chan struct{})
	go func() { wg.Wait(); close(peersDone) }()
	select {
	case <-peersDone:
	case <-time.After(60 * time.Second):
		rec.emit("PeersTimeout")
		rep.Violation("sys/peers-stuck", "peers did not finish within 60 s: client "+cfg.String(), nil)
	}
	h.asyncWG.Wait()
	deadline := time.Now().Add(5 * time.Second)
	for (atomic.LoadInt32(&h.closedN) < atomic.LoadInt32(&h.opened) || atomic.LoadInt32(&h.pendingCb) > 0) && time.Now().Before(deadline) {
		time.Sleep(time.Millisecond)
	}
	count := 0
	cli.eng.eventLoops.iterate(func(_ int, el *eventloop) bool { count += int(el.countConn()); return true })
	rec.emit("Quiesce", "count", count, "opened", int(atomic.LoadInt32(&h.opened)), "closed", int(atomic.LoadInt32(&h.closedN)))
	h.awaitSlowTick()
	rec.emit("StopReq", "src", "Client.Stop", "g", vsup.Goid())
	stopped := make(chan error, 1)
	go func() { stopped <- cli.Stop() }()
	select {
	case err = <-stopped:
		rec.emit("StopRet", "err", errClass(err))
		rec.emit("RunRet", "err", errClass(err))
	case <-time.After(20 * time.Second):
		rec.emit("RunStuck")
		rep.Violation("sys/run-stuck", "Client.Stop did not return within 20 s: "+cfg.String(), nil)
	}
	time.Sleep(30 * time.Millisecond)
	close(stopCanary)
	cwg.Wait()
	h.closeDups(true)
	leaked, what := leakedSince(baseFds)
	if leaked > 0 {
		time.Sleep(100 * time.Millisecond)
		leaked, what = leakedSince(baseFds)
	}
	rec.emit("ProcFd", "leaked", leaked, "what", fmt.Sprint(what), "sockfiles", 0)
	rec.emit("Grace")
	rep.Eval("client-" + cfg.name + fmt.Sprint(seed%64))
}

func TestVerifClient(t *testing.T) {
	scratch := os.Getenv("VERIF_SYS_SCRATCH")
	if scratch == "" {
		scratch = t.TempDir()
	}
	rep := vsup.NewReport("client")
	rec, err := newRecorder(os.Getenv("VERIF_TRACE"), rep)
	if err != nil {
		t.Fatal(err)
	}
	rec.install()
	defer rec.uninstall()
	rng := vsup.NewRng(vsup.Seed() + 4242)
	for r := 0; r < vsup.EnvInt("VERIF_ROUNDS", 1); r++ {
		for _, cfg := range sysConfigs(rng, vsup.Thorough()) {
			cfg.reuseport, cfg.flood, cfg.stopSrc = false, false, "Client.Stop"
			runClientScenario(t, rec, cfg, rng.Uint64(), scratch, rep)
		}
	}
	rec.uninstall()
	if err := rec.close(); err != nil {
		t.Fatal(err)
	}
	rep.Set("events", rec.seq)
	if err := rep.Write(); err != nil {
		t.Fatal(err)
	}
}
