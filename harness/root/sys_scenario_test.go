package gnet

import (
	"context"
	"fmt"
	"net"
	"os"
	"path/filepath"
	"strings"
	"sync"
	"sync/atomic"
	"syscall"
	"testing"
	"time"

	"golang.org/x/sys/unix"

	"github.com/panjf2000/gnet/v2/internal/vsup"
	"github.com/panjf2000/gnet/v2/pkg/logging"
)

type sysCfg struct {
	name      string
	network   string // "tcp" or "unix"
	et        bool
	chunk     int
	loops     int
	reuseport bool
	lb        LoadBalancing
	ticker    bool
	readCap   int
	writeCap  int
	sndbuf    int
	client    bool
	stopSrc   string // "Engine.Stop", "Stop", "OnTraffic", "OnTick", "OnClose"
	conns     int
	flood     bool
	multi     bool // Rotate with several listeners (tcp + unix + tcp)
	v6zone    bool // listen on [::1%<loopback interface>]: zoned IPv6 addresses on both sides
}

func (c *sysCfg) String() string {
	return fmt.Sprintf("%s net=%s et=%v chunk=%d loops=%d reuseport=%v lb=%d ticker=%v rcap=%d wcap=%d sndbuf=%d stop=%s conns=%d multi=%v",
		c.name, c.network, c.et, c.chunk, c.loops, c.reuseport, c.lb, c.ticker, c.readCap, c.writeCap, c.sndbuf, c.stopSrc, c.conns, c.multi)
}

func contextBG() context.Context { return context.Background() }

func freePort() int {
	l, err := net.Listen("tcp", "127.0.0.1:0")
	if err != nil {
		panic(err)
	}
	defer l.Close()
	return l.Addr().(*net.TCPAddr).Port
}

type nullLogger struct{}

func (nullLogger) Debugf(string, ...any) {}
func (nullLogger) Infof(string, ...any)  {}
func (nullLogger) Warnf(string, ...any)  {}
func (nullLogger) Errorf(string, ...any) {}
func (nullLogger) Fatalf(string, ...any) {}

var _ logging.Logger = nullLogger{}

// segPlan cuts total bytes into segments according to a style.
func segPlan(total int, rng *vsup.Rng, readCap int) []int {
	var segs []int
	left := total
	style := rng.Intn(6)
	for left > 0 {
		var n int
		switch style {
		case 0:
			n = 1
			if len(segs) > 40 {
				n = left
			}
		case 1:
			n = readCap // exactly the read-buffer size, more pending
		case 2:
			n = 1 + rng.Intn(2000)
		case 3:
			n = left
		case 4:
			n = []int{1, 2, 511, 512, 513, readCap - 1, readCap + 1, 3 * readCap}[rng.Intn(8)]
		default:
			n = 1 + rng.Intn(3*readCap)
		}
		if n > left {
			n = left
		}
		if n <= 0 {
			n = 1
		}
		segs = append(segs, n)
		left -= n
	}
	return segs
}

func randSpec(id int, rng *vsup.Rng, cfg *sysCfg) *peerSpec {
	sp := &peerSpec{id: id, seed: rng.Uint64(), network: cfg.network, done: make(chan struct{})}
	sp.total = []int{0, 1, 5, 100, 1024, 5000, 65536, 70000, 300000}[rng.Intn(9)]
	if rng.Intn(3) == 0 {
		sp.total = rng.Intn(20000)
	}
	sp.segs = segPlan(sp.total, rng, cfg.readCap)
	sp.lockstep = rng.Intn(3) == 0 && len(sp.segs) < 200
	sp.shut = []string{"fin", "close", "fin", "close", "rst", "server", "fin"}[rng.Intn(7)]
	sp.peerRead = []string{"normal", "normal", "slow", "stall"}[rng.Intn(4)]
	sp.consume = []string{"all", "dribble", "mixed", "mixed", "lazy", "peekonly", "record"}[rng.Intn(7)]
	if (sp.consume == "dribble" || sp.consume == "record") && sp.total > 3000 {
		sp.consume = "mixed"
	}
	sp.reply = []string{"none", "frames", "frames", "big"}[rng.Intn(4)]
	sp.openOut = -1
	if rng.Intn(3) == 0 {
		sp.openOut = []int{0, 10, 5000, 100000}[rng.Intn(4)]
	}
	sp.closeAt = -1
	sp.closeHow = "action"
	if sp.shut == "server" {
		sp.closeAt = sp.total
		if sp.total > 0 && rng.Intn(2) == 0 {
			sp.closeAt = rng.Intn(sp.total + 1)
		}
		sp.closeHow = []string{"action", "elclose", "async", "asynccb"}[rng.Intn(4)]
	}
	if rng.Intn(3) == 0 && sp.reply != "none" {
		sp.asyncW = 1 + rng.Intn(2)
		sp.asyncN = 1 + rng.Intn(5)
	}
	if rng.Intn(4) == 0 {
		sp.wakes = 1 + rng.Intn(3)
	}
	return sp
}

// runPeer plays the peer side of one stream connection.
func runPeer(rec *recorder, h *vhandler, sp *peerSpec, addr string, scratch string, rep *vsup.Report) {
	defer close(sp.done)
	var c net.Conn
	var err error
	if sp.network == "unix" {
		la := &net.UnixAddr{Name: filepath.Join(scratch, fmt.Sprintf("p%d.sock", sp.id)), Net: "unix"}
		_ = os.Remove(la.Name)
		c, err = net.DialUnix("unix", la, &net.UnixAddr{Name: addr, Net: "unix"})
		defer os.Remove(la.Name)
	} else {
		c, err = net.Dial("tcp", addr)
	}
	if err != nil {
		rec.emit("PeerDialFail", "c", sp.id, "err", err.Error())
		return
	}
	sp.laddr = c.LocalAddr().String()
	// (the listener's address as it was given to the engine: Go's own RemoteAddr drops the zone of "[::1%lo]")
	rec.emit("PeerDial", "c", sp.id, "laddr", sp.laddr, "raddr", addr, "net", sp.network)
	h.peers.Store(sp.laddr, sp)
	peerSession(rec, h, sp, c, rep)
}

// peerSession plays the peer's side of an established stream connection (dialled by the peer in the server
// scenarios, accepted by the peer in the client scenarios).
func peerSession(rec *recorder, h *vhandler, sp *peerSpec, c net.Conn, rep *vsup.Report) {
	rng := vsup.NewRng(sp.seed ^ 0x5bd1e995)
	if tc, ok := c.(*net.TCPConn); ok {
		_ = tc.SetNoDelay(true)
		if sp.peerRead != "normal" && sp.budget == 0 {
			_ = tc.SetReadBuffer(4096)
		}
	}
	// reader: parses frames; ends at EOF / error
	var rd sync.WaitGroup
	gotFin := make(chan struct{})
	var finOnce sync.Once
	release := make(chan struct{})
	rdDone := make(chan struct{})
	rd.Add(1)
	go func() {
		defer rd.Done()
		defer close(rdDone)
		p := &frameParser{c: sp.id, next: map[int]int{}}
		buf := make([]byte, 32*1024)
		total := 0
		if sp.peerRead == "stall" {
			wait := 300 * time.Millisecond
			if sp.earlyFin {
				wait = 20 * time.Second // (this one reads only once it has seen the engine close its end)
			}
			select {
			case <-release:
			case <-time.After(wait):
			}
		}
		for {
			n, err := c.Read(buf)
			if n > 0 {
				total += n
				p.feed(buf[:n], func(w, k, ln int, ok bool) {
					rec.emit("PeerFrame", "c", sp.id, "w", w, "k", k, "len", ln+frameHdr, "ok", ok)
					if w == 0 && ln == 3 {
						finOnce.Do(func() { close(gotFin) })
					}
				})
				if sp.peerRead == "slow" {
					time.Sleep(200 * time.Microsecond)
				}
			}
			if err != nil {
				rec.emit("PeerEOF", "c", sp.id, "got", total, "err", errClass(err), "partial", len(p.buf))
				return
			}
		}
	}()
	if sp.hold != nil {
		select {
		case <-sp.hold:
		case <-time.After(10 * time.Second):
		}
	}
	// sender
	sent := 0
	for _, n := range sp.segs {
		if sp.sendOnly > 0 && sent >= sp.sendOnly {
			break
		}
		b := make([]byte, n)
		vsup.Fill(b, 1000+sp.id, sent)
		rec.emit("PeerSend", "c", sp.id, "upto", sent+n)
		if _, err := c.Write(b); err != nil {
			rec.emit("PeerSendErr", "c", sp.id, "at", sent, "err", errClass(err))
			break
		}
		sent += n
		if sp.lockstep {
			deadline := time.Now().Add(5 * time.Second)
			for atomic.LoadInt64(&sp.delivered) < int64(sent) && time.Now().Before(deadline) {
				time.Sleep(50 * time.Microsecond)
			}
		} else if rng.Intn(5) == 0 {
			time.Sleep(time.Duration(rng.Intn(500)) * time.Microsecond)
		}
	}
	if sp.earlyFin {
		// half-close now, start reading only later: the engine learns of the end of the stream while its answer is
		// still piling up in front of a peer that does not read
		rec.emit("PeerShut", "c", sp.id, "how", "fin", "sent", sent)
		if cw, ok := c.(interface{ CloseWrite() error }); ok {
			_ = cw.CloseWrite()
		}
		// it does not read a byte for a while: either it sees the engine close its end (POLLRDHUP needs no reading; it
		// only shows once everything in flight fits into this side's receive buffer), or, failing that, the loop that
		// owns the connection must at least be alive: an engine that waits inside close() for this peer to drain its
		// answer serves nobody else meanwhile
		hup := false
		if sc, ok := c.(syscall.Conn); ok {
			if rc, err := sc.SyscallConn(); err == nil {
				deadline := time.Now().Add(1200 * time.Millisecond)
				for !hup && time.Now().Before(deadline) {
					_ = rc.Control(func(fd uintptr) {
						pf := []unix.PollFd{{Fd: int32(fd), Events: unix.POLLRDHUP}}
						if n, _ := unix.Poll(pf, 50); n > 0 && pf[0].Revents&(unix.POLLRDHUP|unix.POLLHUP|unix.POLLERR) != 0 {
							hup = true
						}
					})
				}
			}
		}
		if hup {
			rec.emit("PeerSawClose", "c", sp.id)
		} else {
			var vc *vconn
			h.conns.Range(func(_, v any) bool {
				if x := v.(*vconn); x.spec == sp {
					vc = x
					return false
				}
				return true
			})
			alive := vc == nil
			if vc != nil {
				ran := make(chan struct{})
				if err := vc.c.EventLoop().Execute(context.Background(), RunnableFunc(func(context.Context) error { close(ran); return nil })); err == nil {
					select {
					case <-ran:
						alive = true
					case <-time.After(3 * time.Second):
					}
				} else {
					alive = true // (the engine is already going down: not this scenario's business)
				}
			}
			rec.emit("PeerNoClose", "c", sp.id, "loopalive", alive)
			if !alive {
				rep.Violation("sys/loop-stuck-in-close", fmt.Sprintf("connection %d: its peer half-closed while the answer was stuck behind a full socket and did not read; 1.2 s later the loop that owns the connection did not run a posted task within 3 s", sp.id), nil)
			}
		}
	}
	close(release)
	// wait for the final frame if one is due, then end the connection as scripted
	expectFin := sp.reply != "none" && sp.shut != "server" && sent == sp.total && sp.total > 0 && !sp.earlyFin
	if expectFin {
		select {
		case <-gotFin:
			rec.emit("PeerGotFin", "c", sp.id)
		case <-rdDone: // the connection ended before the final frame (closed by the other side)
			rec.emit("PeerNoFin", "c", sp.id)
		case <-time.After(15 * time.Second):
			// state witness: is anything still moving? bytes queued in the server's kernel send queue
			// and in our receive queue, sampled twice
			o1, i1 := queues(h, sp, c)
			time.Sleep(150 * time.Millisecond)
			o2, i2 := queues(h, sp, c)
			rec.emit("PeerFinTimeout", "c", sp.id, "outq", o1, "inq", i1, "outq2", o2, "inq2", i2)
		}
	}
	switch sp.shut {
	case "fin":
		if !sp.earlyFin {
			rec.emit("PeerShut", "c", sp.id, "how", "fin", "sent", sent)
			if cw, ok := c.(interface{ CloseWrite() error }); ok {
				_ = cw.CloseWrite()
			}
		}
		done := make(chan struct{})
		go func() { rd.Wait(); close(done) }()
		select {
		case <-done:
		case <-time.After(10 * time.Second):
			// the peer's half-close was not answered: the engine neither closed its end nor reset the connection
			rec.emit("PeerReadTimeout", "c", sp.id, "how", "fin")
		}
		_ = c.Close()
	case "close":
		rec.emit("PeerShut", "c", sp.id, "how", "close", "sent", sent)
		_ = c.Close()
		rd.Wait()
	case "rst":
		rec.emit("PeerShut", "c", sp.id, "how", "rst", "sent", sent)
		if tc, ok := c.(*net.TCPConn); ok {
			_ = tc.SetLinger(0)
		}
		_ = c.Close()
		rd.Wait()
	case "server":
		done := make(chan struct{})
		go func() { rd.Wait(); close(done) }()
		select {
		case <-done:
		case <-time.After(10 * time.Second):
			rec.emit("PeerReadTimeout", "c", sp.id)
		}
		_ = c.Close()
	}
	rec.emit("PeerDone", "c", sp.id, "sent", sent)
}

// staleRequests: requests through the handles of connections that are already closed, issued while fresh
// connections (whose descriptors reuse the old numbers) are open.  They must be no-ops.
func staleRequests(rec *recorder, h *vhandler, cfg *sysCfg, rng *vsup.Rng, dial, scratch string, rep *vsup.Report) {
	var old []*vconn
	h.conns.Range(func(_, v any) bool {
		old = append(old, v.(*vconn))
		return true
	})
	if len(old) == 0 {
		return
	}
	before := atomic.LoadInt32(&h.opened)
	hold := make(chan struct{})
	var wg sync.WaitGroup
	fresh := 3
	for i := 0; i < fresh; i++ {
		sp := &peerSpec{id: 100 + i, seed: rng.Uint64(), network: cfg.network, done: make(chan struct{}), hold: hold,
			total: 2000, segs: []int{700, 1300}, shut: "fin", peerRead: "normal", consume: "mixed", reply: "frames", openOut: -1, closeAt: -1, closeHow: "action"}
		wg.Add(1)
		go func() {
			defer wg.Done()
			runPeer(rec, h, sp, dial, scratch, rep)
		}()
	}
	deadline := time.Now().Add(5 * time.Second)
	for atomic.LoadInt32(&h.opened) < before+int32(fresh) && time.Now().Before(deadline) {
		time.Sleep(time.Millisecond)
	}
	for _, vc := range old {
		sp := vc.spec
		for _, kind := range []string{"Wake", "CloseCb", "Close", "AsyncWrite"} {
			a := h.newReq()
			h.rec.emit("AIssue", "a", a, "c", sp.id, "kind", kind, "w", 99, "k", 0, "len", 0, "g", vsup.Goid())
			cb := func(c Conn, err error) error {
				h.rec.emit("ACb", "a", a, "c", sp.id, "err", errClass(err), "g", vsup.Goid())
				atomic.AddInt32(&h.pendingCb, -1)
				return nil
			}
			var err error
			switch kind {
			case "Wake":
				err = vc.c.Wake(cb)
			case "CloseCb":
				err = vc.c.CloseWithCallback(cb)
			case "Close":
				err = vc.c.Close()
				h.rec.emit("ANoCb", "a", a)
			case "AsyncWrite":
				err = vc.c.AsyncWrite([]byte("stale"), cb)
			}
			h.rec.emit("AIssued", "a", a, "err", errClass(err))
			if err == nil && kind != "Close" {
				atomic.AddInt32(&h.pendingCb, 1)
			}
		}
	}
	close(hold)
	wg.Wait()
}

// queues samples the server socket's unsent bytes (SIOCOUTQ) and the peer socket's unread bytes (FIONREAD).
func queues(h *vhandler, sp *peerSpec, c net.Conn) (outq, inq int) {
	outq, inq = -1, -1
	h.conns.Range(func(k, v any) bool {
		if vc := v.(*vconn); vc.spec == sp {
			if n, err := unix.IoctlGetInt(vc.c.Fd(), unix.SIOCOUTQ); err == nil {
				outq = n
			}
			return false
		}
		return true
	})
	if sc, ok := c.(syscall.Conn); ok {
		if rc, err := sc.SyscallConn(); err == nil {
			_ = rc.Control(func(fd uintptr) {
				if n, err := unix.IoctlGetInt(int(fd), unix.TIOCINQ); err == nil {
					inq = n
				}
			})
		}
	}
	return
}

// canary keeps opening descriptors so that numbers the framework has just closed are reused at once;
// it checks that nobody closes or replaces its descriptors behind its back.
func canary(rec *recorder, stop <-chan struct{}, wg *sync.WaitGroup, seed uint64) {
	defer wg.Done()
	rng := vsup.NewRng(seed)
	// a held descriptor is either /dev/null or one end of a socket pair with bytes waiting to be read: if the
	// framework ever reads from, writes to or closes a number it no longer owns, the canary notices
	const pending = "CANARY-BYTES-NOBODY-MAY-READ"
	type held struct {
		fd, peer int // peer: the other end of the pair (-1 for /dev/null)
		ino      uint64
	}
	var mine []held
	closeOne := func(i int) {
		hd := mine[i]
		mine = append(mine[:i], mine[i+1:]...)
		var st unix.Stat_t
		why := ""
		if err := unix.Fstat(hd.fd, &st); err != nil || st.Ino != hd.ino {
			why = "identity"
		} else if hd.peer >= 0 {
			buf := make([]byte, 64)
			n, _, err := unix.Recvfrom(hd.fd, buf, unix.MSG_PEEK|unix.MSG_DONTWAIT)
			if err != nil || string(buf[:n]) != pending {
				why = "pending bytes were consumed"
			} else if m, _, err := unix.Recvfrom(hd.peer, buf, unix.MSG_PEEK|unix.MSG_DONTWAIT); err == nil && m > 0 {
				why = "somebody wrote into it"
			}
		}
		if why != "" {
			rec.emit("ForeignBroken", "fd", hd.fd, "why", why)
		}
		rec.emit("ForeignClose", "fd", hd.fd)
		_ = unix.Close(hd.fd)
		if hd.peer >= 0 {
			rec.emit("ForeignClose", "fd", hd.peer)
			_ = unix.Close(hd.peer)
		}
	}
	for {
		select {
		case <-stop:
			for len(mine) > 0 {
				closeOne(0)
			}
			return
		default:
		}
		if len(mine) < 3 {
			if rng.Intn(2) == 0 {
				if fd, err := unix.Open("/dev/null", unix.O_RDWR|unix.O_CLOEXEC, 0); err == nil {
					var st unix.Stat_t
					_ = unix.Fstat(fd, &st)
					rec.emit("ForeignOpen", "fd", fd)
					mine = append(mine, held{fd, -1, st.Ino})
				}
			} else if p, err := unix.Socketpair(unix.AF_UNIX, unix.SOCK_STREAM|unix.SOCK_CLOEXEC|unix.SOCK_NONBLOCK, 0); err == nil {
				var st unix.Stat_t
				_ = unix.Fstat(p[0], &st)
				rec.emit("ForeignOpen", "fd", p[0])
				rec.emit("ForeignOpen", "fd", p[1])
				_, _ = unix.Write(p[1], []byte(pending))
				mine = append(mine, held{p[0], p[1], st.Ino})
			}
		}
		if len(mine) > 0 && rng.Intn(2) == 0 {
			closeOne(rng.Intn(len(mine)))
		}
		time.Sleep(time.Duration(300+rng.Intn(1500)) * time.Microsecond)
	}
}

// fdSnapshot lists the open descriptors of the process with what they refer to.
func fdSnapshot() map[int]string {
	out := map[int]string{}
	ents, err := os.ReadDir("/proc/self/fd")
	if err != nil {
		return out
	}
	for _, e := range ents {
		var n int
		if _, err := fmt.Sscan(e.Name(), &n); err != nil {
			continue
		}
		if t, err := os.Readlink("/proc/self/fd/" + e.Name()); err == nil {
			out[n] = t
		}
	}
	return out
}

// leakedSince counts descriptors of the kinds the framework creates that exist now but not in base.
func leakedSince(base map[int]string) (n int, what []string) {
	for fd, t := range fdSnapshot() {
		if base[fd] == t {
			continue
		}
		if strings.HasPrefix(t, "socket:") || strings.Contains(t, "eventpoll") || strings.Contains(t, "eventfd") {
			n++
			what = append(what, fmt.Sprintf("%d->%s", fd, t))
		}
	}
	return
}

// runServerScenario: one engine life with cfg.conns scripted connections.
func runServerScenario(t *testing.T, rec *recorder, cfg *sysCfg, seed uint64, scratch string, rep *vsup.Report) {
	rng := vsup.NewRng(seed)
	rec.emit("Reset", "cfg", cfg.String(), "et", cfg.et, "loops", cfg.loops, "reuseport", cfg.reuseport, "ticker", cfg.ticker, "seed", int(seed%1000000),
		"lb", []string{"rr", "lc", "hash"}[int(cfg.lb)%3])
	h := &vhandler{rec: rec, cfg: cfg, booted: make(chan struct{}), raceMode: rec.muted}
	var addr, dial string
	if cfg.network == "unix" {
		dial = filepath.Join(scratch, fmt.Sprintf("srv%d.sock", seed%100000))
		addr = "unix://" + dial
	} else {
		dial = fmt.Sprintf("127.0.0.1:%d", freePort())
		if cfg.v6zone {
			dial = fmt.Sprintf("[%s%%%s]:%d", v6ZoneHost(), loopbackName(), freePort())
		}
		addr = "tcp://" + dial
	}
	// Rotate: two more listeners of the other / the same kind; every peer dials one of them
	type target struct{ network, dial string }
	targets := []target{{cfg.network, dial}}
	addrs := []string{addr}
	if cfg.multi {
		u := filepath.Join(scratch, fmt.Sprintf("srvB%d.sock", seed%100000))
		tp := fmt.Sprintf("127.0.0.1:%d", freePort())
		targets = append(targets, target{"unix", u}, target{"tcp", tp})
		addrs = append(addrs, "unix://"+u, "tcp://"+tp)
	}
	opts := []Option{WithNumEventLoop(cfg.loops), WithReusePort(cfg.reuseport), WithLoadBalancing(cfg.lb), WithTicker(cfg.ticker),
		WithReadBufferCap(cfg.readCap), WithWriteBufferCap(cfg.writeCap), WithLogger(nullLogger{}), WithLockOSThread(false)}
	if cfg.et {
		opts = append(opts, WithEdgeTriggeredIO(true))
		if cfg.chunk > 0 {
			opts = append(opts, WithEdgeTriggeredIOChunk(cfg.chunk))
		}
	}
	if cfg.sndbuf > 0 {
		opts = append(opts, WithSocketSendBuffer(cfg.sndbuf))
	}
	baseFds := fdSnapshot()
	stopCanary := make(chan struct{})
	var cwg sync.WaitGroup
	for i := 0; i < 2; i++ {
		cwg.Add(1)
		go canary(rec, stopCanary, &cwg, seed+uint64(i))
	}
	runErr := make(chan error, 1)
	go func() {
		var err error
		if cfg.multi {
			err = Rotate(h, addrs, opts...)
		} else {
			err = Run(h, addr, opts...)
		}
		rec.emit("RunRet", "err", errClass(err))
		runErr <- err
	}()
	select {
	case <-h.booted:
	case err := <-runErr:
		t.Fatalf("engine did not boot: %v", err)
	case <-time.After(10 * time.Second):
		t.Fatalf("engine did not boot in time")
	}
	time.Sleep(20 * time.Millisecond) // listeners are added to the pollers right after OnBoot
	var wg sync.WaitGroup
	specs := make([]*peerSpec, cfg.conns)
	for i := range specs {
		specs[i] = randSpec(i+1, rng, cfg)
		tg := targets[i%len(targets)]
		specs[i].network = tg.network
		if tg.network == "unix" && specs[i].shut == "rst" {
			specs[i].shut = "close"
		}
		if i == 0 && cfg.flood {
			// one connection with a flood of asynchronous writes issued while its loop is held in a callback
			sp := specs[i]
			sp.total, sp.segs, sp.lockstep = 10, []int{10}, false
			sp.shut, sp.peerRead, sp.consume, sp.reply = "fin", "normal", "all", "frames"
			sp.closeAt, sp.openOut, sp.wakes = -1, -1, 0
			sp.asyncW, sp.asyncN, sp.flood = 1+rng.Intn(2), 1100+rng.Intn(300), true
		}
		if !cfg.v6zone && i == 1 && cfg.conns >= 4 {
			// a quiet peer: a small request, then it only reads while the handler answers with big frames -- nothing
			// but the engine's own re-arming (EPOLLOUT in LT mode, the chunk re-trigger in ET mode) moves the backlog
			sp := specs[i]
			sp.total, sp.segs, sp.lockstep = 10, []int{10}, false
			sp.shut, sp.peerRead, sp.consume, sp.reply = "fin", "normal", "all", "big"
			sp.closeAt, sp.openOut, sp.wakes, sp.asyncW = -1, -1, 0, 0
			if cfg.et || rng.Intn(2) == 0 {
				// ... and it starts reading late, so that a backlog builds up first (more than the socket buffers of
				// either kind take)
				sp.peerRead, sp.budget = "stall", 1<<20
			}
		}
		if !cfg.v6zone && i == 2 && cfg.conns >= 4 {
			// a burst and the end at once: everything the peer has to say and its FIN / close are in the socket
			// before the loop gets to the first event (OnOpen keeps it busy): all of it must still be delivered
			sp := specs[i]
			sp.total = []int{5000, 70000, 3*cfg.readCap + 1}[rng.Intn(3)]
			if cfg.chunk > 0 && cfg.readCap > cfg.chunk {
				sp.total = cfg.chunk + 1000 // one read takes it all: more than the chunk, less than the buffer, FIN right behind
			}
			sp.segs, sp.lockstep = []int{sp.total}, false
			sp.shut = []string{"fin", "close"}[rng.Intn(2)]
			sp.reply, sp.openOut, sp.closeAt, sp.wakes, sp.asyncW, sp.openHold = "none", -1, -1, 0, 0, 5
			if sp.consume == "dribble" || sp.consume == "record" || sp.consume == "peekonly" {
				sp.consume = "mixed"
			}
		}
		if !cfg.v6zone && i == 3 && cfg.conns >= 6 {
			// a big OnOpen reply to a peer that reads late: conn.open's own write loop meets short writes and EAGAIN
			sp := specs[i]
			sp.total, sp.segs, sp.lockstep = 10, []int{10}, false
			sp.shut, sp.peerRead, sp.consume, sp.reply = "fin", "stall", "all", "frames"
			sp.closeAt, sp.openOut, sp.wakes, sp.asyncW, sp.budget = -1, 300000, 0, 0, 1
		}
		if !cfg.v6zone && i == 4 && cfg.conns >= 6 {
			// a peer that asks, half-closes at once and reads only later: the end of its stream arrives while a big
			// answer is stuck behind a full socket (the close-time flush must give up, not wait)
			sp := specs[i]
			sp.total, sp.segs, sp.lockstep = 10, []int{10}, false
			sp.shut, sp.peerRead, sp.consume, sp.reply, sp.earlyFin = "fin", "stall", "all", "big", true
			sp.closeAt, sp.openOut, sp.wakes, sp.asyncW, sp.budget = -1, -1, 0, 0, 1<<20
		}
		if !cfg.v6zone && i == 5 && cfg.conns >= 7 {
			// a reader that leaves 100 bytes behind in every callback while 40 segments arrive one by one: its
			// leftover goes round the ring buffer (see the "wrap" policy)
			sp := specs[i]
			sp.total = 40 * 290
			sp.segs = make([]int, 40)
			for j := range sp.segs {
				sp.segs[j] = 290
			}
			sp.lockstep, sp.consume, sp.reply, sp.shut = true, "wrap", "none", "fin"
			sp.closeAt, sp.openOut, sp.asyncW, sp.wakes, sp.peerRead = -1, -1, 0, 0, "normal"
		}
		if cfg.v6zone && i == 0 {
			// first wave: a connection that ends with an unfinished stream sitting in its inbound buffer (the peer
			// stops half way and closes, the handler only peeks): its pooled ring goes back with bytes in it
			sp := specs[i]
			sp.total, sp.sendOnly = 6000, 3000
			sp.segs = []int{500, 500, 500, 500, 500, 500, 500, 500, 500, 500, 500, 500}
			sp.lockstep, sp.consume, sp.reply, sp.shut = true, "peekonly", "none", "close"
			sp.closeAt, sp.openOut, sp.asyncW, sp.wakes = -1, -1, 0, 0
		}
		if cfg.v6zone && i >= len(specs)/2 {
			// second wave, after the first one has gone: connections reading small fixed-size records that arrive
			// byte by byte, i.e. served from the pooled scratch memory that released connections gave back
			// (among it the memory of their addresses' zone names)
			if i == len(specs)/2 {
				wg.Wait()
			}
			sp := specs[i]
			sp.total = 40 + rng.Intn(200)
			sp.segs = make([]int, sp.total)
			for j := range sp.segs {
				sp.segs[j] = 1
			}
			sp.lockstep, sp.consume, sp.recSize = true, "record", []int{len(loopbackName()), 2, 3, 4}[rng.Intn(4)]
			sp.closeAt, sp.asyncW, sp.wakes = -1, 0, 0
			if sp.shut == "server" {
				sp.shut = "fin"
			}
		}
		wg.Add(1)
		go func(sp *peerSpec, to string) {
			defer wg.Done()
			runPeer(rec, h, sp, to, scratch, rep)
		}(specs[i], tg.dial)
		if rng.Intn(3) == 0 {
			time.Sleep(time.Duration(rng.Intn(2000)) * time.Microsecond)
		}
	}
	peersDone := make(chan struct{})
	go func() { wg.Wait(); close(peersDone) }()
	select {
	case <-peersDone:
	case <-time.After(60 * time.Second):
		rec.emit("PeersTimeout")
		rep.Violation("sys/peers-stuck", "peers did not finish within 60 s: "+cfg.String(), nil)
	}
	h.asyncWG.Wait()
	staleRequests(rec, h, cfg, rng, dial, scratch, rep)
	// quiescence: every connection the peers ended must have been closed by now (or soon)
	deadline := time.Now().Add(5 * time.Second)
	for (atomic.LoadInt32(&h.closedN) < atomic.LoadInt32(&h.opened) || atomic.LoadInt32(&h.pendingCb) > 0) && time.Now().Before(deadline) {
		time.Sleep(time.Millisecond)
	}
	rec.emit("Quiesce", "count", h.eng.CountConnections(), "opened", int(atomic.LoadInt32(&h.opened)), "closed", int(atomic.LoadInt32(&h.closedN)))
	// shutdown
	g := vsup.Goid()
	h.awaitSlowTick()
	switch cfg.stopSrc {
	case "Stop":
		rec.emit("StopReq", "src", "Stop", "g", g)
		err := Stop(context.Background(), addr)
		rec.emit("StopRet", "err", errClass(err))
	case "OnTick":
		atomic.StoreInt32(&h.tickStop, atomic.LoadInt32(&h.ticks)+1)
	default:
		rec.emit("StopReq", "src", "Engine.Stop", "g", g)
		ctx, cancel := context.WithTimeout(context.Background(), 20*time.Second)
		err := h.eng.Stop(ctx)
		cancel()
		rec.emit("StopRet", "err", errClass(err))
	}
	select {
	case <-runErr:
	case <-time.After(20 * time.Second):
		rec.emit("RunStuck")
		rep.Violation("sys/run-stuck", "Run did not return within 20 s after the shutdown request: "+cfg.String(), nil)
	}
	time.Sleep(30 * time.Millisecond)
	close(stopCanary)
	cwg.Wait()
	h.closeDups(true)
	leaked, what := leakedSince(baseFds)
	if leaked > 0 { // sockets of peers that are still being torn down by the Go runtime: look again
		time.Sleep(100 * time.Millisecond)
		leaked, what = leakedSince(baseFds)
	}
	sockfiles := 0
	for _, tg := range targets {
		if tg.network == "unix" {
			if _, err := os.Stat(tg.dial); err == nil {
				sockfiles++
			}
		}
	}
	rec.emit("ProcFd", "leaked", leaked, "what", fmt.Sprint(what), "sockfiles", sockfiles)
	rec.emit("Grace")
	rep.Eval(cfg.name + fmt.Sprint(seed%64))
}

// runShutdownScenario (C06): connections active, idle and being accepted while shutdown is requested from one of
// the documented sources; Run must return, every opened connection gets its OnClose first, OnShutdown runs once,
// nothing runs afterwards.
func runShutdownScenario(t *testing.T, rec *recorder, cfg *sysCfg, seed uint64, scratch string, rep *vsup.Report) {
	rng := vsup.NewRng(seed)
	rec.emit("Reset", "cfg", "shutdown "+cfg.String(), "et", cfg.et, "loops", cfg.loops, "reuseport", cfg.reuseport, "ticker", cfg.ticker, "seed", int(seed%1000000))
	h := &vhandler{rec: rec, cfg: cfg, booted: make(chan struct{})}
	if cfg.stopSrc == "OnBoot" {
		h.bootAction = Shutdown
	}
	var addr, dial string
	if cfg.network == "unix" {
		dial = filepath.Join(scratch, fmt.Sprintf("sd%d.sock", seed%100000))
		addr = "unix://" + dial
	} else {
		dial = fmt.Sprintf("127.0.0.1:%d", freePort())
		addr = "tcp://" + dial
	}
	opts := []Option{WithNumEventLoop(cfg.loops), WithReusePort(cfg.reuseport), WithLoadBalancing(cfg.lb), WithTicker(cfg.ticker),
		WithReadBufferCap(cfg.readCap), WithWriteBufferCap(cfg.writeCap), WithLogger(nullLogger{})}
	if cfg.et {
		opts = append(opts, WithEdgeTriggeredIO(true))
	}
	baseFds := fdSnapshot()
	runErr := make(chan error, 1)
	if cfg.stopSrc == "OnBoot" {
		rec.emit("StopReq", "src", "OnBoot", "g", vsup.Goid())
	}
	go func() {
		err := Run(h, addr, opts...)
		rec.emit("RunRet", "err", errClass(err))
		runErr <- err
	}()
	if cfg.stopSrc == "OnBoot" {
		select {
		case <-runErr:
		case <-time.After(10 * time.Second):
			rec.emit("RunStuck")
		}
		time.Sleep(20 * time.Millisecond)
		leaked, what := leakedSince(baseFds)
		rec.emit("ProcFd", "leaked", leaked, "what", fmt.Sprint(what), "sockfiles", 0)
		rec.emit("Grace")
		rep.Eval("shutdown-OnBoot")
		return
	}
	select {
	case <-h.booted:
	case err := <-runErr:
		t.Fatalf("engine did not boot: %v", err)
	case <-time.After(10 * time.Second):
		t.Fatalf("engine did not boot in time")
	}
	time.Sleep(20 * time.Millisecond)
	var wg sync.WaitGroup
	n := 4 + rng.Intn(5)
	trigger := make(chan struct{}) // closed when the designated connection may do its thing
	mk := func(id int) *peerSpec {
		sp := &peerSpec{id: id, seed: rng.Uint64(), network: cfg.network, done: make(chan struct{}), openOut: -1, closeAt: -1, closeHow: "action",
			peerRead: "normal", consume: []string{"all", "mixed", "lazy"}[rng.Intn(3)], reply: []string{"none", "frames"}[rng.Intn(2)]}
		switch rng.Intn(3) {
		case 0: // idle: nothing is ever sent
			sp.total, sp.segs, sp.shut = 0, nil, "server"
		case 1: // active: keeps sending until the engine goes away
			sp.total = 200000 + rng.Intn(200000)
			sp.segs = segPlan(sp.total, rng, 700)
			sp.shut = "server"
		default: // short exchange, then stays open
			sp.total = 1 + rng.Intn(3000)
			sp.segs = segPlan(sp.total, rng, cfg.readCap)
			sp.shut = "server"
		}
		return sp
	}
	for i := 1; i <= n; i++ {
		sp := mk(i)
		wg.Add(1)
		go func() { defer wg.Done(); runPeer(rec, h, sp, dial, scratch, rep) }()
	}
	// connections being accepted while the request comes in
	stopDial := make(chan struct{})
	var dwg sync.WaitGroup
	dwg.Add(1)
	go func() {
		defer dwg.Done()
		id := 200
		for {
			select {
			case <-stopDial:
				return
			default:
			}
			id++
			sp := mk(id)
			sp.total, sp.segs = 10, []int{10}
			wg.Add(1)
			go func() { defer wg.Done(); runPeer(rec, h, sp, dial, scratch, rep) }()
			time.Sleep(time.Duration(200+rng.Intn(1500)) * time.Microsecond)
			if id > 260 {
				return
			}
		}
	}()
	time.Sleep(time.Duration(5+rng.Intn(40)) * time.Millisecond)
	close(trigger)
	g := vsup.Goid()
	h.awaitSlowTick()
	switch cfg.stopSrc {
	case "Stop":
		rec.emit("StopReq", "src", "Stop", "g", g)
		err := Stop(context.Background(), addr)
		rec.emit("StopRet", "err", errClass(err))
	case "OnTick":
		atomic.StoreInt32(&h.tickStop, atomic.LoadInt32(&h.ticks)+1)
	case "OnOpen", "OnTraffic", "OnClose", "OnTrafficClosed":
		// one more connection whose callback asks for the shutdown
		sp := mk(99)
		sp.stopOn = cfg.stopSrc
		sp.total, sp.segs, sp.consume = 100, []int{100}, "all"
		if cfg.stopSrc == "OnTrafficClosed" {
			// the OnTraffic that answers Shutdown has closed its own connection (EventLoop.Close) a moment before:
			// the action of a callback counts whatever the callback did to its connection
			sp.stopOn, sp.closeAt, sp.closeHow, sp.reply = "OnTraffic", 0, "elclose", "none"
		}
		if cfg.stopSrc == "OnClose" {
			sp.shut = "close"
		}
		wg.Add(1)
		go func() { defer wg.Done(); runPeer(rec, h, sp, dial, scratch, rep) }()
	case "OnTrafficWake":
		// an idle connection; a user goroutine wakes it (with a callback) and that OnTraffic answers Shutdown
		sp := mk(99)
		sp.stopOn = "OnTraffic"
		sp.total, sp.segs, sp.consume, sp.shut, sp.reply = 0, nil, "all", "server", "none"
		wg.Add(1)
		go func() { defer wg.Done(); runPeer(rec, h, sp, dial, scratch, rep) }()
		var target *vconn
		deadline := time.Now().Add(5 * time.Second)
		for target == nil && time.Now().Before(deadline) {
			h.conns.Range(func(_, v any) bool {
				if vc := v.(*vconn); vc.spec.id == 99 {
					target = vc
					return false
				}
				return true
			})
			time.Sleep(time.Millisecond)
		}
		if target != nil {
			a := h.newReq()
			rec.emit("AIssue", "a", a, "c", 99, "kind", "Wake", "w", 0, "k", 0, "len", 0, "g", vsup.Goid())
			werr := target.c.Wake(func(c Conn, err error) error {
				rec.emit("ACb", "a", a, "c", 99, "err", errClass(err), "g", vsup.Goid())
				return nil
			})
			rec.emit("AIssued", "a", a, "err", errClass(werr))
		}
	default:
		rec.emit("StopReq", "src", "Engine.Stop", "g", g)
		ctx, cancel := context.WithTimeout(context.Background(), 20*time.Second)
		err := h.eng.Stop(ctx)
		cancel()
		rec.emit("StopRet", "err", errClass(err))
	}
	select {
	case <-runErr:
	case <-time.After(20 * time.Second):
		rec.emit("RunStuck")
		rep.Violation("sys/run-stuck", "Run did not return within 20 s after the shutdown request: "+cfg.String(), nil)
	}
	close(stopDial)
	dwg.Wait()
	pd := make(chan struct{})
	go func() { wg.Wait(); close(pd) }()
	select {
	case <-pd:
	case <-time.After(30 * time.Second):
		rec.emit("PeersTimeout")
	}
	h.asyncWG.Wait()
	time.Sleep(30 * time.Millisecond)
	h.closeDups(true)
	leaked, what := leakedSince(baseFds)
	if leaked > 0 {
		time.Sleep(100 * time.Millisecond)
		leaked, what = leakedSince(baseFds)
	}
	sockfiles := 0
	if cfg.network == "unix" {
		if _, err := os.Stat(dial); err == nil {
			sockfiles = 1
		}
	}
	rec.emit("ProcFd", "leaked", leaked, "what", fmt.Sprint(what), "sockfiles", sockfiles)
	rec.emit("Grace")
	rep.Eval("shutdown-" + cfg.stopSrc + cfg.name)
}

func TestVerifShutdown(t *testing.T) {
	scratch := os.Getenv("VERIF_SYS_SCRATCH")
	if scratch == "" {
		scratch = t.TempDir()
	}
	rep := vsup.NewReport("shutdown")
	rec, err := newRecorder(os.Getenv("VERIF_TRACE"), rep)
	if err != nil {
		t.Fatal(err)
	}
	rec.install()
	defer rec.uninstall()
	rng := vsup.NewRng(vsup.Seed() + 4242)
	rounds := vsup.EnvInt("VERIF_ROUNDS", 1)
	// ("OnTrafficWake": the OnTraffic that answers Shutdown is one caused by Conn.Wake with a callback;
	// "OnTrafficClosed": it has closed its own connection through EventLoop.Close before answering)
	sources := []string{"Engine.Stop", "Stop", "OnTick", "OnOpen", "OnTraffic", "OnTrafficWake", "OnTrafficClosed", "OnClose", "OnBoot"}
	for r := 0; r < rounds; r++ {
		for i, src := range sources {
			for _, reuse := range []bool{false, true} {
				cfg := &sysCfg{network: []string{"tcp", "unix"}[(i+r)%2], et: rng.Intn(2) == 0, loops: 1 + rng.Intn(3), reuseport: reuse,
					lb: LoadBalancing(rng.Intn(3)), ticker: src == "OnTick" || rng.Intn(2) == 0, readCap: 2048, writeCap: 4096, stopSrc: src}
				if reuse {
					cfg.network = "tcp" // SO_REUSEPORT mode exists for tcp only
				}
				cfg.name = fmt.Sprintf("%s-%v-%v", cfg.network, cfg.et, cfg.reuseport)
				runShutdownScenario(t, rec, cfg, rng.Uint64(), scratch, rep)
			}
		}
	}
	rec.uninstall()
	if err := rec.close(); err != nil {
		t.Fatal(err)
	}
	rep.Set("events", rec.seq)
	if err := rep.Write(); err != nil {
		t.Fatal(err)
	}
}

func sysConfigs(rng *vsup.Rng, thorough bool) []*sysCfg {
	var out []*sysCfg
	for _, network := range []string{"tcp", "unix"} {
		for _, mode := range []string{"LT", "ET", "ETchunk"} {
			cfg := &sysCfg{network: network, loops: 1 + rng.Intn(3), readCap: []int{1024, 2048, 65536}[rng.Intn(3)], writeCap: []int{1024, 4096, 65536}[rng.Intn(3)],
				lb: LoadBalancing(rng.Intn(3)), ticker: rng.Intn(2) == 0, conns: 6 + rng.Intn(6), stopSrc: []string{"Engine.Stop", "Engine.Stop", "Stop", "OnTick"}[rng.Intn(4)]}
			cfg.et = mode != "LT"
			if mode == "ETchunk" {
				cfg.chunk = []int{1024, 2048, 8192}[rng.Intn(3)]
				if network == "unix" {
					// a read buffer larger than the chunk: one read can exceed the chunk and still be a short read
					cfg.readCap, cfg.chunk = 65536, []int{1024, 2048}[rng.Intn(2)]
				}
			}
			if network == "tcp" {
				cfg.reuseport = rng.Intn(2) == 0
				if rng.Intn(2) == 0 {
					cfg.sndbuf = 4096
				}
			}
			if cfg.stopSrc == "OnTick" {
				cfg.ticker = true
			}
			cfg.multi = rng.Intn(3) == 0
			if cfg.multi {
				cfg.reuseport = false // (a unix listener among them: the engine turns SO_REUSEPORT off)
			}
			if os.Getenv("VERIF_FORCE_LB") == "rr" {
				// C15: every life balances Round-Robin through the single acceptor of a reactor-mode engine, half of
				// them over several listeners
				cfg.lb, cfg.reuseport, cfg.loops = RoundRobin, false, 2+rng.Intn(3)
				cfg.multi = len(out)%2 == 0
			}
			cfg.name = fmt.Sprintf("%s-%s", network, mode)
			cfg.flood = (network == "tcp" && mode == "ET") || (network == "unix" && mode == "LT") || rng.Intn(4) == 0
			out = append(out, cfg)
		}
	}
	if haveV6Loopback() {
		cfg := &sysCfg{network: "tcp", v6zone: true, loops: 1 + rng.Intn(3), readCap: 1024, writeCap: 1024, lb: LoadBalancing(rng.Intn(3)),
			conns: 8 + rng.Intn(4), stopSrc: "Engine.Stop", et: rng.Intn(2) == 0, reuseport: rng.Intn(2) == 0}
		cfg.name = "tcp6zone-" + map[bool]string{false: "LT", true: "ET"}[cfg.et]
		out = append(out, cfg)
	}
	return out
}

func loopbackName() string {
	if ifi, err := net.InterfaceByIndex(1); err == nil {
		return ifi.Name
	}
	return "lo"
}

// v6ZoneHost: a link-local address on the loopback interface if the check's network namespace has one (fe80::1: the
// kernel then reports a scope on both ends of every connection, so the remote addresses carry a zone too), else ::1.
func v6ZoneHost() string {
	if ifi, err := net.InterfaceByIndex(1); err == nil {
		if as, err := ifi.Addrs(); err == nil {
			for _, a := range as {
				if n, ok := a.(*net.IPNet); ok && n.IP.Equal(net.ParseIP("fe80::1")) {
					return "fe80::1"
				}
			}
		}
	}
	return "::1"
}

func haveV6Loopback() bool {
	ln, err := net.Listen("tcp6", "[::1]:0")
	if err != nil {
		return false
	}
	_ = ln.Close()
	return true
}

// TestVerifRace (C05, adjunct oracle): the same scenarios compiled with the race detector and with the recorder
// OFF (the recorder's lock would order all hooked goroutines and hide races next to a hook).
func TestVerifRace(t *testing.T) {
	scratch := os.Getenv("VERIF_SYS_SCRATCH")
	if scratch == "" {
		scratch = t.TempDir()
	}
	rep := vsup.NewReport("race")
	rec, err := newRecorder(os.Getenv("VERIF_TRACE"), rep)
	if err != nil {
		t.Fatal(err)
	}
	rec.muted = true // no sink is installed: the hooks touch no shared memory
	rng := vsup.NewRng(vsup.Seed() + 555)
	for r := 0; r < vsup.EnvInt("VERIF_ROUNDS", 1); r++ {
		for _, cfg := range sysConfigs(rng, false) {
			cfg.loops = 2 + rng.Intn(3)
			cfg.lb = LeastConnections // (Register with RoundRobin is documented as racy)
			cfg.conns = 5
			runServerScenario(t, rec, cfg, rng.Uint64(), scratch, rep)
		}
	}
	if err := rep.Write(); err != nil {
		t.Fatal(err)
	}
}

func TestVerifSys(t *testing.T) {
	scratch := os.Getenv("VERIF_SYS_SCRATCH")
	if scratch == "" {
		scratch = t.TempDir()
	}
	rep := vsup.NewReport("sys")
	rec, err := newRecorder(os.Getenv("VERIF_TRACE"), rep)
	if err != nil {
		t.Fatal(err)
	}
	rec.install()
	defer rec.uninstall()
	rng := vsup.NewRng(vsup.Seed())
	rounds := vsup.EnvInt("VERIF_ROUNDS", 1)
	for r := 0; r < rounds; r++ {
		for _, cfg := range sysConfigs(rng, vsup.Thorough()) {
			runServerScenario(t, rec, cfg, rng.Uint64(), scratch, rep)
		}
	}
	rec.uninstall()
	if err := rec.close(); err != nil {
		t.Fatal(err)
	}
	rep.Set("events", rec.seq)
	if err := rep.Write(); err != nil {
		t.Fatal(err)
	}
}
