package gnet

// C07, engine start-up that fails half way: one of the system calls that create the pollers (epoll_create1, eventfd2) is
// made to fail with strace (attached to the whole process: these calls are rare enough to be counted process-wide).  Run
// must return the error, and everything it had created by then -- listeners, pollers, eventfds, the Unix-socket file --
// must be gone; descriptors 0, 1 and 2 of the process, which it never owned, must still be what they were.

import (
	"context"
	"bufio"
	"fmt"
	"os"
	"os/exec"
	"path/filepath"
	"strings"
	"syscall"
	"testing"
	"time"

	"golang.org/x/sys/unix"

	"github.com/panjf2000/gnet/v2/internal/vsup"
)

func stdInodes() [3]uint64 {
	var out [3]uint64
	for fd := 0; fd < 3; fd++ {
		var st unix.Stat_t
		if unix.Fstat(fd, &st) == nil {
			out[fd] = st.Ino + 1
		}
	}
	return out
}

func TestVerifStartFaults(t *testing.T) {
	scratch := os.Getenv("VERIF_SYS_SCRATCH")
	if scratch == "" {
		scratch = t.TempDir()
	}
	rep := vsup.NewReport("start-faults")
	rec, err := newRecorder(os.Getenv("VERIF_TRACE"), rep)
	if err != nil {
		t.Fatal(err)
	}
	rec.install()
	defer rec.uninstall()
	rng := vsup.NewRng(vsup.Seed() + 707)
	armed := 0
	for _, sc := range []string{"epoll_create1", "eventfd2"} {
		for _, reuse := range []bool{false, true} {
			for k := 1; k <= 3; k++ {
				network := []string{"tcp", "unix"}[rng.Intn(2)]
				if reuse {
					network = "tcp"
				}
				var addr, path string
				if network == "unix" {
					path = filepath.Join(scratch, fmt.Sprintf("sf%d-%s-%d.sock", vsup.Seed()%1000, sc, k))
					addr = "unix://" + path
				} else {
					addr = fmt.Sprintf("tcp://127.0.0.1:%d", freePort())
				}
				rec.emit("Reset", "cfg", fmt.Sprintf("start-fault %s:EMFILE:when=%d reuseport=%v %s", sc, k, reuse, network))
				base := fdSnapshot()
				std := stdInodes()
				logPath := filepath.Join(scratch, fmt.Sprintf("strace.start.%s.%d.%v.log", sc, k, reuse))
				cmd := exec.Command("strace", "-f", "-p", fmt.Sprint(os.Getpid()), "-e", "trace="+sc,
					"-e", fmt.Sprintf("inject=%s:error=EMFILE:when=%d", sc, k), "-o", logPath)
				cmd.SysProcAttr = &syscall.SysProcAttr{Pdeathsig: syscall.SIGKILL}
				stderr, _ := cmd.StderrPipe()
				if err := cmd.Start(); err != nil {
					rec.emit("FaultSkip", "why", err.Error())
					continue
				}
				attached := make(chan bool, 1)
				go func() {
					scn := bufio.NewScanner(stderr)
					for scn.Scan() {
						if strings.Contains(scn.Text(), "attached") {
							select {
							case attached <- true:
							default:
							}
						}
					}
				}()
				select {
				case <-attached:
					time.Sleep(100 * time.Millisecond) // (one line per thread: let it reach them all)
				case <-time.After(5 * time.Second):
					_ = cmd.Process.Kill()
					_ = cmd.Wait()
					rec.emit("FaultSkip", "why", "strace did not attach")
					continue
				}
				armed++
				h := &vhandler{rec: rec, cfg: &sysCfg{name: "start-fault", network: network}, booted: make(chan struct{})}
				done := make(chan error, 1)
				go func() {
					done <- Run(h, addr, WithNumEventLoop(2), WithReusePort(reuse), WithLogger(nullLogger{}))
				}()
				started := false
				select {
				case err := <-done:
					rec.emit("RunRet", "err", errClass(err), "msg", fmt.Sprint(err))
				case <-time.After(3 * time.Second):
					// the fault did not hit the start-up (the call index was beyond it): an ordinary engine, stop it.
					// (Under a tracer that follows every thread of a busy machine the start-up itself can take longer
					// than this: Run may still fail. Stop on a handle whose Run failed at start-up only ends with its
					// context, so the context is a bounded one, and a Run that has returned by then is what is recorded.)
					started = true
					<-h.booted
					sctx, cancel := context.WithTimeout(contextBG(), 20*time.Second)
					_ = h.eng.Stop(sctx)
					cancel()
					select {
					case err := <-done:
						if err != nil {
							started = false
						}
						rec.emit("RunRet", "err", errClass(err), "msg", fmt.Sprint(err))
					case <-time.After(20 * time.Second):
						rec.emit("RunStuck")
						rep.Violation("sys/run-stuck", "Run did not return within 20 s after Engine.Stop (engine started under a start-up fault that missed)", nil)
					}
				}
				_ = cmd.Process.Signal(syscall.SIGINT)
				_ = cmd.Wait()
				injected := false
				if raw, err := os.ReadFile(logPath); err == nil {
					injected = strings.Contains(string(raw), "(INJECTED)")
					_ = os.Remove(logPath)
				}
				time.Sleep(20 * time.Millisecond)
				leaked, what := leakedSince(base)
				if leaked > 0 {
					time.Sleep(100 * time.Millisecond)
					leaked, what = leakedSince(base)
				}
				sockfiles := 0
				if path != "" {
					if _, err := os.Stat(path); err == nil {
						sockfiles = 1
						_ = os.Remove(path)
					}
				}
				if now := stdInodes(); now != std {
					rec.emit("ForeignBroken", "fd", 0, "why", fmt.Sprintf("the process's standard descriptors changed: %v -> %v", std, now))
				}
				rec.emit("StartFault", "syscall", sc, "when", k, "injected", injected, "started", started)
				rec.emit("ProcFd", "leaked", leaked, "what", fmt.Sprint(what), "sockfiles", sockfiles)
				rec.emit("Grace")
				rep.Eval(fmt.Sprintf("start-%s-%d-%v", sc, k, reuse))
			}
		}
	}
	rec.uninstall()
	if err := rec.close(); err != nil {
		t.Fatal(err)
	}
	rep.Set("faults_armed", armed)
	rep.Set("events", rec.seq)
	if err := rep.Write(); err != nil {
		t.Fatal(err)
	}
}
