package gnet

// C05 (adjunct race oracle): the registration entry points and the engine's counters used from user goroutines and from
// callbacks while the engine is starting, running and closing connections -- EventLoop.Register (dial-out), EventLoop.Enroll,
// Engine.Register (Least-Connections: the Round-Robin cursor is documented as unsynchronised), Engine.CountConnections.
// Run under the race detector; a connection is already waiting in the listener's queue when the first loop of a
// reuse-port engine comes up, and its OnOpen uses the engine at once.

import (
	"context"
	"fmt"
	"net"
	"sync"
	"sync/atomic"
	"testing"
	"time"

	"github.com/panjf2000/gnet/v2/internal/vsup"
)

type regRaceHandler struct {
	BuiltinEventEngine
	eng    Engine
	addr   string
	back   net.Addr
	booted chan struct{}
	opened int32
	early  sync.WaitGroup
}

func (h *regRaceHandler) OnBoot(e Engine) Action {
	h.eng = e
	// a peer that is in the listening socket's queue before any loop runs
	h.early.Add(1)
	go func() {
		defer h.early.Done()
		if c, err := net.DialTimeout("tcp", h.addr, 2*time.Second); err == nil {
			time.Sleep(300 * time.Millisecond)
			c.Close()
		}
	}()
	time.Sleep(20 * time.Millisecond)
	close(h.booted)
	return None
}

func (h *regRaceHandler) OnOpen(c Conn) ([]byte, Action) {
	atomic.AddInt32(&h.opened, 1)
	_ = h.eng.CountConnections()
	if atomic.LoadInt32(&h.opened) <= 2 {
		if ch, err := h.eng.Register(NewNetAddrContext(context.Background(), h.back)); err == nil {
			go func() { <-ch }()
		}
	}
	return nil, None
}
func (h *regRaceHandler) OnTraffic(c Conn) Action { _, _ = c.Discard(-1); return None }

func TestVerifRaceRegister(t *testing.T) {
	back, err := net.Listen("tcp", "127.0.0.1:0")
	if err != nil {
		t.Fatal(err)
	}
	defer back.Close()
	go func() {
		for {
			c, err := back.Accept()
			if err != nil {
				return
			}
			go func() { buf := make([]byte, 64); _, _ = c.Read(buf); c.Close() }()
		}
	}()
	rep := vsup.NewReport("race-register")
	defer func() {
		if err := rep.Write(); err != nil {
			t.Fatal(err)
		}
	}()
	for _, reuse := range []bool{true, false} {
		rep.Eval(fmt.Sprintf("race-register-%v", reuse))
		addr := fmt.Sprintf("127.0.0.1:%d", freePort())
		h := &regRaceHandler{addr: addr, back: back.Addr(), booted: make(chan struct{})}
		runErr := make(chan error, 1)
		go func() {
			runErr <- Run(h, "tcp://"+addr, WithNumEventLoop(4), WithReusePort(reuse), WithLoadBalancing(LeastConnections), WithLogger(nullLogger{}))
		}()
		select {
		case <-h.booted:
		case <-time.After(10 * time.Second):
			t.Fatalf("engine did not boot")
		}
		// a helper connection gives the user goroutines an EventLoop handle
		helper, err := net.Dial("tcp", addr)
		if err != nil {
			t.Fatal(err)
		}
		var loop atomic.Value
		for i := 0; i < 2000 && atomic.LoadInt32(&h.opened) < 1; i++ {
			time.Sleep(time.Millisecond)
		}
		var wg sync.WaitGroup
		stop := make(chan struct{})
		// closes going on all the time (the registry and its counters change on the loops)
		wg.Add(1)
		go func() {
			defer wg.Done()
			for {
				select {
				case <-stop:
					return
				default:
				}
				if c, err := net.Dial("tcp", addr); err == nil {
					time.Sleep(time.Millisecond)
					c.Close()
				}
			}
		}()
		// counters read from user goroutines
		wg.Add(1)
		go func() {
			defer wg.Done()
			for i := 0; i < 400; i++ {
				_ = h.eng.CountConnections()
				time.Sleep(200 * time.Microsecond)
			}
		}()
		// registrations from user goroutines, through the engine and through an event loop
		for g := 0; g < 3; g++ {
			wg.Add(1)
			go func(g int) {
				defer wg.Done()
				for i := 0; i < 12; i++ {
					ctx := context.Background()
					var ch <-chan RegisteredResult
					var err error
					switch (g + i) % 3 {
					case 0:
						ch, err = h.eng.Register(NewNetAddrContext(ctx, back.Addr()))
					case 1:
						var nc net.Conn
						if nc, err = net.Dial("tcp", back.Addr().String()); err == nil {
							ch, err = h.eng.Register(NewNetConnContext(ctx, nc))
						}
					case 2:
						if l, ok := loop.Load().(EventLoop); ok {
							ch, err = l.Register(ctx, back.Addr())
						} else if ch, err = h.eng.Register(NewNetAddrContext(ctx, back.Addr())); err == nil {
							if r := <-ch; r.Conn != nil {
								loop.Store(r.Conn.EventLoop())
							}
							ch = nil
						}
					}
					if err == nil && ch != nil {
						select {
						case r := <-ch:
							if r.Conn != nil && i%2 == 0 {
								_ = r.Conn.Close()
							}
						case <-time.After(5 * time.Second):
						}
					}
				}
			}(g)
		}
		time.Sleep(150 * time.Millisecond)
		close(stop)
		wg.Wait()
		helper.Close()
		h.early.Wait()
		_ = h.eng.Stop(contextBG())
		select {
		case <-runErr:
		case <-time.After(10 * time.Second):
			t.Fatalf("Run did not return")
		}
	}
}
