package gnet

// System-level conformance harness (channel B): recorder shared by the event handler, the peers,
// the user goroutines and the verif hooks.  One ndjson line per event, ordered by a single
// sequence number taken under the recorder's lock.  No wall clock enters a verdict.

import (
	"errors"
	"fmt"
	"io"
	"net"
	"os"
	"sync"
	"sync/atomic"
	"syscall"
	"time"

	"golang.org/x/sys/unix"

	"github.com/panjf2000/gnet/v2/internal/vhook"
	"github.com/panjf2000/gnet/v2/internal/vsup"
	errorx "github.com/panjf2000/gnet/v2/pkg/errors"
)

// an event flood (a spinning loop) must not fill the disk: the log is cut after this many events per round
var recStart = time.Now()

var maxEvents = 400000 * vsup.EnvInt("VERIF_ROUNDS", 1)

type recorder struct {
	mu       sync.Mutex
	tr       *vsup.Trace
	seq      int
	ids      map[any]int // *conn -> handle id (never recycled: the map keeps the pointer alive)
	nid      int
	rep      *vsup.Report
	muted    bool
	errSites sync.Map // "site/errclass" of the failed system calls seen since it was last cleared
	efds     sync.Map // eventfd descriptors of the open pollers (from the p.open / p.close hooks)
	// descriptors grabbed right after the framework closed them (see grab)
	gmu     sync.Mutex
	held    []grabbed
	noGrab  int32
	stopJan chan struct{}
	janDone chan struct{}
}

func (r *recorder) isEventfd(fd int) bool {
	_, ok := r.efds.Load(fd)
	return ok
}

func newRecorder(path string, rep *vsup.Report) (*recorder, error) {
	tr, err := vsup.OpenTrace(path)
	if err != nil {
		return nil, err
	}
	return &recorder{tr: tr, ids: map[any]int{}, rep: rep}, nil
}

// emit appends one event; returns its sequence number.
func (r *recorder) emit(ev string, kv ...any) int {
	m := map[string]any{"ev": ev}
	if ev == "Reset" || ev == "Grace" || ev == "PeerDial" || ev == "PeerDone" || ev == "PeersTimeout" || ev == "Quiesce" || ev == "StopReq" || ev == "RunRet" || ev == "Tick" || ev == "TickEnd" {
		m["ms"] = time.Since(recStart).Milliseconds() // (monotonic clock; read only by the ticker rules of TrLife: Tick / TickEnd)
	}
	for i := 0; i+1 < len(kv); i += 2 {
		m[kv[i].(string)] = kv[i+1]
	}
	r.mu.Lock()
	defer r.mu.Unlock()
	if r.muted {
		return r.seq
	}
	if r.seq >= maxEvents {
		// an event flood (e.g. a loop spinning on a writable event): keep the prefix, say so, stop recording
		r.muted = true
		r.seq++
		r.tr.Emit(map[string]any{"ev": "Truncated", "seq": r.seq})
		return r.seq
	}
	r.seq++
	m["seq"] = r.seq
	r.tr.Emit(m)
	return r.seq
}

// handle gives the small id of a connection object (the *conn behind a gnet.Conn or a hook's obj).
func (r *recorder) handle(obj any) int {
	if obj == nil {
		return 0
	}
	if _, ok := obj.(*conn); !ok {
		return 0
	}
	r.mu.Lock()
	defer r.mu.Unlock()
	if id, ok := r.ids[obj]; ok {
		return id
	}
	r.nid++
	r.ids[obj] = r.nid
	return r.nid
}

func errClass(err error) string {
	var en syscall.Errno
	switch {
	case err == nil:
		return "nil"
	case errors.Is(err, io.EOF):
		return "EOF"
	case errors.Is(err, net.ErrClosed):
		return "ErrClosed"
	case errors.Is(err, errorx.ErrEngineShutdown):
		return "ErrEngineShutdown"
	case errors.Is(err, errorx.ErrEngineInShutdown):
		return "ErrEngineInShutdown"
	case errors.Is(err, errorx.ErrEmptyEngine):
		return "ErrEmptyEngine"
	case errors.Is(err, io.ErrShortBuffer):
		return "ErrShortBuffer"
	case errors.As(err, &en):
		switch en {
		case unix.EAGAIN:
			return "EAGAIN"
		case unix.ECONNRESET:
			return "ECONNRESET"
		case unix.EPIPE:
			return "EPIPE"
		case unix.EBADF:
			return "EBADF"
		case unix.EINTR:
			return "EINTR"
		case unix.ENOENT:
			return "ENOENT"
		}
		return fmt.Sprintf("errno%d", int(en))
	}
	var se *os.SyscallError
	if errors.As(err, &se) {
		return errClass(se.Err)
	}
	return "other"
}

// install routes the verif hooks into the recorder.
func (r *recorder) install() {
	vhook.SetSink(func(kind, site string, obj any, a, b int, err error) {
		if kind == "sys" {
			if site == "p.open" {
				r.efds.Store(b, true)
			} else if site == "p.close" {
				r.efds.Delete(b)
			}
			r.emit("Sys", "site", site, "h", r.handle(obj), "fd", a, "n", b, "err", errClass(err), "g", vsup.Goid())
			if err != nil {
				r.errSites.Store(site+"/"+errClass(err), true)
			}
			if site == "el.close" && err == nil {
				r.grab(a)
			}
		} else {
			r.emit("Hook", "site", site, "h", r.handle(obj), "a", a, "b", b, "g", vsup.Goid())
		}
	})
	r.installGate()
	if r.stopJan == nil {
		r.stopJan, r.janDone = make(chan struct{}), make(chan struct{})
		go func() { defer close(r.janDone); r.janitor(r.stopJan) }()
	}
}

// gateFunc: the three engine-level gates are logged too (EngineTrace.tla); the queue / poller gates are not.
func (r *recorder) gateFunc() vhook.GateFunc {
	return func(site string, obj any, a int) {
		switch site {
		case "acc.accepted":
			c := obj.(*conn)
			r.emit("Gate", "site", site, "h", r.handle(c), "fd", a, "idx", c.loop.idx, "g", vsup.Goid())
		case "eng.triggered", "loop.polling-returned":
			r.emit("Gate", "site", site, "h", 0, "idx", a, "g", vsup.Goid())
		}
	}
}

func (r *recorder) installGate() { vhook.SetGate(r.gateFunc()) }

// grab: right after the framework has closed a connection's descriptor (this runs inside the hook, on the loop's
// goroutine) somebody else in the process takes that very number: one end of a socket pair with bytes waiting to be
// read.  Whatever the framework still does to the number on behalf of the dead connection -- read it, write to it,
// poll it, close it -- now hits a foreign descriptor, and its owner notices.  The pair is given up a few
// milliseconds later.
const grabPending = "FOREIGN-BYTES-NOBODY-MAY-READ"

type grabbed struct {
	fd, peer int
	ino      uint64
	at       time.Time
	pending  bool // the bytes were written into the pair
}

func (r *recorder) grab(fd int) {
	if r.muted || atomic.LoadInt32(&r.noGrab) != 0 {
		return
	}
	p, err := unix.Socketpair(unix.AF_UNIX, unix.SOCK_STREAM|unix.SOCK_CLOEXEC|unix.SOCK_NONBLOCK, 0)
	if err != nil {
		return
	}
	if p[1] == fd {
		p[0], p[1] = p[1], p[0]
	}
	var st unix.Stat_t
	_ = unix.Fstat(p[0], &st)
	r.emit("ForeignOpen", "fd", p[0], "grab", p[0] == fd)
	r.emit("ForeignOpen", "fd", p[1])
	// (this runs on the loop's thread: in the fault-injection lives the write below may itself be the call strace
	// fails -- then the pair simply has no bytes to watch over)
	n, werr := unix.Write(p[1], []byte(grabPending))
	r.gmu.Lock()
	r.held = append(r.held, grabbed{p[0], p[1], st.Ino, time.Now(), werr == nil && n == len(grabPending)})
	r.gmu.Unlock()
}

// releaseGrabbed gives up the pairs held for longer than age (all of them with age 0), checking that nobody touched them.
func (r *recorder) releaseGrabbed(age time.Duration) {
	r.gmu.Lock()
	var keep, due []grabbed
	for _, g := range r.held {
		if time.Since(g.at) >= age {
			due = append(due, g)
		} else {
			keep = append(keep, g)
		}
	}
	r.held = keep
	r.gmu.Unlock()
	for _, g := range due {
		why := ""
		var st unix.Stat_t
		buf := make([]byte, 64)
		if err := unix.Fstat(g.fd, &st); err != nil || st.Ino != g.ino {
			why = "identity"
		} else if n, _, err := unix.Recvfrom(g.fd, buf, unix.MSG_PEEK|unix.MSG_DONTWAIT); g.pending && (err != nil || string(buf[:n]) != grabPending) {
			why = "pending bytes were consumed"
		} else if m, _, err := unix.Recvfrom(g.peer, buf, unix.MSG_PEEK|unix.MSG_DONTWAIT); err == nil && m > 0 {
			why = "somebody wrote into it"
		}
		if why != "" {
			r.emit("ForeignBroken", "fd", g.fd, "why", why)
		}
		r.emit("ForeignClose", "fd", g.fd)
		_ = unix.Close(g.fd)
		r.emit("ForeignClose", "fd", g.peer)
		_ = unix.Close(g.peer)
	}
}

func (r *recorder) janitor(stop <-chan struct{}) {
	for {
		select {
		case <-stop:
			r.releaseGrabbed(0)
			return
		case <-time.After(time.Millisecond):
			r.releaseGrabbed(4 * time.Millisecond)
		}
	}
}

func (r *recorder) uninstall() {
	vhook.SetSink(nil)
	vhook.SetGate(nil)
	if r.stopJan != nil {
		close(r.stopJan)
		<-r.janDone
		r.stopJan = nil
	}
}

func (r *recorder) close() error {
	r.mu.Lock()
	defer r.mu.Unlock()
	return r.tr.Close()
}
