package gnet

// Channel B for C08: datagrams from several senders (windows of at most 4 in flight, sizes 0..65507, IPv4 and
// IPv6 loopback) to a UDP engine whose handler consumes none / part / all of each datagram and answers with
// Write or SendTo; everything is recorded and validated by specs/TrUdp.tla.

import (
	"encoding/binary"
	"fmt"
	"net"
	"os"
	"strconv"
	"strings"
	"sync"
	"sync/atomic"
	"testing"
	"time"

	"github.com/panjf2000/gnet/v2/internal/vsup"
)

const dgHdr = 10 // [sender u16, seq u32, len u32]

func mkDgram(s, k, n int) []byte {
	if n < dgHdr {
		b := make([]byte, n) // too short for a header: all zero bytes, identified by its length only
		return b
	}
	b := make([]byte, n)
	binary.BigEndian.PutUint16(b, uint16(s))
	binary.BigEndian.PutUint32(b[2:], uint32(k))
	binary.BigEndian.PutUint32(b[6:], uint32(n))
	vsup.Fill(b[dgHdr:], 5000+s, k*70001)
	return b
}

type udpHandler struct {
	BuiltinEventEngine
	rec       *recorder
	eng       Engine
	booted    chan struct{}
	addrs     sync.Map // sender id -> *net.UDPAddr
	processed [64]int64
	burstAt   int64    // sequence number (of sender 1) whose callback is slow; -1: none yet
	short     sync.Map // remote address -> queue of (s,k) of datagrams too short to carry a header
	rcap      int      // configured read buffer (0: default): a larger datagram is delivered cut down to it
}

func (h *udpHandler) OnBoot(e Engine) Action { h.eng = e; close(h.booted); return None }

func (h *udpHandler) OnTraffic(c Conn) Action {
	g := vsup.Goid()
	ib := c.InboundBuffered()
	raddr := ""
	if a := c.RemoteAddr(); a != nil {
		raddr = a.String()
	}
	b, _ := c.Peek(-1)
	s, k, ok := -1, -1, false
	if len(b) >= dgHdr {
		s, k = int(binary.BigEndian.Uint16(b)), int(binary.BigEndian.Uint32(b[2:]))
		n := int(binary.BigEndian.Uint32(b[6:]))
		// (a datagram larger than the configured read buffer arrives cut down to the buffer: one event, its first bytes)
		ok = (n == len(b) || (h.rcap > 0 && n > h.rcap && len(b) == h.rcap)) && vsup.Match(b[dgHdr:], 5000+s, k*70001) < 0
	} else if q, found := h.short.Load(raddr); found {
		// headerless datagram: the sender told us (in order) which ones it sends
		select {
		case id := <-q.(chan [3]int):
			s, k = id[0], id[1]
			ok = id[2] == len(b)
			for _, x := range b {
				ok = ok && x == 0
			}
		default:
		}
	}
	h.rec.emit("Dgram", "s", s, "k", k, "n", len(b), "ib", ib, "ok", ok, "raddr", raddr, "g", g, "h", h.rec.handle(c.(*conn)))
	if s == 1 && int64(k) == atomic.LoadInt64(&h.burstAt) {
		time.Sleep(40 * time.Millisecond) // a slow callback: the burst that follows piles up in the socket meanwhile
	}
	rng := vsup.NewRng(uint64(s)*1000003 + uint64(k))
	// consumption: none, part, all
	switch rng.Intn(3) {
	case 1:
		if ib > 0 {
			j := 1 + rng.Intn(ib)
			d, _ := c.Discard(j)
			h.rec.emit("DOp", "s", s, "k", k, "op", "Discard", "req", j, "n", d, "ib", c.InboundBuffered())
		}
	case 2:
		nb, _ := c.Next(-1)
		h.rec.emit("DOp", "s", s, "k", k, "op", "Next", "req", -1, "n", len(nb), "ib", c.InboundBuffered())
	}
	// answer
	if s >= 0 {
		reply := make([]byte, 12)
		reply[0] = 0xD7
		binary.BigEndian.PutUint16(reply[2:], uint16(s))
		binary.BigEndian.PutUint32(reply[4:], uint32(k))
		binary.BigEndian.PutUint32(reply[8:], uint32(len(b)))
		switch rng.Intn(5) {
		case 4:
			// an empty answer is a datagram too (a keep-alive): exactly one, with no bytes
			h.rec.emit("DReply", "s", s, "k", k, "kind", "E", "to", s)
			n, err := c.Write(nil)
			h.rec.emit("DReplied", "s", s, "k", k, "n", n, "want", 0, "err", errClass(err))
		case 0, 1:
			reply[1] = 'W'
			h.rec.emit("DReply", "s", s, "k", k, "kind", "W", "to", s)
			n, err := c.Write(reply)
			h.rec.emit("DReplied", "s", s, "k", k, "n", n, "err", errClass(err))
		case 2:
			// to another sender, then (sometimes) also to the datagram's own sender
			var others []int
			h.addrs.Range(func(key, _ any) bool {
				if key.(int) != s {
					others = append(others, key.(int))
				}
				return true
			})
			if len(others) > 0 {
				o := others[rng.Intn(len(others))]
				a, _ := h.addrs.Load(o)
				reply[1] = 'S'
				h.rec.emit("DReply", "s", s, "k", k, "kind", "S", "to", o)
				// (an IPv4 target in either of its two representations, as net.ParseIP / net.ResolveUDPAddr give
				// the 16-byte one and the kernel-derived addresses the 4-byte one)
				to := a.(*net.UDPAddr)
				if ip4 := to.IP.To4(); ip4 != nil {
					to = &net.UDPAddr{IP: ip4, Port: to.Port}
					if rng.Intn(2) == 0 {
						to = &net.UDPAddr{IP: ip4.To16(), Port: to.Port}
					}
				}
				if ra, ok := c.RemoteAddr().(*net.UDPAddr); ok && rng.Intn(3) == 0 {
					// the same host on another port, written into the address object the connection handed out
					ra.Port = to.Port
					to = ra
				}
				n, err := c.SendTo(reply, to)
				h.rec.emit("DReplied", "s", s, "k", k, "n", n, "err", errClass(err))
				if rng.Intn(2) == 0 {
					r2 := append([]byte{}, reply...)
					r2[1] = 'W'
					h.rec.emit("DReply", "s", s, "k", k, "kind", "W", "to", s)
					n, err := c.Write(r2)
					h.rec.emit("DReplied", "s", s, "k", k, "n", n, "err", errClass(err))
				}
			}
		}
		if s < len(h.processed) {
			atomic.AddInt64(&h.processed[s], 1)
		}
	}
	h.rec.emit("DgramEnd", "s", s, "k", k)
	return None
}

func runUDPScenario(t *testing.T, rec *recorder, network, host string, loops int, rcap int, seed uint64, rep *vsup.Report) {
	rng := vsup.NewRng(seed)
	rec.emit("Reset", "cfg", fmt.Sprintf("udp %s %s loops=%d rcap=%d", network, host, loops, rcap))
	drops0 := udpKernelDrops()
	h := &udpHandler{rec: rec, booted: make(chan struct{}), burstAt: -1, rcap: rcap}
	pc, err := net.ListenPacket(network, net.JoinHostPort(host, "0"))
	if err != nil {
		rec.emit("UdpSkip", "why", err.Error())
		return
	}
	port := pc.LocalAddr().(*net.UDPAddr).Port
	pc.Close()
	addr := fmt.Sprintf("%s://%s", network, net.JoinHostPort(host, fmt.Sprint(port)))
	runErr := make(chan error, 1)
	go func() {
		runErr <- Run(h, addr, WithNumEventLoop(loops), WithLogger(nullLogger{}), WithReadBufferCap(rcap))
	}()
	select {
	case <-h.booted:
	case err := <-runErr:
		t.Fatalf("udp engine did not boot: %v", err)
	case <-time.After(10 * time.Second):
		t.Fatalf("udp engine did not boot in time")
	}
	time.Sleep(20 * time.Millisecond)
	ns := 2 + rng.Intn(3)
	socks := make([]*net.UDPConn, ns+1)
	for s := 1; s <= ns; s++ {
		c, err := net.DialUDP(network, nil, &net.UDPAddr{IP: net.ParseIP(host), Port: port})
		if err != nil {
			t.Fatal(err)
		}
		socks[s] = c
		la := c.LocalAddr().(*net.UDPAddr)
		h.addrs.Store(s, la)
		h.short.Store(la.String(), make(chan [3]int, 64))
		rec.emit("DSender", "s", s, "laddr", la.String())
	}
	var wg sync.WaitGroup
	sizes := []int{0, 1, 9, 10, 11, 511, 512, 1024, 4096, 65507, 100, 2000}
	if rcap > 0 {
		// a small read buffer: payloads up to exactly its size (a power of two) are owed intact
		sizes = []int{0, 1, 9, 10, 11, 511, 512, rcap / 2, rcap - 1, rcap, rcap, 100}
	}
	for s := 1; s <= ns; s++ {
		// receiver of replies
		wg.Add(1)
		go func(s int) {
			defer wg.Done()
			buf := make([]byte, 70000)
			for {
				_ = socks[s].SetReadDeadline(time.Now().Add(400 * time.Millisecond))
				n, err := socks[s].Read(buf)
				if err != nil {
					if ne, ok := err.(net.Error); ok && ne.Timeout() {
						if atomic.LoadInt64(&h.processed[0]) == 1 { // told to finish
							return
						}
						continue
					}
					return
				}
				if n == 0 {
					rec.emit("DRecv", "by", s, "s", 0, "k", 0, "kind", "E", "len", 0, "ok", true)
					continue
				}
				ok := n == 12 && buf[0] == 0xD7
				rec.emit("DRecv", "by", s, "s", int(binary.BigEndian.Uint16(buf[2:])), "k", int(binary.BigEndian.Uint32(buf[4:])),
					"kind", string(buf[1:2]), "len", n, "ok", ok)
			}
		}(s)
	}
	var swg sync.WaitGroup
	counts := make([]int, ns+1)
	for s := 1; s <= ns; s++ {
		counts[s] = 8 + rng.Intn(12)
		swg.Add(1)
		go func(s int, r *vsup.Rng) {
			defer swg.Done()
			la := socks[s].LocalAddr().String()
			q, _ := h.short.Load(la)
			for k := 0; k < counts[s]; k++ {
				n := sizes[r.Intn(len(sizes))]
				if r.Intn(3) == 0 {
					n = r.Intn(3000)
					if rcap > 0 {
						n = r.Intn(rcap + 1)
					}
				}
				if rcap > 0 && k == 2+s%3 {
					// one datagram per sender that is larger than the read buffer: the kernel cuts it down to the
					// buffer, the loop must deliver that much as one event and go on serving everybody
					n = rcap + 1 + r.Intn(3000)
				}
				d := mkDgram(s, k, n)
				// at most 4 datagrams of this sender in flight
				deadline := time.Now().Add(3 * time.Second)
				for int64(k)-atomic.LoadInt64(&h.processed[s]) >= 4 && time.Now().Before(deadline) {
					time.Sleep(100 * time.Microsecond)
				}
				if n < dgHdr {
					// headerless: wait until everything before it has been handled so that it can be identified by order
					for int64(k) > atomic.LoadInt64(&h.processed[s]) && time.Now().Before(deadline) {
						time.Sleep(100 * time.Microsecond)
					}
					q.(chan [3]int) <- [3]int{s, k, n}
				}
				rec.emit("DSend", "s", s, "k", k, "len", n, "cap", rcap)
				if _, err := socks[s].Write(d); err != nil {
					rec.emit("DSendErr", "s", s, "k", k, "err", err.Error())
				}
				if n < dgHdr {
					for int64(k) >= atomic.LoadInt64(&h.processed[s]) && time.Now().Before(deadline) {
						time.Sleep(100 * time.Microsecond)
					}
				}
			}
		}(s, vsup.NewRng(seed+uint64(s)))
	}
	swg.Wait()
	// a burst: one datagram whose callback is slow, followed at once by many small ones (far more than fit into one
	// round of the loop), then silence: every one of them is owed its event
	{
		const burst = 150
		first := counts[1]
		deadline := time.Now().Add(3 * time.Second)
		for atomic.LoadInt64(&h.processed[1]) < int64(first) && time.Now().Before(deadline) {
			time.Sleep(100 * time.Microsecond)
		}
		atomic.StoreInt64(&h.burstAt, int64(first))
		r := vsup.NewRng(seed + 4711)
		for k := first; k < first+burst; k++ {
			n := dgHdr + r.Intn(24)
			rec.emit("DSend", "s", 1, "k", k, "len", n)
			if _, err := socks[1].Write(mkDgram(1, k, n)); err != nil {
				rec.emit("DSendErr", "s", 1, "k", k, "err", err.Error())
			}
		}
		counts[1] += burst
	}
	// quiescence: every datagram handled (loopback does not drop while little is in flight)
	deadline := time.Now().Add(3 * time.Second)
	for time.Now().Before(deadline) {
		done := true
		for s := 1; s <= ns; s++ {
			if atomic.LoadInt64(&h.processed[s]) < int64(counts[s]) {
				done = false
			}
		}
		if done {
			break
		}
		time.Sleep(time.Millisecond)
	}
	time.Sleep(150 * time.Millisecond) // replies in flight
	atomic.StoreInt64(&h.processed[0], 1)
	wg.Wait()
	rec.emit("UQuiesce", "kdrops", udpKernelDrops()-drops0)
	_ = h.eng.Stop(contextBG())
	select {
	case <-runErr:
	case <-time.After(10 * time.Second):
		rec.emit("RunStuck")
	}
	for s := 1; s <= ns; s++ {
		socks[s].Close()
	}
	rep.Eval(fmt.Sprintf("udp-%s-%d-%d", network, loops, seed%16))
}

func TestVerifUDP(t *testing.T) {
	rep := vsup.NewReport("udp")
	rec, err := newRecorder(os.Getenv("VERIF_TRACE"), rep)
	if err != nil {
		t.Fatal(err)
	}
	rec.install()
	defer rec.uninstall()
	rng := vsup.NewRng(vsup.Seed() + 808)
	for r := 0; r < vsup.EnvInt("VERIF_ROUNDS", 1); r++ {
		for _, nw := range [][2]string{{"udp", "127.0.0.1"}, {"udp4", "127.0.0.1"}, {"udp6", "::1"}, {"udp", "::1"}} {
			for _, loops := range []int{1, 3} {
				runUDPScenario(t, rec, nw[0], nw[1], loops, 0, rng.Uint64(), rep)
			}
		}
		for i, rcap := range []int{2048, 4096} {
			nw := [][2]string{{"udp4", "127.0.0.1"}, {"udp6", "::1"}}[(i+r)%2]
			runUDPScenario(t, rec, nw[0], nw[1], 1+2*((i+r)%2), rcap, rng.Uint64(), rep)
		}
	}
	rec.uninstall()
	if err := rec.close(); err != nil {
		t.Fatal(err)
	}
	rep.Set("events", rec.seq)
	if err := rep.Write(); err != nil {
		t.Fatal(err)
	}
}

// udpKernelDrops: datagrams the kernel itself discarded on reception (receive buffer full, checksum), IPv4 + IPv6,
// from the network namespace's SNMP counters.  Such datagrams were never received by the listener.
func udpKernelDrops() int {
	total := 0
	if raw, err := os.ReadFile("/proc/net/snmp"); err == nil {
		var hdr []string
		for _, line := range strings.Split(string(raw), "\n") {
			f := strings.Fields(line)
			if len(f) == 0 || f[0] != "Udp:" {
				continue
			}
			if hdr == nil {
				hdr = f
				continue
			}
			for i, name := range hdr {
				if name == "InErrors" && i < len(f) {
					n, _ := strconv.Atoi(f[i])
					total += n
				}
			}
		}
	}
	if raw, err := os.ReadFile("/proc/net/snmp6"); err == nil {
		for _, line := range strings.Split(string(raw), "\n") {
			f := strings.Fields(line)
			if len(f) == 2 && f[0] == "Udp6InErrors" {
				n, _ := strconv.Atoi(f[1])
				total += n
			}
		}
	}
	return total
}
